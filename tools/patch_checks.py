#!/venv/bin/python
"""usage: tools/patch_checks.py <dir with patch.diff>...   Run the 17 checks in-process against /repo + each patch; print what fires (new keys
relative to the unpatched tree) with full keys.  Triage tool for seeded changes and benign refactorings (NOT a check)."""
import json, os, shutil, subprocess, sys
sys.path.insert(0, "/verif"); sys.dont_write_bytecode = True
from concurrent.futures import ProcessPoolExecutor
from sa.selftest import failing_keys, _scratch
PIDS = (os.environ.get("PIDS") or "C01 C02 C03 C04 C05 C06 C07 C08 C10 C11 C12 C13 C14 C15 C16 C17 C18").split()
def run(args):
    name, patch, baseline = args
    d = _scratch("/repo")
    try:
        p = subprocess.run(["patch","-p1","--no-backup-if-mismatch","-s","-i",patch], cwd=d, capture_output=True, text=True)
        if p.returncode: return name, None
        fired = {}
        for pid in PIDS:
            keys, err = failing_keys(pid, d)
            new = sorted(k for k in keys if k not in baseline[pid])
            if new: fired[pid] = [f"{r}[{k}]" for r,k in new[:4]] + (["(then: " + err[:120] + ")"] if err else [])
            elif err: fired[pid] = ["ERR " + err[:200]]
        return name, fired
    finally:
        shutil.rmtree(d, ignore_errors=True)
if __name__ == "__main__":
    b = {p: failing_keys(p, "/repo")[0] for p in PIDS}
    dirs = [d.rstrip("/") for d in sys.argv[1:] if os.path.exists(os.path.join(d, "patch.diff"))]
    with ProcessPoolExecutor(16) as ex:
        res = list(ex.map(run, [(d, os.path.join(d, "patch.diff"), b) for d in dirs]))
    out = {}
    for name, fired in res:
        if fired is None: print(name, "PATCH-DOES-NOT-APPLY"); continue
        print(f"{name}: {sorted(fired) or 'silent'}")
        for pid, ks in fired.items():
            for k in ks: print(f"     {pid} {k}")
        out[name] = fired
    json.dump(out, open(os.environ.get("PATCH_CHECKS_OUT") or "/verif/out/patch_checks.json","w"), indent=1)
