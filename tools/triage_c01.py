#!/venv/bin/python
"""Triage helper (NOT a check): runs candidate demonstrating statements for the R01.5 demands against the real code and prints which
lose the table `d`.  Used once to classify demanded-but-unhandled grammar paths into known findings (with demo) or allow entries."""
import json, sys, warnings
sys.path.insert(0, "/repo")
warnings.simplefilter("ignore")
from sqllineage.runner import LineageRunner

SQ = "(SELECT max(y) FROM d)"
EXPR = {
    "expression>bracketed": [("ansi", SQ)],
    "expression>function": [("ansi", f"1 + coalesce({SQ}, 0)")],
    "expression>cast_expression": [("postgres", f"{SQ}::int")],
    "expression>select_statement": [("ansi", "a.x IN (SELECT y FROM d)"), ("ansi", "EXISTS (SELECT y FROM d)")],
    "expression>case_expression": [("ansi", "CASE WHEN a.x IN (SELECT y FROM d) THEN 1 END")],
    "expression>array_accessor": [("postgres", f"a.arr[{SQ}]")],
    "expression>typed_struct_literal": [("bigquery", f"1 + STRUCT<x INT64>({SQ}).x")],
    "expression>time_zone_grammar": [("ansi", f"a.ts AT TIME ZONE {SQ}")],
    "expression>data_type": [("ansi", f"CAST(a.x AS DECIMAL({SQ}))"), ("postgres", f"a.x::decimal({SQ})")],
    "select_clause_element>array_literal": [("ansi", f"ARRAY[{SQ}]")],
    "select_clause_element>typed_array_literal": [("bigquery", f"ARRAY<INT64>[{SQ}]")],
    "select_clause_element>object_literal": [("snowflake", "{'k': " + SQ + "}")],
    "select_clause_element>data_type": [("bigquery", f"ARRAY<INT64>[{SQ}]")],
    "case_expression>else_clause": [("ansi", f"CASE WHEN a.x > 1 THEN 1 ELSE {SQ} END")],
    "case_expression>expression": [("ansi", f"CASE {SQ} WHEN 1 THEN 1 END")],
}
WRAP = {
    "select_clause": lambda e: f"INSERT INTO t SELECT {e} AS m FROM a",
    "where_clause": lambda e: f"INSERT INTO t SELECT a.x FROM a WHERE {e}" + ("" if " IN " in e or e.startswith("EXISTS") else " > 1"),
    "having_clause": lambda e: f"INSERT INTO t SELECT a.x FROM a GROUP BY a.x HAVING {e}" + ("" if " IN " in e or e.startswith("EXISTS") else " > 1"),
}
OTHER = {
    "clause:groupby_clause": [("ansi", f"INSERT INTO t SELECT a.x FROM a GROUP BY {SQ}")],
    "clause:orderby_clause": [("ansi", f"INSERT INTO t SELECT a.x FROM a ORDER BY {SQ}")],
    "clause:limit_clause": [("ansi", f"INSERT INTO t SELECT a.x FROM a LIMIT {SQ}")],
    "clause:offset_clause": [("ansi", f"INSERT INTO t SELECT a.x FROM a LIMIT 1 OFFSET {SQ}")],
    "clause:fetch_clause": [("ansi", f"INSERT INTO t SELECT a.x FROM a FETCH FIRST {SQ} ROWS ONLY")],
    "clause:named_window": [("ansi", f"INSERT INTO t SELECT sum(a.x) OVER w FROM a WINDOW w AS (PARTITION BY {SQ})")],
    "path:from_clause:join_clause>join_on_condition": [("ansi", "INSERT INTO t SELECT a.x FROM a JOIN b ON a.i = b.i AND a.j IN (SELECT y FROM d)")],
    "path:from_clause:from_expression>bracketed": [("ansi", "INSERT INTO t SELECT * FROM ((SELECT * FROM d) q JOIN a ON 1 = 1)"), ("ansi", "INSERT INTO t SELECT * FROM (a JOIN (SELECT * FROM d) q ON 1 = 1)")],
    "path:from_clause:from_expression>ml_table_expression": [("bigquery", "INSERT INTO t SELECT * FROM ML.PREDICT(MODEL m, (SELECT * FROM d))")],
}

def run(d, sql):
    try:
        src = [str(t) for t in LineageRunner(sql, dialect=d).source_tables]
        return "LOST" if "<default>.d" not in src else "found", src
    except Exception as e:
        return "ERR:" + type(e).__name__, []

keys = [l.strip() for l in open(sys.argv[1])] if len(sys.argv) > 1 else None
out = {}
for ctx, wrap in WRAP.items():
    for pc, cands in EXPR.items():
        key = f"path:{ctx}:{pc}"
        for d, e in cands:
            res, src = run(d, wrap(e))
            out.setdefault(key, []).append((res, d, wrap(e), src))
for key, cands in OTHER.items():
    for d, sql in cands:
        res, src = run(d, sql)
        out.setdefault(key, []).append((res, d, sql, src))
for key in sorted(out):
    if keys is not None and key not in keys:
        continue
    lost = [x for x in out[key] if x[0] == "LOST"]
    print(("KNOWN " if lost else "ALLOW ") + key, "|", (lost or out[key])[0][:3])
json.dump({k: [list(x) for x in v] for k, v in out.items()}, open("/verif/out/triage_c01.json", "w"), indent=1)
