#!/venv/bin/python
"""usage: tools/show_norm.py <function qual suffix> [repo]   - print the normal form (normalise.py) of a function as the rules see it."""
import ast, sys
sys.path.insert(0, "/verif"); sys.dont_write_bytecode = True
from sa.model import Prog
p = Prog(sys.argv[2] if len(sys.argv) > 2 else "/repo")
for q, f in p.funcs.items():
    if q.endswith(sys.argv[1]):
        print("#", q); print(ast.unparse(f.node)); print()
