#!/venv/bin/python
"""Run the 17 checks in-process against every seeded patch (and the neutral variants); prints which properties fire. Triage tool."""
import json, os, shutil, subprocess, sys, tempfile
sys.path.insert(0, "/verif"); sys.dont_write_bytecode = True
from concurrent.futures import ProcessPoolExecutor
from sa.selftest import failing_keys, _scratch
PIDS = ["C01","C02","C03","C04","C05","C06","C07","C08","C10","C11","C12","C13","C14","C15","C16","C17","C18"]
def base():
    return {p: failing_keys(p, "/repo")[0] for p in PIDS}
def run(args):
    name, patch, baseline = args
    d = _scratch("/repo")
    try:
        if patch:
            p = subprocess.run(["patch","-p1","--no-backup-if-mismatch","-s","-i",patch], cwd=d, capture_output=True, text=True)
            if p.returncode: return name, None
        fired = {}
        for pid in ([name.split("-")[0]] if os.environ.get("OWN_ONLY") else PIDS):
            keys, err = failing_keys(pid, d)
            new = sorted(k for k in keys if k not in baseline[pid])
            if new: fired[pid] = [f"{r}[{k}]" for r,k in new[:2]]
            elif err: fired[pid] = ["ERR " + err[:80]]
        return name, fired
    finally:
        shutil.rmtree(d, ignore_errors=True)
if __name__ == "__main__":
    b = base()
    seeds = sorted(os.listdir("/verif/seeded"))
    seeds = [s for s in seeds if os.path.isdir(f"/verif/seeded/{s}") and (os.environ.get("SEED_FILTER") or "") in s]
    with ProcessPoolExecutor(16) as ex:
        res = list(ex.map(run, [(s, f"/verif/seeded/{s}/patch.diff", b) for s in seeds]))
    missed = []
    own_err = []
    for name, fired in res:
        own = name.split("-")[0]
        if fired is None: print(name, "PATCH-DOES-NOT-APPLY"); continue
        if own not in fired: missed.append(name)
        how = "MISS" if own not in fired else "own-err" if fired[own][0].startswith("ERR ") else "own"
        if how == "own-err": own_err.append(name)
        print(f"{name:10s} {how} {sorted(fired)}")
    print("MISSED:", missed)
    print("OWN CHECK ANSWERS WITH AN ANALYSIS ERROR ONLY:", own_err)
    json.dump({n: {"caught_by": sorted(f)} for n, f in res if f is not None}, open(os.environ.get("SEED_CHECKS_OUT") or "/verif/out/seed_checks.json","w"), indent=1)
