#!/bin/bash
# usage: tools/verify_seed.sh <seed dir with patch.diff demo.py>   - confirm: applies, suite still 425 stable passes, demo FAILs with / PASSes without
set -u
sd="$(cd "$1" && pwd)"
d=$(mktemp -d /tmp/sqll-seedchk-XXXXXX)
rsync -a --exclude .git --exclude sqllineagejs --exclude '*.db' --exclude __pycache__ /repo/ "$d"/
res="applies=? suite=? demo_with=? demo_without=?"
cd "$d"
PYTHONPATH="$d" timeout 600 /venv/bin/python "$sd/demo.py" > "$d/.demo0.out" 2>&1; r0=$?
if ! patch -p1 --no-backup-if-mismatch -s < "$sd/patch.diff" > "$d/.patch.out" 2>&1; then echo "$sd applies=NO"; rm -rf "$d"; exit 3; fi
PYTHONPATH="$d" timeout 600 /venv/bin/python "$sd/demo.py" > "$d/.demo1.out" 2>&1; r1=$?
junit="$d/.junit.xml"
/venv/bin/python -m pytest -q -p no:cacheprovider -n ${NPROC:-4} --timeout=900 --continue-on-collection-errors --junitxml="$junit" > /dev/null 2>&1
suite=$(/venv/bin/python - "$junit" <<'PY'
import json, sys, xml.etree.ElementTree as ET
want=set(json.load(open("/root/.vp/BASELINE.json"))["stable_pass"])
passed=set()
for tc in ET.parse(sys.argv[1]).getroot().iter("testcase"):
    if not any(ch.tag in ("failure","error","skipped") for ch in tc):
        passed.add(f"{tc.get('classname')}::{tc.get('name')}")
miss=sorted(want-passed)
print("OK" if not miss else "BROKEN:"+",".join(m.split("::")[-1] for m in miss[:3]))
PY
)
echo "$sd applies=yes suite=$suite demo_without_exit=$r0 demo_with_exit=$r1 :: $(tail -1 "$d/.demo1.out" | cut -c1-160)"
cd /; rm -rf "$d"
