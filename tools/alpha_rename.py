#!/venv/bin/python
"""Neutral-refactoring generator used to test the checks for brittleness (NOT a check).

usage: tools/alpha_rename.py <dest dir> [suffix]
Copies /repo/sqllineage to <dest>/sqllineage and renames every function-local variable (not parameters, not globals, not names captured
from / by nested functions) by appending a suffix.  The result is behaviourally identical; every check must stay silent on it.
"""
import ast
import os
import shutil
import sys


def offsets(src):
    offs, n = [0], 0
    for line in src.splitlines(keepends=True):
        n += len(line.encode("utf-8"))
        offs.append(n)
    return offs


def locals_of(fn):
    params = {a.arg for a in fn.args.posonlyargs + fn.args.args + fn.args.kwonlyargs}
    if fn.args.vararg:
        params.add(fn.args.vararg.arg)
    if fn.args.kwarg:
        params.add(fn.args.kwarg.arg)
    assigned, declared, nested_used = set(), set(), set()

    def walk(node, top=True):
        for ch in ast.iter_child_nodes(node):
            if isinstance(ch, (ast.FunctionDef, ast.AsyncFunctionDef, ast.Lambda, ast.ClassDef)):
                for n in ast.walk(ch):
                    if isinstance(n, ast.Name):
                        nested_used.add(n.id)
                    if isinstance(n, ast.arg):
                        nested_used.add(n.arg)
                if isinstance(ch, (ast.FunctionDef, ast.AsyncFunctionDef, ast.ClassDef)):
                    declared.add(ch.name)
                continue
            if isinstance(ch, (ast.Global, ast.Nonlocal)):
                declared.update(ch.names)
            if isinstance(ch, ast.Name) and isinstance(ch.ctx, (ast.Store, ast.Del)):
                assigned.add(ch.id)
            if isinstance(ch, (ast.Import, ast.ImportFrom)):
                for a in ch.names:
                    declared.add((a.asname or a.name).split(".")[0])
            if isinstance(ch, ast.ExceptHandler) and ch.name:
                declared.add(ch.name)
            walk(ch, False)

    walk(fn)
    return assigned - params - declared - nested_used


def rename_file(path, suffix):
    src = open(path, encoding="utf-8").read()
    tree = ast.parse(src)
    offs = offsets(src)
    edits = []
    for fn in ast.walk(tree):
        if not isinstance(fn, (ast.FunctionDef, ast.AsyncFunctionDef)):
            continue
        names = locals_of(fn)
        if not names:
            continue

        def visit(node):
            for ch in ast.iter_child_nodes(node):
                if isinstance(ch, (ast.FunctionDef, ast.AsyncFunctionDef, ast.Lambda, ast.ClassDef)):
                    continue
                if isinstance(ch, ast.Name) and ch.id in names:
                    start = offs[ch.lineno - 1] + ch.col_offset
                    edits.append((start, start + len(ch.id.encode()), ch.id + suffix))
                visit(ch)

        visit(fn)
    b = src.encode("utf-8")
    for start, end, new in sorted(set(edits), reverse=True):
        b = b[:start] + new.encode() + b[end:]
    out = b.decode("utf-8")
    ast.parse(out)
    open(path, "w", encoding="utf-8").write(out)
    return len(set(edits))


def main():
    dest = sys.argv[1]
    suffix = sys.argv[2] if len(sys.argv) > 2 else "_r"
    shutil.copytree("/repo/sqllineage", os.path.join(dest, "sqllineage"), ignore=shutil.ignore_patterns("__pycache__", "build", "*.pyc"), dirs_exist_ok=True)
    total = 0
    for dirpath, _, fns in os.walk(os.path.join(dest, "sqllineage")):
        for fn in fns:
            if fn.endswith(".py"):
                total += rename_file(os.path.join(dirpath, fn), suffix)
    print(f"renamed {total} occurrences")


if __name__ == "__main__":
    main()
