#!/venv/bin/python
"""usage: tools/ingest_wave.py <out dir, e.g. /tmp/w5-out> <wave number> [--record]

Triage tool (NOT a check).  For every <out>/<Cxx>/<k>/ holding patch.diff, demo.py and meta.json written by a sub-agent:
  1. confirm it myself on a scratch copy of /repo (tools/verify_seed.sh: patch applies, every stable test of the baseline
     still passes, demo.py exits 0 without and non-zero with the patch);
  2. run the 17 checks against the patched copy (tools/patch_checks.py) = the first-sight result;
  3. with --record copy the confirmed ones to /verif/seeded/<Cxx>-w<wave>-<k>/ with a meta.json that says what I ran.
"""
import json, os, re, shutil, subprocess, sys
from concurrent.futures import ThreadPoolExecutor

out, wave = sys.argv[1].rstrip("/"), int(sys.argv[2])
record = "--record" in sys.argv
cands = []
for pid in sorted(os.listdir(out)):
    for k in sorted(os.listdir(f"{out}/{pid}")):
        d = f"{out}/{pid}/{k}"
        if all(os.path.exists(f"{d}/{f}") for f in ("patch.diff", "demo.py", "meta.json")):
            cands.append((pid, k, d))
        else:
            print(f"{d}: incomplete, skipped")

def verify(c):
    pid, k, d = c
    r = subprocess.run(["/verif/tools/verify_seed.sh", d], capture_output=True, text=True, env={**os.environ, "NPROC": "0"})
    return c, r.stdout.strip()

with ThreadPoolExecutor(10) as ex:
    ver = list(ex.map(verify, cands))
good = []
for (pid, k, d), line in ver:
    ok = "applies=yes" in line and "suite=OK" in line and "demo_without_exit=0" in line and not re.search(r"demo_with_exit=0\b", line)
    print(("CONFIRMED " if ok else "REJECTED  ") + line)
    if ok:
        good.append((pid, k, d, line))

subprocess.run(["/verif/tools/patch_checks.py"] + [d for _, _, d, _ in good], stdout=subprocess.DEVNULL)
fired = json.load(open("/verif/out/patch_checks.json"))
own = anyc = 0
for pid, k, d, line in good:
    f = fired.get(d) or {}
    by = sorted(p for p, ks in f.items() if not ks[0].startswith("ERR "))
    err = sorted(p for p, ks in f.items() if ks[0].startswith("ERR "))
    own += pid in by
    anyc += bool(by)
    print(f"{pid}-w{wave}-{k}: own={'yes' if pid in by else 'NO '} by={by} err-only={err}")
    for p in by[:3]:
        print(f"      {p} {f[p][0][:150]}")
    if record:
        sd = f"/verif/seeded/{pid}-w{wave}-{k}"
        os.makedirs(sd, exist_ok=True)
        shutil.copy(f"{d}/patch.diff", sd)
        shutil.copy(f"{d}/demo.py", sd)
        am = json.load(open(f"{d}/meta.json"))
        meta = {
            "id": f"{pid}-w{wave}-{k}", "breaks_property": pid, "wave": wave,
            "summary": am.get("summary", ""), "files": am.get("files", []),
            "needs_to_manifest": am.get("needs_to_manifest", ""), "why_tests_miss_it": am.get("why_tests_miss_it", ""),
            "origin": "written by a fresh sub-agent that saw only the property text, its own scratch worktree and one-line summaries of all earlier seeds for that property (to force new mechanisms and new places); nothing from /verif",
            "what_i_ran": [
                "applied patch.diff to a scratch copy of /repo HEAD (patch -p1): applies",
                "unedited test suite on the patched copy: all stable tests of the baseline pass",
                "demo.py: exit 0 (PASS) on the unpatched copy, non-zero (FAIL) on the patched copy",
                "all 17 checks (quick tier) against the patched copy, before and after strengthening",
            ],
            "verify_line": line.split(" ", 1)[1] if " " in line else line,
            "caught_at_first_sight_by": by, "own_check_fired_at_first_sight": pid in by,
            "analysis_error_only_at_first_sight": err,
            "first_rules_fired": {p: f[p][0] for p in by},
            "author_meta": am,
        }
        json.dump(meta, open(f"{sd}/meta.json", "w"), indent=1)
print(f"confirmed {len(good)} of {len(cands)}; first sight: own check {own}, any check {anyc}")
