#!/venv/bin/python
"""Regenerate /verif/MANIFEST.json from the rule modules present under sa/rules (keeps it valid at all times)."""
import importlib
import json
import os
import sys

HERE = os.path.dirname(os.path.dirname(os.path.abspath(__file__)))
sys.path.insert(0, HERE)
sys.dont_write_bytecode = True

ALL = [f"C{i:02d}" for i in range(1, 19)]

NOT_APPLICABLE = {
    "C09": "Agreement of results computed from trees of ~30 third-party grammars and a second parser is a relation "
           "between runtime values; no clause of it is a shape of sqllineage's own source that static analysis can "
           "decide (the static vocabulary facts are properties of the dependency and are covered on the repo side by "
           "C01's rule R01.2). See DESIGN.md section C09.",
}
PENDING_REASON = "not claimed yet in this revision: its rule module has not been built (see DESIGN.md for the planned rules)"

checks = []
not_applicable = []
for pid in ALL:
    if pid in NOT_APPLICABLE:
        not_applicable.append({"property_id": pid, "reason": NOT_APPLICABLE[pid]})
        continue
    path = os.path.join(HERE, "sa", "rules", f"{pid.lower()}.py")
    if not os.path.exists(path):
        not_applicable.append({"property_id": pid, "reason": PENDING_REASON})
        continue
    mod = importlib.import_module(f"sa.rules.{pid.lower()}")
    checks.append({
        "property_id": pid,
        "quick_cmd": f"./check {pid} --tier quick",
        "thorough_cmd": f"./check {pid} --tier thorough",
        "evidence_file": f"/verif/evidence/{pid}.json",
        "replay_cmd_template": f"./check {pid} --replay {{path}}",
        "engine": "sa",
        "level_claimed": {
            "category": "other",
            "text": mod.EXPLANATION,
            "design_ref": f"DESIGN.md section 3, {pid}",
        },
        "level_note": getattr(mod, "LEVEL_NOTE",
                              "Trusted base: CPython ast, networkx dominators, the resolver and CFG in /verif/sa (resolution "
                              "statistics in evidence). Decides necessary structural conditions of the property from /repo's "
                              "source on every run; the behaviour taken whole (all SQL inputs) is not claimed."),
        "technique": getattr(mod, "TECHNIQUE", "static analysis: repo-specific rules over /repo's source - source normalisation (helpers absorbed, "
                                                "loops/temporaries/constants in normal form), type-free name/call resolution, statement CFG with dominators and "
                                                "must-hold guard facts, value-flow (reaching definitions, influences), sqlfluff grammar model; nothing is executed"),
    })

manifest = {
    "version": 1,
    "setup_cmd": "/venv/bin/python -m compileall -q sa && ./check SELFCHECK",
    "hooks": {
        "guard": "SQLLINEAGE_VERIF",
        "enable": "no instrumentation is needed by static analysis: checks read /repo's working tree as source; nothing is built or run",
        "baseline_off_cmd": "/verif/tools/baseline.py /repo",
        "source_commits": [],
        "add_only": True,
    },
    "engines": [
        {
            "name": "sa",
            "path": "/verif/sa",
            "serves_properties": [c["property_id"] for c in checks],
            "kind_free_text": "custom static analyser for this repository: normalising front-end (sa/normalise.py), ast-based program model "
                              "with name/type/call resolution (E0), statement CFG with dominators and must-hold guard facts (E1), small abstract "
                              "interpretations (E2), sqlfluff grammar model read from installed dialect sources (E3); one rule module per property; "
                              "thorough tier = quick tier + self-test (AST mutants, seeded breaking patches, neutral refactoring patches)",
        }
    ],
    "checks": checks,
    "not_applicable": not_applicable,
    "notes": "Exit codes of ./check: 0 held (KNOWN-FINDING lines for entries of known_findings.json), 1 VIOLATION (a violating "
             "construct was established; if a later rule then lost its anchor that is printed as a note), 2 ANALYSIS-ERROR (no violation "
             "established and an anchor vanished / an instance floor is not met / a shape is unknown / the tool crashed - never a pass). "
             "Fix commits made in /repo are listed in known_findings.json with status 'fixed'.",
}
with open(os.path.join(HERE, "MANIFEST.json"), "w") as fh:
    json.dump(manifest, fh, indent=1)
    fh.write("\n")
print(f"MANIFEST.json: {len(checks)} checks, {len(not_applicable)} not_applicable")
