#!/bin/bash
# usage: tools/seed_matrix.sh <seed dir> -> prints one JSON line: verification of the seed + which checks fire on it
set -u
sd="$(cd "$1" && pwd)"; name="$2"
d=$(mktemp -d /tmp/sqll-seedmx-XXXXXX)
rsync -a --exclude .git --exclude sqllineagejs --exclude '*.db' --exclude __pycache__ /repo/ "$d"/
cd "$d"
PYTHONPATH="$d" timeout 900 /venv/bin/python "$sd/demo.py" > "$d/.demo0.out" 2>&1; r0=$?
if ! patch -p1 --no-backup-if-mismatch -s < "$sd/patch.diff" > "$d/.patch.out" 2>&1; then echo "{\"seed\": \"$name\", \"applies\": false}"; cd /; rm -rf "$d"; exit 0; fi
PYTHONPATH="$d" timeout 900 /venv/bin/python "$sd/demo.py" > "$d/.demo1.out" 2>&1; r1=$?
junit="$d/.junit.xml"
/venv/bin/python -m pytest -q -p no:cacheprovider -n 3 --timeout=900 --continue-on-collection-errors --junitxml="$junit" > /dev/null 2>&1
suite=$(/venv/bin/python - "$junit" <<'PY'
import json, sys, xml.etree.ElementTree as ET
want=set(json.load(open("/root/.vp/BASELINE.json"))["stable_pass"])
passed=set()
try:
    for tc in ET.parse(sys.argv[1]).getroot().iter("testcase"):
        if not any(ch.tag in ("failure","error","skipped") for ch in tc):
            passed.add(f"{tc.get('classname')}::{tc.get('name')}")
    miss=sorted(want-passed)
    print("ok" if not miss else "BROKEN:"+",".join(m.split("::")[-1] for m in miss[:3]))
except Exception as e:
    print("ERR:"+str(e)[:40])
PY
)
fired=""
for pid in C01 C02 C03 C04 C05 C06 C07 C08 C10 C11 C12 C13 C14 C15 C16 C17 C18; do
  out=$(cd /verif && VERIF_NO_EVIDENCE=1 ./check "$pid" --repo "$d" 2>&1); r=$?
  if [ $r -ne 0 ]; then
    rules=$(echo "$out" | grep -E "^FAIL" | sed -E 's/^FAIL ([^ ]+) \[([^]]*)\].*/\1[\2]/' | head -3 | tr '\n' ';')
    [ $r -eq 2 ] && rules="ANALYSIS-ERROR"
    fired="$fired\"$pid\": \"exit=$r $rules\", "
  fi
done
echo "{\"seed\": \"$name\", \"applies\": true, \"suite\": \"$suite\", \"demo_without_exit\": $r0, \"demo_with_exit\": $r1, \"fired\": {${fired%, }}}"
cd /; rm -rf "$d"
