#!/venv/bin/python
"""Run /repo's pinned suite (guard off) and compare with /root/.vp/BASELINE.json stable_pass.
Usage: tools/baseline.py [repo_dir]   exit 0 iff every stable_pass test passed."""
import json, os, subprocess, sys, tempfile, xml.etree.ElementTree as ET

repo = sys.argv[1] if len(sys.argv) > 1 else "/repo"
base = json.load(open("/root/.vp/BASELINE.json"))
want = set(base["stable_pass"])
fd, junit = tempfile.mkstemp(suffix=".xml", prefix="sqllineage-baseline-")
os.close(fd)
env = dict(os.environ)
env.pop("SQLLINEAGE_VERIF", None)
try:
    subprocess.run(
        ["/venv/bin/python", "-m", "pytest", "-q", "-p", "no:cacheprovider", "-n", "12",
         "--timeout=900", "--continue-on-collection-errors", f"--junitxml={junit}"],
        cwd=repo, env=env, stdout=subprocess.DEVNULL, stderr=subprocess.DEVNULL)
    passed = set()
    for tc in ET.parse(junit).getroot().iter("testcase"):
        if not any(ch.tag in ("failure", "error", "skipped") for ch in tc):
            passed.add(f"{tc.get('classname')}::{tc.get('name')}")
finally:
    os.unlink(junit)
missing = sorted(want - passed)
print(f"stable_pass={len(want)} passed_now={len(passed)} missing={len(missing)}")
for m in missing[:40]:
    print("  NOT PASSING:", m)
sys.exit(1 if missing else 0)
