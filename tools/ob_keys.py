#!/venv/bin/python
"""usage: tools/ob_keys.py <PID> [repo]  - list every obligation (rule, key, verdict) a check produces; triage tool."""
import sys
sys.path.insert(0, "/verif"); sys.dont_write_bytecode = True
import importlib
from sa.model import Prog, AnalysisError
from sa.report import Ctx
pid = sys.argv[1]; repo = sys.argv[2] if len(sys.argv) > 2 else "/repo"
mod = importlib.import_module(f"sa.rules.{pid.lower()}")
ctx = Ctx(pid, "quick", Prog(repo), repo)
try:
    mod.rules(ctx)
except AnalysisError as e:
    print("ANALYSIS-ERROR", e)
for o in ctx.obligations:
    print(o.rule, o.key, "ok" if o.ok else "FAIL", o.loc)
