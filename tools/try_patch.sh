#!/bin/bash
# usage: tools/try_patch.sh <patch.diff> <PID> [<PID>...]   - run checks against a scratch copy of /repo with the patch applied
set -u
patch="$1"; shift
d=$(mktemp -d /tmp/sqll-scratch-XXXXXX)
rsync -a --exclude .git --exclude sqllineagejs --exclude '*.db' --exclude __pycache__ /repo/ "$d"/
if ! (cd "$d" && patch -p1 --no-backup-if-mismatch -s < "$patch"); then echo "PATCH-FAILED $patch"; rm -rf "$d"; exit 3; fi
rc=0
for pid in "$@"; do
  out=$(cd /verif && VERIF_NO_EVIDENCE=1 ./check "$pid" --repo "$d" 2>&1); r=$?
  echo "--- $pid exit=$r"; echo "$out" | grep -E "^(FAIL|VIOLATION|ANALYSIS-ERROR|KNOWN-FINDING|OK)" | sed "s#$d/##g" | head -${MAXLINES:-12}
  [ $r -ne 0 ] && rc=$r
done
rm -rf "$d"
exit $rc
