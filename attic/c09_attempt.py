"""C09 - dialects agree on core SQL (partial: the clauses that are shapes of this repository's source; DESIGN.md C09)."""

from __future__ import annotations

import ast

from ..astutil import controlling_atoms, u
from ..cfg import controlling_facts, flow
from ..grammar import grammar, installed_dialects
from ..model import AnalysisError, Fn, Prog, loc
from ..report import Ctx
from . import common

EXPLANATION = (
    "Static analysis of the two ways this repository's own source can make the meaning of an accepted core statement depend on the dialect. "
    "Decides: R09.1 who may branch on the dialect: every read of the dialect value (the runner's and the extractors' dialect attribute, the "
    "sqlfluff configuration entry, parameters carrying it) is either handed on unchanged (constructor / configuration argument) or is one of "
    "the comparisons in an explicit table - analyzer selection (`non-validating`), the T-SQL no-semicolon splitter, and the vertica-only "
    "SWAP_PARTITIONS_BETWEEN_TABLES function, each re-checked to guard only that dialect-specific construct; any other test of the dialect "
    "in the analysis path makes a core statement mean different things under different dialects; R09.2 the segment classes whose type names the "
    "extraction code keys on carry the same type name in every installed dialect (read from the installed sqlfluff dialect sources: a dialect "
    "overriding the `type` of a core class would blind every extractor keyed on it under that dialect only); R09.3 statement dispatch is by "
    "segment type alone: can_extract compares the statement type with a per-class constant table and nothing else. "
    "Does not decide: that the trees different dialects build for one core statement have the same shape below the keyed types (a source-level "
    "model of 28 dialect grammars was tried and is too imprecise: 325 raw child-set discrepancies, dominated by unresolved grammar "
    "indirection), nor the agreement of the sqlparse-based analyzer with the sqlfluff-based ones - both are relations between run-time "
    "values of third-party parsers."
)
RULE_TEXT = "R09.1: one obligation per read of the dialect value; R09.2: per (keyed core class, dialect); R09.3: per dispatch predicate"
LEVEL_NOTE = (
    "Partial claim: decides necessary structural conditions on this repository's side (no dialect-steered extraction outside an explicit table, "
    "type-name agreement of keyed classes across installed dialects, dispatch by type only). Agreement of lineage values across dialects and with "
    "the legacy analyzer is not decided."
)

# comparisons of the dialect value that are allowed, keyed by (owner function, compared constant); the reason names what the test may guard
ALLOWED_TESTS = {
    ("LineageRunner._eval", "non-validating"): "selects the analyzer (sqlparse-based for `non-validating`, sqlfluff-based otherwise)",
    ("LineageRunner._eval", "tsql"): "T-SQL no-semicolon mode: selects the statement splitter (and the warning that the switch is ignored elsewhere)",
    ("SelectExtractor.extract", "vertica"): "vertica-only table function SWAP_PARTITIONS_BETWEEN_TABLES (not core SQL)",
}


def _dialect_reads(prog: Prog) -> list[tuple[Fn, ast.AST]]:
    """Expressions that evaluate to the dialect name."""
    out = []
    for f in prog.funcs.values():
        if f.mod.name in ("sqllineage.cli", "sqllineage.drawing"):
            continue
        for n in prog.walk_fn(f):
            if isinstance(n, ast.Attribute) and isinstance(n.ctx, ast.Load) and n.attr in ("dialect", "_dialect") and isinstance(n.value, ast.Name):
                out.append((f, n))
            elif isinstance(n, ast.Name) and isinstance(n.ctx, ast.Load) and n.id == "dialect" and n.id in f.params():
                out.append((f, n))
            elif isinstance(n, ast.Call) and isinstance(n.func, ast.Attribute) and n.func.attr == "get" and n.args and prog.try_fold(n.args[0], f.mod, f) == "dialect":
                out.append((f, n))
    return out


def rules(ctx: Ctx) -> None:
    prog = ctx.prog
    reads = _dialect_reads(prog)
    ctx.floor("reads of the dialect value in the analysis path", len(reads), 6)
    used = set()
    for f, n in reads:
        ctx.touched(f)
        par = prog.parent(n)
        where = loc(f.mod, n)
        owner = f.owner
        # (a) handed on unchanged: argument of a call / keyword, value of a dict entry, stored into an attribute, returned
        if isinstance(par, ast.Call) and (n in par.args) or isinstance(par, ast.keyword) or isinstance(par, ast.Dict) or isinstance(par, (ast.Return,)):
            ctx.ob("R09.1", f"dialect-handed-on:{owner}", True, where, f"`{u(par)[:60]}` passes the dialect on unchanged", trivial=True)
            continue
        if isinstance(par, ast.Assign) and all(isinstance(t, (ast.Attribute, ast.Subscript)) for t in par.targets):
            ctx.ob("R09.1", f"dialect-stored:{owner}", True, where, f"`{u(par)[:60]}` keeps the dialect for later hand-over", trivial=True)
            continue
        if isinstance(par, (ast.FormattedValue, ast.JoinedStr)):
            ctx.ob("R09.1", f"dialect-in-message:{owner}", True, where, "the dialect is named in a message", trivial=True)
            continue
        # (b) a test of the dialect
        if isinstance(par, ast.Compare) and len(par.ops) == 1 and isinstance(par.ops[0], (ast.Eq, ast.NotEq, ast.In, ast.NotIn)):
            other = par.comparators[0] if par.left is n else par.left
            v = prog.try_fold(other, f.mod, f)
            vals = [v] if isinstance(v, str) else list(v) if isinstance(v, (list, tuple, set)) else [None]
            st_if = prog.parent(par)
            if isinstance(st_if, ast.If) and st_if.test is par and not st_if.orelse and all(
                    isinstance(b, ast.Expr) and isinstance(b.value, ast.Call) and u(b.value.func) in ("warnings.warn", "warn", "logger.warning", "logger.info", "logger.debug") for b in st_if.body):
                ctx.ob("R09.1", f"dialect-test-only-warns:{owner}", True, where, f"`{u(par)}` guards nothing but a warning")
                continue
            for val in vals:
                key = (owner, val)
                if key in ALLOWED_TESTS:
                    used.add(key)
                    ok, why = _guards_only_its_construct(prog, f, par, val)
                    ctx.ob("R09.1", f"dialect-test:{owner}:{val}", ok, where, f"`{u(par)}`: {ALLOWED_TESTS[key]}" + (f" - but {why}" if not ok else ""))
                else:
                    ctx.ob("R09.1", f"dialect-test:{owner}:{val}", False, where,
                           f"`{u(par)}` makes the analysis depend on the dialect: an accepted core statement must mean the same under every dialect "
                           f"(dialect-specific constructs are listed in the rule's table with what they guard)")
            continue
        ctx.ob("R09.1", f"dialect-use:{owner}", False, where, f"`{u(prog.enclosing_stmt(n))[:70]}` uses the dialect value in a way the rule does not know (neither handed on nor a listed test)")
    ctx.extra["allowed_dialect_tests_used"] = sorted(f"{a}:{b}" for a, b in used)

    # ---- R09.2 type names of keyed classes agree across dialects ---------------------------------------------
    keyed: set[str] = set()
    for f in prog.funcs.values():
        if not f.mod.name.startswith("sqllineage.core.parser.sqlfluff"):
            continue
        for n in prog.walk_fn(f):
            if isinstance(n, ast.Compare) and u(n.left).endswith(".type") and len(n.ops) == 1:
                v = prog.try_fold(n.comparators[0], f.mod, f)
                keyed |= {v} if isinstance(v, str) else {x for x in (v or []) if isinstance(x, str)} if isinstance(v, (list, tuple, set)) else set()
            if isinstance(n, ast.Call) and isinstance(n.func, ast.Attribute) and n.func.attr in ("get_child", "get_children", "recursive_crawl", "is_type"):
                for a in n.args:
                    v = prog.try_fold(a, f.mod, f)
                    if isinstance(v, str):
                        keyed.add(v)
    for c in prog.classes.values():
        for k, v in c.consts.items():
            if "STMT_TYPES" in k:
                vv = prog.try_fold(v, c.mod, None, c)
                keyed |= {x for x in (vv or []) if isinstance(x, str)}
    ctx.floor("segment type names the extraction code keys on", len(keyed), 50)
    ga = grammar("ansi")
    dialects = installed_dialects()
    ctx.floor("installed sqlfluff dialects", len(dialects), 16)
    n_pairs = 0
    for cname, t in sorted(ga.class_type.items()):
        if t not in keyed:
            continue
        diff = []
        for d in dialects:
            td = grammar(d).class_type.get(cname)
            n_pairs += 1
            if td != t:
                diff.append(f"{d}:{td}")
        ctx.ob("R09.2", f"type-name-agrees:{cname}", not diff, "sqlfluff/dialects", f"{cname} has type {t!r} in every installed dialect" + (f" - except {diff[:4]}" if diff else ""), trivial=not diff)
    ctx.extra["keyed_class_x_dialect_pairs"] = n_pairs

    # ---- R09.3 dispatch by statement type only ---------------------------------------------------------------------
    be = prog.try_cls("extractors.base.BaseExtractor")
    if be is None:
        raise AnalysisError("BaseExtractor not found")
    n_disp = 0
    for k in [be] + prog.subclasses(be):
        m = k.methods.get("can_extract")
        if m is None:
            continue
        n_disp += 1
        ctx.touched(m)
        rets = [r for r in prog.walk_fn(m) if isinstance(r, ast.Return) and r.value is not None]
        p1 = [p for p in m.params() if p not in ("self", "cls")]
        ok = len(rets) == 1 and isinstance(rets[0].value, ast.Compare) and len(rets[0].value.ops) == 1 and isinstance(rets[0].value.ops[0], ast.In) \
            and bool(p1) and u(rets[0].value.left) == p1[0] and "STMT_TYPES" in u(rets[0].value.comparators[0])
        ctx.ob("R09.3", f"dispatch-by-type-only:{k.name}", ok, m.loc(), f"{k.name}.can_extract is `<statement type> in <the class's type table>` and nothing else")
    ctx.floor("statement dispatch predicates", n_disp, 1)


def _guards_only_its_construct(prog: Prog, f: Fn, test: ast.Compare, val: str) -> tuple[bool, str]:
    """The allowed test must guard only its dialect-specific construct."""
    if val == "vertica":
        # everything control-dependent on the test is also dependent on the SWAP_PARTITIONS function name
        dependents = []
        for n in prog.walk_fn(f):
            if isinstance(n, ast.Call) and isinstance(n.func, ast.Attribute) and n.func.attr.startswith("add_"):
                atoms = [u(a) for a in controlling_atoms(prog.parents, n)]
                if u(test) in atoms:
                    dependents.append((n, atoms))
        if not dependents:
            return False, "nothing is guarded by it"
        for n, atoms in dependents:
            if not any("SWAP_PARTITIONS_BETWEEN_TABLES" in a for a in atoms):
                return False, f"`{u(n)[:50]}` depends on the dialect without being about the vertica-only function"
        return True, ""
    if val == "tsql":
        # the test is conjoined with the no-semicolon switch
        facts_ok = False
        par = prog.parent(test)
        if isinstance(par, ast.BoolOp) and any("TSQL_NO_SEMICOLON" in u(v) for v in par.values):
            facts_ok = True
        return facts_ok, "" if facts_ok else "it is not tied to the TSQL_NO_SEMICOLON switch"
    if val == "non-validating":
        # selects between the two analyzer constructors only
        par = prog.parent(test)
        ok = isinstance(par, ast.IfExp) and isinstance(par.body, ast.Call) and isinstance(par.orelse, ast.Call)
        return ok, "" if ok else "it does more than choosing the analyzer"
    return False, "unknown entry"
