"""Identity analysis of the model classes (DESIGN.md section 4): which fields __eq__, __hash__ and __str__ depend on.

For each class defining __eq__ and __hash__ a small symbolic reader extracts the projections
  EQ(K)   - every `pi(self) == pi(other)` conjunct next to the isinstance test,
  HASH(K) - the argument(s) of hash(...),
  STR(K)  - the fields read by __str__,
each closed through properties and through str() of the object itself.  Shapes outside "conjunction of
projection equalities" / "hash of a projection or tuple of projections" raise AnalysisError.
"""

from __future__ import annotations

import ast
from dataclasses import dataclass, field
from typing import Optional

from .astutil import u
from .model import AnalysisError, Cls, Fn, Prog


@dataclass
class Identity:
    cls: Cls
    eq_projs: list[str] = field(default_factory=list)  # text with `self`
    hash_projs: list[str] = field(default_factory=list)
    str_fields: set[str] = field(default_factory=set)
    eq_fields: set[str] = field(default_factory=set)
    hash_fields: set[str] = field(default_factory=set)
    eq_isinstance: Optional[str] = None
    lossy: dict[str, str] = field(default_factory=dict)  # property name -> why it is a lossy projection
    eq_fn: Optional[Fn] = None
    hash_fn: Optional[Fn] = None
    str_fn: Optional[Fn] = None


def model_classes(prog: Prog) -> list[Cls]:
    mod = prog.mods.get("sqllineage.core.models")
    if mod is None:
        raise AnalysisError("module sqllineage.core.models not found")
    out = [c for c in prog.classes.values() if c.mod is mod and "__eq__" in c.methods and "__hash__" in c.methods]
    if len(out) < 5:
        raise AnalysisError(f"expected at least 5 model classes defining __eq__ and __hash__, found {len(out)}")
    return out


def fields_of(prog: Prog, c: Cls, e: ast.AST, seen: Optional[set] = None) -> set[str]:
    """Instance fields an expression over `self` depends on (closed through properties and str(self))."""
    seen = seen if seen is not None else set()
    out: set[str] = set()
    for n in ast.walk(e):
        if isinstance(n, ast.Attribute) and isinstance(n.value, ast.Name) and n.value.id == "self":
            m = prog.find_method(c, n.attr)
            if m is not None and m.kind == "property":
                if m.qual not in seen:
                    seen.add(m.qual)
                    out |= fields_of(prog, c, m.node, seen)
            elif m is None:
                out.add(n.attr)
        if isinstance(n, ast.Call) and isinstance(n.func, ast.Name) and n.func.id in ("str", "repr") and len(n.args) == 1 and isinstance(n.args[0], ast.Name) and n.args[0].id == "self":
            sm = prog.find_method(c, "__str__" if n.func.id == "str" else "__repr__")
            if sm is not None and sm.qual not in seen:
                seen.add(sm.qual)
                out |= fields_of(prog, c, sm.node, seen)
        if isinstance(n, ast.FormattedValue) and isinstance(n.value, ast.Name) and n.value.id == "self":
            sm = prog.find_method(c, "__str__")
            if sm is not None and sm.qual not in seen:
                seen.add(sm.qual)
                out |= fields_of(prog, c, sm.node, seen)
    return out


def analyse(prog: Prog, c: Cls) -> Identity:
    ident = Identity(c)
    eq, hs, st = c.methods.get("__eq__"), c.methods.get("__hash__"), prog.find_method(c, "__str__")
    ident.eq_fn, ident.hash_fn, ident.str_fn = eq, hs, st
    if eq is None or hs is None:
        raise AnalysisError(f"{c.name}: __eq__/__hash__ missing")
    other = eq.params()[1] if len(eq.params()) > 1 else "other"
    rets = [n for n in prog.walk_fn(eq) if isinstance(n, ast.Return) and n.value is not None]
    if len(rets) != 1:
        raise AnalysisError(f"{c.name}.__eq__: expected a single return")
    conj = rets[0].value.values if isinstance(rets[0].value, ast.BoolOp) and isinstance(rets[0].value.op, ast.And) else [rets[0].value]
    for part in conj:
        if isinstance(part, ast.Call) and isinstance(part.func, ast.Name) and part.func.id == "isinstance" and len(part.args) == 2:
            ident.eq_isinstance = u(part.args[1])
            continue
        if isinstance(part, ast.Compare) and len(part.ops) == 1 and isinstance(part.ops[0], ast.Eq):
            left, right = part.left, part.comparators[0]
            ltxt = u(left)
            rtxt = u(right)
            # the two sides must be the same projection of self / other
            swapped = _rename(right, other, "self")
            if swapped != ltxt:
                swapped2 = _rename(left, other, "self")
                if swapped2 != rtxt:
                    raise AnalysisError(f"{c.name}.__eq__: `{u(part)}` is not `pi(self) == pi(other)`")
                ltxt = rtxt
            ident.eq_projs.append(ltxt)
            ident.eq_fields |= fields_of(prog, c, ast.parse(ltxt, mode="eval").body)
            continue
        raise AnalysisError(f"{c.name}.__eq__: conjunct `{u(part)}` has an unknown shape")
    hrets = [n for n in prog.walk_fn(hs) if isinstance(n, ast.Return) and n.value is not None]
    if len(hrets) != 1 or not (isinstance(hrets[0].value, ast.Call) and isinstance(hrets[0].value.func, ast.Name) and hrets[0].value.func.id == "hash" and len(hrets[0].value.args) == 1):
        raise AnalysisError(f"{c.name}.__hash__: expected `return hash(<projection>)`")
    arg = hrets[0].value.args[0]
    for p in (arg.elts if isinstance(arg, ast.Tuple) else [arg]):
        ident.hash_projs.append(u(p))
        ident.hash_fields |= fields_of(prog, c, p)
        # anything that depends on the object beyond its fields / printed name (id(self), object.__hash__(self), ...) is not determined by __eq__
        for k in ast.walk(p):
            if isinstance(k, ast.Name) and k.id == "self":
                par = prog.parent(k)
                ok = isinstance(par, ast.Attribute) and par.value is k or (isinstance(par, ast.Call) and isinstance(par.func, ast.Name) and par.func.id in ("str", "repr") and k in par.args) or isinstance(par, ast.FormattedValue)
                if not ok:
                    ident.hash_fields.add(f"<object identity via {u(par) if par is not None else 'self'}>")
    if st is not None:
        ident.str_fields = fields_of(prog, c, st.node, {st.qual})
    # lossy projections: properties that map several states of a field to one constant
    for name, m in c.methods.items():
        if m.kind != "property":
            continue
        for n in prog.walk_fn(m):
            if isinstance(n, ast.IfExp) and isinstance(n.orelse, ast.Constant) and "len(" in u(n.test):
                ident.lossy[name] = f"`{u(n)}` maps every state with {u(n.test)} false to {u(n.orelse)}"
    return ident


def _rename(e: ast.AST, old: str, new: str) -> str:
    class R(ast.NodeTransformer):
        def visit_Name(self, node):
            if node.id == old:
                return ast.copy_location(ast.Name(id=new, ctx=node.ctx), node)
            return node

    import copy

    return u(R().visit(copy.deepcopy(e)))


_cache: dict = {}


def identities(prog: Prog) -> dict[str, Identity]:
    if id(prog) not in _cache:
        _cache[id(prog)] = {c.name: analyse(prog, c) for c in model_classes(prog)}
    return _cache[id(prog)]
