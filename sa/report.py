"""Runner, obligations, findings, evidence.

A rule reports *obligations*: one per rule instance it examined, each with a semantic key (never a line
number or a source fragment), a verdict and a location for the human reader.  Failed obligations are
matched against /verif/known_findings.json: a listed key prints KNOWN-FINDING and does not fail the run,
anything else prints VIOLATION and the run exits 1.  Analysis problems (anchor vanished, floor not met,
unknown shape, crash) exit 2 with ANALYSIS-ERROR.
"""

from __future__ import annotations

import json
import os
import sys
import time
import traceback
from dataclasses import dataclass, field
from typing import Any, Callable, Optional

from .model import AnalysisError, Prog

VERIF = os.path.dirname(os.path.dirname(os.path.abspath(__file__)))


@dataclass
class Obligation:
    rule: str
    key: str
    ok: bool
    loc: str
    msg: str
    trivial: bool = False
    allowed: Optional[str] = None  # reason from the allow-table, if discharged by it


@dataclass
class Ctx:
    pid: str
    tier: str
    prog: Prog
    repo: str
    obligations: list[Obligation] = field(default_factory=list)
    notes: list[str] = field(default_factory=list)
    extra: dict[str, Any] = field(default_factory=dict)
    floors: list[tuple[str, int, int]] = field(default_factory=list)
    assumptions: list[str] = field(default_factory=list)
    analysed_functions: set[str] = field(default_factory=set)

    def ob(self, rule: str, key: str, ok: bool, loc: str, msg: str, trivial: bool = False, allowed: Optional[str] = None) -> bool:
        self.obligations.append(Obligation(rule, key, bool(ok), loc, msg, trivial, allowed))
        return bool(ok)

    def allow(self, rule: str, key: str, loc: str, msg: str, reason: str) -> None:
        self.obligations.append(Obligation(rule, key, True, loc, msg, False, reason))

    def floor(self, what: str, found: int, minimum: int) -> None:
        """Fail closed when a rule matches fewer instances than were confirmed by hand."""
        self.floors.append((what, found, minimum))
        if found < minimum:
            raise AnalysisError(f"instance floor not met for {what}: found {found}, expected at least {minimum}")

    def note(self, text: str) -> None:
        self.notes.append(text)

    def touched(self, *fns) -> None:
        for f in fns:
            if f is not None:
                self.analysed_functions.add(getattr(f, "qual", str(f)))


def load_known() -> list[dict]:
    path = os.path.join(VERIF, "known_findings.json")
    if not os.path.exists(path):
        return []
    with open(path) as fh:
        data = json.load(fh)
    return data.get("findings", [])


def run_check(pid: str, tier: str, repo: str, rules: Callable[[Ctx], None], explanation: str, rule_text: str,
              trusted_base: list[str], selftest: Optional[Callable[[Ctx], dict]] = None) -> int:
    t0 = time.time()
    seed = int(os.environ.get("VERIF_SEED", "0") or 0)
    evidence_path = os.path.join(VERIF, "evidence", f"{pid}.json")
    if os.environ.get("VERIF_NO_EVIDENCE") == "1":  # trial runs on scratch copies must not touch the evidence of /repo
        evidence_path = os.path.join(VERIF, "out", f"{pid}.scratch-evidence.json")
    report_path = os.path.join(VERIF, "out", f"{pid}.report.json")
    os.makedirs(os.path.dirname(evidence_path), exist_ok=True)
    os.makedirs(os.path.dirname(report_path), exist_ok=True)
    ctx: Optional[Ctx] = None
    status = "held"
    err = None
    selftest_result: dict = {}
    try:
        prog = Prog(repo)
        ctx = Ctx(pid, tier, prog, repo)
        rules(ctx)
        if getattr(ctx, "deferred_errors", None):  # a property whose clauses are shared lost its anchor: what could be judged was judged first
            raise AnalysisError("; ".join(ctx.deferred_errors))
        if "sqllineage" in sys.modules or "sqlfluff" in sys.modules or "sqlparse" in sys.modules:
            raise AnalysisError("the analysed package (or its parsers) got imported: verdicts must come from source only")
    except AnalysisError as e:
        status, err = "analysis-error", f"{e}"
    except Exception as e:  # a crash of the tool is never read as a violation
        status, err = "analysis-error", f"{type(e).__name__}: {e}\n{traceback.format_exc(limit=6)}"

    known = [k for k in load_known() if k.get("property") == pid]
    known_keys = {(k["rule"], k["key"]): k for k in known if k.get("status", "known") == "known"}
    failed = [o for o in (ctx.obligations if ctx else []) if not o.ok]
    violations, known_hits = [], []
    seen = set()
    for o in failed:
        kk = (o.rule, o.key)
        if kk in seen:
            continue
        seen.add(kk)
        (known_hits if kk in known_keys else violations).append(o)

    # a violating construct that a rule has already established stays a violation when a later rule loses its anchor (the error is
    # printed as well); without one, a lost anchor is an analysis error - never a pass
    if violations:
        status = "violation"

    if status == "held" and tier == "thorough" and selftest is not None and ctx is not None:
        try:
            selftest_result = selftest(ctx) or {}
            if selftest_result.get("missed") or selftest_result.get("noisy"):
                status = "analysis-error"
                err = f"checker self-test failed: missed={selftest_result.get('missed')} noisy={selftest_result.get('noisy')}"
        except Exception as e:
            status, err = "analysis-error", f"self-test crashed: {type(e).__name__}: {e}\n{traceback.format_exc(limit=6)}"

    # ---- output -----------------------------------------------------------------------
    obs = ctx.obligations if ctx else []
    nontrivial = {(o.rule, o.key) for o in obs if not o.trivial}
    for o in known_hits:
        k = known_keys[(o.rule, o.key)]
        print(f"KNOWN-FINDING: property={pid} rule={o.rule} key={o.key} at {o.loc}: {k.get('what', o.msg)}")
    stale = [k for kk, k in known_keys.items() if kk not in {(o.rule, o.key) for o in failed}]
    for k in stale:
        print(f"note: known finding no longer reproduced (stale entry): rule={k['rule']} key={k['key']}")
    for o in violations:
        print(f"FAIL {o.rule} [{o.key}] {o.loc}: {o.msg}")
    if status == "analysis-error":
        print(f"ANALYSIS-ERROR property={pid}: {err}")
    elif err:
        print(f"note: part of the analysis could not be carried out on this tree ({err.splitlines()[0][:300]}); the violations above were established before that")

    samples = []
    for o in violations[:10] + known_hits[:5]:
        samples.append({"rule": o.rule, "key": o.key, "loc": o.loc, "verdict": "FAIL", "obligation": o.msg})
    per_rule: dict[str, int] = {}
    for o in obs:
        per_rule[o.rule] = per_rule.get(o.rule, 0) + 1
    shown: dict[str, int] = {}
    for o in obs:
        if o.ok and shown.get(o.rule, 0) < 2 and len(samples) < 40:
            shown[o.rule] = shown.get(o.rule, 0) + 1
            s = {"rule": o.rule, "key": o.key, "loc": o.loc, "verdict": "ok", "obligation": o.msg}
            if o.allowed:
                s["discharged_by_allow_table"] = o.allowed
            samples.append(s)
    cg = getattr(ctx.prog, "cg_stats", None) if ctx else None
    evidence = {
        "property_id": pid,
        "tier": tier,
        "seed": seed,
        "level": "other",
        "coverage": {
            "explanation": explanation,
            "rule": rule_text,
            "evaluations": len(obs),
            "distinct_nontrivial": len(nontrivial),
            "obligations": len(obs),
            "discharged": len([o for o in obs if o.ok]),
            "obligations_per_rule": per_rule,
            "instance_floors": [{"what": w, "found": f, "minimum": m} for w, f, m in (ctx.floors if ctx else [])],
            "allow_entries_used": [
                {"rule": o.rule, "key": o.key, "reason": o.allowed} for o in obs if o.allowed
            ],
            "known_findings_reproduced": [{"rule": o.rule, "key": o.key, "loc": o.loc} for o in known_hits],
            "stale_known_findings": [{"rule": k["rule"], "key": k["key"]} for k in stale],
            "modules_parsed": len(ctx.prog.mods) if ctx else 0,
            "functions_in_model": len(ctx.prog.funcs) if ctx else 0,
            "functions_analysed_by_rules": sorted(ctx.analysed_functions) if ctx else [],
            "call_sites": ({"total": cg["calls"], "resolved_in_repo": cg["resolved"], "foreign": cg["foreign"],
                            "unresolved_repo_candidates": len(cg["unresolved"])} if cg else None),
            "samples": samples,
            "notes": ctx.notes if ctx else [],
            "normalisation": ({k: v for k, v in ctx.prog.norm_stats.items() if k != "rejected"} | {"kept_as_rule_anchors": len([1 for r in ctx.prog.norm_stats.get("rejected", {}).values() if r.startswith("kept")])}) if ctx and getattr(ctx.prog, "norm_stats", None) else None,
            "trusted_base": trusted_base,
            "checker_cmd": f"./check {pid} --tier {tier}",
            "exhaustive": False,
            "status": status,
            "error": err,
            **({"selftest": selftest_result} if selftest_result else {}),
            **(ctx.extra if ctx else {}),
        },
        "assumptions": (ctx.assumptions if ctx else []),
        "wall_s": round(time.time() - t0, 3),
        "violations": len(violations),
    }
    with open(evidence_path, "w") as fh:
        json.dump(evidence, fh, indent=1, default=str)
        fh.write("\n")

    if status == "violation":
        with open(report_path, "w") as fh:
            json.dump({"property": pid, "tier": tier, "repo": repo,
                       "violations": [o.__dict__ for o in violations]}, fh, indent=1)
        print(f"VIOLATION property={pid} replay={report_path}")
        return 1
    if status == "analysis-error":
        return 2
    print(f"OK property={pid} tier={tier}: {len(obs)} obligations over {len(per_rule)} rules, "
          f"{len(known_hits)} known finding(s), {evidence['wall_s']}s")
    return 0
