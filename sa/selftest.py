"""Checker self-test (thorough tier): AST-computed mutants of /repo on which a rule must fire, behaviour-preserving twins on which
it must stay silent, and the seeded patches kept under /verif/seeded.

Every mutant is computed from the *current* tree (anchors located with `ast`, the edit applied to the located node's source range),
written to a scratch copy of the package outside /repo and /verif, analysed in-process and removed.  A mutator whose anchor no longer
exists is skipped and counted as skipped.  The self-test never runs sqllineage or its tests.
"""

from __future__ import annotations

import ast
import importlib
import json
import os
import shutil
import subprocess
import tempfile
from concurrent.futures import ProcessPoolExecutor
from typing import Callable, Optional

from .model import AnalysisError, Prog
from .report import VERIF, Ctx, load_known


# --------------------------------------------------------------------------------------------------
# edit helpers
# --------------------------------------------------------------------------------------------------


def _offsets(src: str) -> list[int]:
    offs, n = [0], 0
    for line in src.splitlines(keepends=True):
        n += len(line.encode("utf-8"))
        offs.append(n)
    return offs


def replace_node(src: str, node: ast.AST, new: str) -> str:
    b = src.encode("utf-8")
    offs = _offsets(src)
    start = offs[node.lineno - 1] + node.col_offset
    end = offs[node.end_lineno - 1] + node.end_col_offset
    return (b[:start] + new.encode("utf-8") + b[end:]).decode("utf-8")


def seg(src: str, node: ast.AST) -> str:
    return ast.get_source_segment(src, node) or ast.unparse(node)


def find(tree: ast.AST, pred: Callable[[ast.AST], bool]) -> Optional[ast.AST]:
    for n in ast.walk(tree):
        try:
            if pred(n):
                return n
        except Exception:
            continue
    return None


def fn_node(tree: ast.AST, name: str, cls: Optional[str] = None) -> Optional[ast.AST]:
    for n in ast.walk(tree):
        if isinstance(n, ast.ClassDef) and cls is not None and n.name == cls:
            for m in n.body:
                if isinstance(m, (ast.FunctionDef, ast.AsyncFunctionDef)) and m.name == name:
                    return m
        if cls is None and isinstance(n, (ast.FunctionDef, ast.AsyncFunctionDef)) and n.name == name:
            return n
    return None


class Edit:
    """One file edit: locate a node inside (optionally) a function and replace its text."""

    def __init__(self, path: str, where: tuple, pred: Callable[[ast.AST, str], bool], new: Callable[[str], str]):
        self.path, self.where, self.pred, self.new = path, where, pred, new

    def apply(self, root: str) -> bool:
        p = os.path.join(root, self.path)
        if not os.path.exists(p):
            return False
        src = open(p, encoding="utf-8").read()
        tree = ast.parse(src)
        scope = tree
        if self.where:
            scope = fn_node(tree, self.where[-1], self.where[0] if len(self.where) == 2 else None)
            if scope is None:
                return False
        node = find(scope, lambda n: hasattr(n, "lineno") and self.pred(n, seg(src, n) if hasattr(n, "end_lineno") else ""))
        if node is None:
            return False
        out = replace_node(src, node, self.new(seg(src, node)))
        try:
            ast.parse(out)
        except SyntaxError:
            return False
        open(p, "w", encoding="utf-8").write(out)
        return True


def E(path, where, pred, new):
    return Edit("sqllineage/" + path, where, pred, new)


def is_call(n, attr):
    return isinstance(n, ast.Call) and (isinstance(n.func, ast.Attribute) and n.func.attr == attr or isinstance(n.func, ast.Name) and n.func.id == attr)


# --------------------------------------------------------------------------------------------------
# catalogue: (name, property ids expected to fire, [edits], kind)   kind = mutant | twin
# --------------------------------------------------------------------------------------------------

HOLD = "core/holders.py"
MODELS = "core/models.py"
CONFIG = "config.py"
RUNNER = "runner.py"
FUTILS = "core/parser/sqlfluff/utils.py"
FBASE = "core/parser/sqlfluff/extractors/base.py"

CATALOGUE: list[tuple[str, list[str], list[Edit], str]] = [
    # ---- C01
    ("c01-noop-claims-insert", ["C01"], [E("core/parser/sqlfluff/extractors/noop.py", (), lambda n, s: isinstance(n, ast.Constant) and n.value == "delete_statement", lambda s: '"insert_statement", "delete_statement"')], "mutant"),
    ("c01-misspelt-merge-type", ["C01"], [E("core/parser/sqlfluff/extractors/merge.py", (), lambda n, s: isinstance(n, ast.Constant) and n.value == "merge_statement", lambda s: '"merge_statment"')], "mutant"),
    ("c01-typo-join-clause-literal", ["C01"], [E(FUTILS, ("list_join_clause",), lambda n, s: isinstance(n, ast.Constant) and n.value == "join_clause", lambda s: '"join_clauses"')], "mutant"),
    ("c01-drop-where-from-clause-types", ["C01"], [E(FUTILS, (), lambda n, s: isinstance(n, ast.Constant) and n.value == "where_clause", lambda s: '"where_clauze"')], "mutant"),
    ("c01-read-filter-removed", ["C01"], [E(HOLD, ("StatementLineageHolder", "read"), lambda n, s: isinstance(n, ast.SetComp), lambda s: "set(super().read)")], "mutant"),
    ("c01-select-sweep-removed", ["C01"], [E(FUTILS, ("list_subqueries",), lambda n, s: isinstance(n, ast.AugAssign) and "list_remaining_subqueries" in s, lambda s: "pass")], "mutant"),
    ("c01-noop-tags-table", ["C01"], [E("core/parser/sqlfluff/extractors/noop.py", ("NoopExtractor", "extract"), lambda n, s: isinstance(n, ast.Return), lambda s: "holder = StatementLineageHolder()\n        holder.add_read(statement)\n        return holder")], "mutant"),
    ("c01-twin-tuple-type-list", [], [E("core/parser/sqlfluff/extractors/drop.py", (), lambda n, s: isinstance(n, ast.List) and "drop_table_statement" in s, lambda s: "(" + s[1:-1] + ")")], "twin"),
    # ---- C02
    ("c02-else-clause-dropped-from-type-table", ["C02"], [E("core/parser/sqlfluff/models.py", (), lambda n, s: isinstance(n, ast.Constant) and n.value == "else_clause", lambda s: '"when_clause"')], "mutant"),
    ("c02-cast-dropped-from-type-table", ["C02"], [E("core/parser/sqlfluff/models.py", (), lambda n, s: isinstance(n, ast.Constant) and n.value == "cast_expression", lambda s: '"expression"')], "mutant"),
    ("c02-bare-map-removed", ["C02", "C08", "C16"], [E(HOLD, ("SubQueryLineageHolder", "get_alias_mapping_from_table_group"), lambda n, s: isinstance(n, ast.Return), lambda s: "return alias_map | qualified_map")], "mutant"),
    ("c02-replacement-step-removed", ["C02", "C13"], [E(HOLD, ("SubQueryLineageHolder", "add_write_column"), lambda n, s: isinstance(n, ast.Expr) and "remove_nodes_from" in s, lambda s: "pass")], "mutant"),
    ("c02-twin-dict-unpack-merge", [], [E(HOLD, ("SubQueryLineageHolder", "get_alias_mapping_from_table_group"), lambda n, s: isinstance(n, ast.Return), lambda s: "return {**alias_map, **unqualified_map, **qualified_map}")], "twin"),
    # ---- C03
    ("c03-target-degree-flip", ["C03"], [E(HOLD, ("SQLLineageHolder", "target_tables"), lambda n, s: isinstance(n, ast.Compare) and s == "deg == 0", lambda s: "deg > 0")], "mutant"),
    ("c03-selfloop-not-added-to-source", ["C03"], [E(HOLD, ("SQLLineageHolder", "source_tables"), lambda n, s: isinstance(n, ast.AugAssign) and "_selfloop_tables" in s, lambda s: "pass")], "mutant"),
    ("c03-intermediate-subtracts-wrong-tag", ["C03"], [E(HOLD, ("SQLLineageHolder", "intermediate_tables"), lambda n, s: isinstance(n, ast.Attribute) and s == "NodeTag.SELFLOOP", lambda s: "NodeTag.SOURCE_ONLY")], "mutant"),
    ("c03-tag-guards-swapped", ["C03"], [E(HOLD, ("SQLLineageHolder", "_build_digraph"), lambda n, s: isinstance(n, ast.Attribute) and s == "NodeTag.SOURCE_ONLY", lambda s: "NodeTag.TARGET_ONLY")], "mutant"),
    ("c03-drop-degree-test-removed", ["C03", "C06"], [E(HOLD, ("SQLLineageHolder", "_build_digraph"), lambda n, s: isinstance(n, ast.BoolOp) and "g.degree[table] == 0" in s, lambda s: "g.has_node(table)")], "mutant"),
    ("c03-edges-reversed", ["C03"], [E(HOLD, ("SQLLineageHolder", "_build_digraph"), lambda n, s: is_call(n, "add_edge") and s.startswith("g.add_edge(source, target"), lambda s: s.replace("source, target", "target, source"))], "mutant"),
    ("c03-twin-ampersand", [], [E(HOLD, ("SQLLineageHolder", "source_tables"), lambda n, s: is_call(n, "intersection"), lambda s: "(" + s.replace(".intersection(", ") & (", 1))], "twin"),
    # ---- C04
    ("c04-registration-after-loop", ["C04"], [E(RUNNER, ("LineageRunner", "_eval"), lambda n, s: isinstance(n, ast.If) and "register_session_metadata" in s, lambda s: "pass"),
                                            E(RUNNER, ("LineageRunner", "_eval"), lambda n, s: isinstance(n, ast.Assign) and s.startswith("self._stmt_holders ="), lambda s: "if stmt_holders and stmt_holders[-1].write:\n                tgt_table = next(iter(stmt_holders[-1].write))\n                session.register_session_metadata(tgt_table, stmt_holders[-1].get_table_columns(tgt_table))\n            " + s)], "mutant"),
    ("c04-registers-write-columns", ["C04"], [E(RUNNER, ("LineageRunner", "_eval"), lambda n, s: is_call(n, "get_table_columns") and "stmt_holder" in s, lambda s: "stmt_holder.write_columns")], "mutant"),
    ("c04-wildcard-filter-removed", ["C04"], [E(HOLD, ("SubQueryLineageHolder", "get_table_columns"), lambda n, s: isinstance(n, ast.Compare) and "raw_name" in s and "*" in s, lambda s: "True")], "mutant"),
    # ---- C05
    ("c05-loop-skips-last-statement", ["C05"], [E(RUNNER, ("LineageRunner", "_eval"), lambda n, s: isinstance(n, ast.Attribute) and s == "self._stmt" and isinstance(n.ctx, ast.Load), lambda s: "self._stmt[:-1]")], "mutant"),
    ("c05-extractor-cached-on-analyzer", ["C05"], [E("core/parser/sqlfluff/extractors/base.py", ("BaseExtractor", "delegate_to"), lambda n, s: isinstance(n, ast.Return), lambda s: "self._delegate = extractor_cls(self.dialect, self.metadata_provider)\n        return self._delegate.extract(segment, context)")], "mutant"),
    ("c05-split-drops-any-punctuation", ["C05", "C07"], [E("utils/helpers.py", ("split",), lambda n, s: isinstance(n, ast.BoolOp) and "first_token.value" in s, lambda s: "first_token.ttype == Punctuation")], "mutant"),
    ("c05-twin-enumerate", [], [E(RUNNER, ("LineageRunner", "statements"), lambda n, s: isinstance(n, ast.ListComp), lambda s: "[trim_comment(x) for x in self._stmt]")], "twin"),
    # ---- C06
    ("c06-owner-assigned-after-insertion", ["C06"], [E("core/parser/sqlfluff/extractors/update.py", ("UpdateExtractor", "extract"), lambda n, s: isinstance(n, ast.Assign) and s.startswith("tgt_col.parent ="), lambda s: "holder.graph.add_node(tgt_col)\n                " + s)], "mutant"),
    ("c06-length-guard-removed", ["C06"], [E(HOLD, ("ColumnLineageMixin", "get_column_lineage"), lambda n, s: isinstance(n, ast.Compare) and s == "len(path) > 1", lambda s: "len(path) > 0")], "mutant"),
    ("c06-column-eq-drops-owner", ["C06", "C08"], [E(MODELS, ("Column", "__eq__"), lambda n, s: isinstance(n, ast.Compare) and "self.parent" in s, lambda s: "True")], "mutant"),
    ("c06-twin-ge-2", [], [E(HOLD, ("ColumnLineageMixin", "get_column_lineage"), lambda n, s: isinstance(n, ast.Compare) and s == "len(path) > 1", lambda s: "len(path) >= 2")], "twin"),
    # ---- C07
    ("c07-raw-keyword-comparison", ["C07"], [E("core/parser/sqlfluff/extractors/merge.py", ("MergeExtractor", "extract"), lambda n, s: isinstance(n, ast.Compare) and s == 'segment.raw_upper == "USING"', lambda s: 'segment.raw == "USING"')], "mutant"),
    ("c07-lowercase-literal-vs-upper", ["C07"], [E("core/parser/sqlfluff/extractors/update.py", ("UpdateExtractor", "extract"), lambda n, s: isinstance(n, ast.Constant) and n.value == "UPDATE", lambda s: '"update"')], "mutant"),
    ("c07-dedupe-by-position", ["C07"], [E("core/parser/sqlfluff/utils.py", ("list_remaining_subqueries",), lambda n, s: isinstance(n, ast.Attribute) and s == "innermost.raw", lambda s: "innermost.pos_marker.line_pos")], "mutant"),
    ("c07-flag-loop-on-raw-segments", ["C07"], [E("core/parser/sqlfluff/extractors/drop.py", ("DropExtractor", "extract"), lambda n, s: is_call(n, "list_child_segments"), lambda s: "statement.segments")], "mutant"),
    ("c07-twin-raw-upper-method", [], [E("core/parser/sqlfluff/extractors/copy.py", ("CopyExtractor", "extract"), lambda n, s: isinstance(n, ast.Attribute) and s == "segment.raw_upper", lambda s: "segment.raw.upper()")], "twin"),
    # ---- C08
    ("c08-cte-lookup-raw-key", ["C08"], [E(FBASE, ("BaseExtractor", "_add_dataset_from_expression_element"), lambda n, s: is_call(n, "escape_identifier_name") and s == "escape_identifier_name(table_identifier.raw)", lambda s: "table_identifier.raw")], "mutant"),
    ("c08-alias-edge-conditional", ["C08"], [E(HOLD, ("SubQueryLineageHolder", "add_read"), lambda n, s: is_call(n, "hasattr"), lambda s: s + " and value.alias != getattr(value, 'raw_name', None)")], "mutant"),
    # ---- C10
    ("c10-raise-valueerror", ["C10"], [E("core/parser/__init__.py", ("SourceHandlerMixin", "end_of_query_cleanup"), lambda n, s: isinstance(n, ast.Raise), lambda s: "raise ValueError('more than one write')")], "mutant"),
    ("c10-bounds-guard-removed", ["C10"], [E("core/parser/sqlfluff/extractors/select.py", ("SelectExtractor", "_handle_swap_partition"), lambda n, s: isinstance(n, ast.Compare) and s == "len(expressions) > 3", lambda s: "True")], "mutant"),
    ("c10-silent-branch-tags-table", ["C10"], [E("core/parser/sqlfluff/analyzer.py", ("SqlFluffLineageAnalyzer", "analyze"), lambda n, s: isinstance(n, ast.Return) and s == "return StatementLineageHolder()", lambda s: "return StatementLineageHolder.of(lineage_holder)")], "mutant"),
    ("c10-lex-errors-ignored", ["C10"], [E("core/parser/sqlfluff/analyzer.py", ("SqlFluffLineageAnalyzer", "_list_specific_statement_segment"), lambda n, s: isinstance(n, ast.Tuple) and s == "(SQLLexError, SQLParseError)", lambda s: "(SQLParseError,)")], "mutant"),
    ("c10-new-unguarded-index", ["C10"], [E("core/parser/sqlfluff/extractors/copy.py", ("CopyExtractor", "extract"), lambda n, s: isinstance(n, ast.Assign) and s.startswith("src_flag = tgt_flag"), lambda s: s + "\n        first_table = statement.get_children('table_reference')[2]")], "mutant"),
    # ---- C11
    ("c11-unsorted-source-tables", ["C11", "C18"], [E(RUNNER, ("LineageRunner", "source_tables"), lambda n, s: is_call(n, "sorted"), lambda s: "list(self._sql_holder.source_tables)")], "mutant"),
    ("c11-pick-one-from-read", ["C11"], [E("core/parser/sqlfluff/extractors/update.py", ("UpdateExtractor", "extract"), lambda n, s: isinstance(n, ast.Assign) and s.startswith("tables = []"), lambda s: s + "\n        first_read = list(holder.read)[0] if holder.read else None")], "mutant"),
    ("c11-undecorated-accessor", ["C11"], [E(RUNNER, ("LineageRunner",), lambda n, s: False, lambda s: s)], "skip"),
    ("c11-accessor-memo", ["C11", "C06"], [E(RUNNER, ("LineageRunner", "statements"), lambda n, s: isinstance(n, ast.Return), lambda s: "self._cached_statements = [trim_comment(s) for s in self._stmt]\n        return self._cached_statements")], "mutant"),
    ("c11-parent-candidates-unsorted", ["C11"], [E(MODELS, ("Column", "parent_candidates"), lambda n, s: is_call(n, "sorted"), lambda s: "list(self._parent)")], "mutant"),
    # ---- C12
    ("c12-exit-skips-cleanup-on-exception", ["C12"], [E("core/metadata_provider.py", ("MetaDataSession", "__exit__"), lambda n, s: isinstance(n, ast.Expr) and "deregister" in s, lambda s: "if exc_type is None:\n            " + s)], "mutant"),
    ("c12-store-keeps-column-objects", ["C12"], [E("core/metadata_provider.py", ("MetaDataProvider", "register_session_metadata"), lambda n, s: isinstance(n, ast.ListComp), lambda s: "columns")], "mutant"),
    ("c12-module-level-memo", ["C12"], [E("core/parser/sqlfluff/analyzer.py", ("SqlFluffLineageAnalyzer", "analyze"), lambda n, s: isinstance(n, ast.If) and "tsql_split_cache" in s, lambda s: "_SEEN.setdefault(sql, 0)\n        " + s),
                                        E("core/parser/sqlfluff/analyzer.py", (), lambda n, s: isinstance(n, ast.ClassDef) and n.name == "SqlFluffLineageAnalyzer", lambda s: "_SEEN: dict = {}\n\n\n" + s)], "mutant"),
    ("c12-flag-set-before-session", ["C12", "C11"], [E(RUNNER, ("LineageRunner", "_eval"), lambda n, s: isinstance(n, ast.Assign) and s == "self._evaluated = True", lambda s: "pass"),
                                                   E(RUNNER, ("LineageRunner", "_eval"), lambda n, s: isinstance(n, ast.Assign) and s.startswith("analyzer ="), lambda s: "self._evaluated = True\n        " + s)], "mutant"),
    # ---- C13
    ("c13-ungated-lookup", ["C13", "C05"], [E(HOLD, ("SubQueryLineageHolder", "expand_wildcard"), lambda n, s: isinstance(n, ast.BoolOp) and s == "isinstance(source_table, Table) and metadata_provider", lambda s: "isinstance(source_table, Table)")], "mutant"),
    ("c13-metadata-adds-read", ["C13"], [E("core/parser/sqlfluff/extractors/create_insert.py", ("CreateInsertExtractor", "extract"), lambda n, s: isinstance(n, ast.Expr) and "get_table_columns" in s and "add_write_column" in s, lambda s: s + "\n                        holder.add_read(write_obj)")], "mutant"),
    # ---- C14
    ("c14-import-time-default-restored", ["C14"], [E(MODELS, ("Table", "__init__"), lambda n, s: isinstance(n, ast.Constant) and n.value is None and s == "None", lambda s: "Schema()")], "mutant"),
    ("c14-module-level-default-schema", ["C14"], [E(MODELS, (), lambda n, s: isinstance(n, ast.ClassDef) and n.name == "Table", lambda s: "DEFAULT = Schema()\n\n\n" + s)], "mutant"),
    ("c14-twin-if-none", [], [E(MODELS, ("Table", "__init__"), lambda n, s: isinstance(n, ast.IfExp) and "Schema()" in s, lambda s: "Schema() if schema is None else schema")], "twin"),
    # ---- C15
    ("c15-clear-in-exit", ["C15"], [E(CONFIG, ("_SQLLineageConfigLoader", "__exit__"), lambda n, s: is_call(n, "pop"), lambda s: "self._thread_config.clear()")], "mutant"),
    ("c15-early-return-in-exit", ["C15"], [E(CONFIG, ("_SQLLineageConfigLoader", "__exit__"), lambda n, s: isinstance(n, ast.If) and "_thread_in_context_manager" in s, lambda s: "if exc_type is not None:\n            return\n        " + s)], "mutant"),
    ("c15-store-raw-value", ["C15"], [E(CONFIG, ("_SQLLineageConfigLoader", "__call__"), lambda n, s: is_call(n, "parse_value"), lambda s: "value")], "mutant"),
    ("c15-env-before-thread", ["C15", "C14"], [E(CONFIG, ("_SQLLineageConfigLoader", "__getattr__"), lambda n, s: isinstance(n, ast.Compare) and "is not None" in s, lambda s: s + " and ('SQLLINEAGE_' + item) not in os.environ")], "mutant"),
    ("c15-setattr-guard-removed", ["C15"], [E(CONFIG, ("_SQLLineageConfigLoader", "__setattr__"), lambda n, s: isinstance(n, ast.Compare) and s == "key in self.config", lambda s: "False")], "mutant"),
    ("c15-twin-bind-ident-once", [], [E(CONFIG, ("_SQLLineageConfigLoader", "__enter__"), lambda n, s: isinstance(n, ast.FunctionDef), lambda s: s)], "twin"),
    # ---- C16
    ("c16-hash-by-id", ["C16", "C06"], [E(MODELS, ("Table", "__hash__"), lambda n, s: isinstance(n, ast.Return), lambda s: "return hash((str(self), id(self)))")], "mutant"),
    ("c16-new-double-normalised-column", ["C16"], [E(HOLD, ("SubQueryLineageHolder", "get_table_columns"), lambda n, s: isinstance(n, ast.Return), lambda s: "extra = [Column(c.raw_name) for c in self.write_columns]\n        " + s)], "mutant"),
    ("c16-first-dot-split", ["C16"], [E(MODELS, ("Table", "__init__"), lambda n, s: is_call(n, "rsplit"), lambda s: s.replace("rsplit", "split"))], "mutant"),
    # ---- C17
    ("c17-back-to-startswith", ["C17"], [E("drawing.py", ("SQLLineageApp", "is_path_allowed"), lambda n, s: isinstance(n, ast.Return), lambda s: "return str(Path(path).absolute()).startswith(str(Path(self.root_path).absolute()))")], "mutant"),
    ("c17-guard-only-f", ["C17"], [E("drawing.py", ("SQLLineageApp", "__call__"), lambda n, s: isinstance(n, ast.List) and s == '["d", "f"]', lambda s: '["f"]')], "mutant"),
    ("c17-directory-parent-guard-removed", ["C17"], [E("drawing.py", ("directory",), lambda n, s: isinstance(n, ast.If) and s.startswith("if not app.is_path_allowed"), lambda s: "pass")], "mutant"),
    ("c17-dotdot-check-removed", ["C17"], [E("drawing.py", ("SQLLineageApp", "__call__"), lambda n, s: isinstance(n, ast.If) and s.startswith('if ".." in path_info'), lambda s: "pass")], "mutant"),
    # ---- C18
    ("c18-edge-source-repr", ["C18"], [E("io.py", ("to_cytoscape",), lambda n, s: isinstance(n, ast.Call) and s == "str(edge[0])", lambda s: "repr(edge[0])")], "mutant"),
    ("c18-summary-reads-holder-set", ["C18"], [E(RUNNER, ("LineageRunner", "__str__"), lambda n, s: isinstance(n, ast.Attribute) and s == "self.target_tables", lambda s: "self._sql_holder.target_tables")], "mutant"),
    ("c18-column-view-by-edges", ["C18"], [E(HOLD, ("SQLLineageHolder", "column_lineage_graph"), lambda n, s: isinstance(n, ast.Return), lambda s: "return self.graph.edge_subgraph([(a, b) for a, b in self.graph.edges if isinstance(a, Column) and isinstance(b, Column)])")], "mutant"),
    ("c18-twin-fstring-id", [], [E("io.py", ("to_cytoscape",), lambda n, s: isinstance(n, ast.Call) and s == "str(edge[1])", lambda s: 'f"{edge[1]}"')], "twin"),
]


# --------------------------------------------------------------------------------------------------
# execution
# --------------------------------------------------------------------------------------------------


def failing_keys(pid: str, root: str) -> tuple[set, Optional[str]]:
    mod = importlib.import_module(f"sa.rules.{pid.lower()}")
    ctx = None
    err = None
    try:
        prog = Prog(root)
        ctx = Ctx(pid, "quick", prog, root)
        mod.rules(ctx)
        if getattr(ctx, "deferred_errors", None):
            err = "ANALYSIS-ERROR " + "; ".join(ctx.deferred_errors)
    except AnalysisError as e:
        err = f"ANALYSIS-ERROR {e}"
    except Exception as e:  # noqa
        return set(), f"CRASH {type(e).__name__}: {e}"
    # as in run_check: what was established before an anchor was lost stays established
    return ({(o.rule, o.key) for o in ctx.obligations if not o.ok} if ctx is not None else set()), err


def _scratch(repo: str) -> str:
    d = tempfile.mkdtemp(prefix="sqll-selftest-")
    shutil.copytree(os.path.join(repo, "sqllineage"), os.path.join(d, "sqllineage"), ignore=shutil.ignore_patterns("__pycache__", "build", "data", "*.pyc"))
    return d


def _run_variant(args) -> dict:
    repo, name, pids, kind, idx, baseline = args
    d = _scratch(repo)
    try:
        if kind == "neutral":
            from .neutral import alpha_rename_tree, unparse_tree

            (alpha_rename_tree if idx == "alpha" else unparse_tree)(d)
        elif kind in ("patch", "neutral-patch"):
            p = subprocess.run(["patch", "-p1", "--no-backup-if-mismatch", "-s", "-i", idx], cwd=d, capture_output=True, text=True)
            if p.returncode != 0:
                return {"name": name, "kind": kind, "status": "skipped", "why": "patch does not apply to the current tree"}
        else:
            edits = CATALOGUE[idx][2]
            if not all(e.apply(d) for e in edits):
                return {"name": name, "kind": kind, "status": "skipped", "why": "anchor not found in the current tree"}
        fired = {}
        for pid in pids:
            keys, err = failing_keys(pid, d)
            new = sorted(k for k in keys if k not in baseline.get(pid, set()))
            if new:
                fired[pid] = [f"{r}[{k}]" for r, k in new[:3]]
            elif err:
                fired[pid] = [err]
        return {"name": name, "kind": kind, "status": "done", "fired": fired, "expected": pids}
    finally:
        shutil.rmtree(d, ignore_errors=True)


def selftest_for(pid: str, repo: str, jobs: int = 16) -> dict:
    """Mutants / twins / seeded patches relevant to one property."""
    baseline_all: dict[str, set] = {}
    work = []
    for i, (name, pids, edits, kind) in enumerate(CATALOGUE):
        if kind == "skip":
            continue
        if kind == "mutant" and pid in pids:
            work.append((name, [pid], kind, i))
        elif kind == "twin" and name.startswith(pid.lower() + "-"):
            work.append((name, [pid], kind, i))
    seeded_dir = os.path.join(VERIF, "seeded")
    catches = {}
    cpath = os.path.join(seeded_dir, "CATCHES.json")
    if os.path.exists(cpath):
        catches = json.load(open(cpath))
    for sname, info in sorted(catches.items()):
        if pid in info.get("caught_by", []):
            work.append((f"seeded:{sname}", [pid], "patch", os.path.join(seeded_dir, sname, "patch.diff")))
    # behaviour-preserving refactorings written by maintainers-for-a-day (fresh sub-agents; extract method, guard clauses, renames,
    # loops <-> comprehensions, hoisted expressions, named constants ...): every check must stay silent on each of them
    neutral_dir = os.path.join(VERIF, "neutral")
    if os.path.isdir(neutral_dir):
        for nname in sorted(os.listdir(neutral_dir)):
            pth = os.path.join(neutral_dir, nname, "patch.diff")
            if os.path.exists(pth):
                work.append((f"neutral-patch:{nname}", [pid], "neutral-patch", pth))
    work.append(("neutral:alpha-rename-all-locals", [pid], "neutral", "alpha"))
    work.append(("neutral:re-render-with-ast.unparse", [pid], "neutral", "unparse"))
    keys, err = failing_keys(pid, repo)
    if err:
        raise AnalysisError(f"self-test baseline: {err}")
    baseline_all[pid] = keys
    jobs_args = [(repo, name, pids, kind, idx, baseline_all) for name, pids, kind, idx in work]
    results = []
    with ProcessPoolExecutor(max_workers=min(jobs, max(1, len(jobs_args)))) as ex:
        for r in ex.map(_run_variant, jobs_args):
            results.append(r)
    missed = [r["name"] for r in results if r["status"] == "done" and r["kind"] in ("mutant", "patch") and not r["fired"].get(pid)]
    noisy = [r["name"] for r in results if r["status"] == "done" and r["kind"] in ("twin", "neutral", "neutral-patch") and r["fired"].get(pid)]
    return {
        "variants": len(results),
        "mutants_killed": len([r for r in results if r["status"] == "done" and r["kind"] == "mutant" and r["fired"].get(pid)]),
        "mutants_total": len([r for r in results if r["status"] == "done" and r["kind"] == "mutant"]),
        "seeded_patches_caught": len([r for r in results if r["status"] == "done" and r["kind"] == "patch" and r["fired"].get(pid)]),
        "seeded_patches_total": len([r for r in results if r["status"] == "done" and r["kind"] == "patch"]),
        "twins_silent": len([r for r in results if r["status"] == "done" and r["kind"] in ("twin", "neutral", "neutral-patch") and not r["fired"].get(pid)]),
        "twins_total": len([r for r in results if r["status"] == "done" and r["kind"] in ("twin", "neutral", "neutral-patch")]),
        "skipped": [r["name"] + ": " + r["why"] for r in results if r["status"] == "skipped"],
        "missed": missed,
        "noisy": noisy,
        "details": [{"name": r["name"], "kind": r["kind"], "fired": r.get("fired", {}).get(pid, [])} for r in results if r["status"] == "done"],
    }
