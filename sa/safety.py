"""Unchecked positional access / optional dereference on parser-derived data (rule R10.3).

Every site is classified; the guard idioms the repository uses are discharged automatically, the rest become
instances with a semantic key (function : normalised base : access kind).
"""

from __future__ import annotations

import ast
import re
from dataclasses import dataclass
from typing import Iterator, Optional

from .astutil import u
from .cfg import flow
from .model import Fn, Prog, T

OPTIONAL_NAV = {"get_child", "token_first", "token_next", "token_prev", "token_next_by", "token_matching", "get_alias", "get_real_name", "get_parent_name", "get_name"}
OPTIONAL_TEXT = {"get_alias", "get_real_name", "get_parent_name", "get_name", "_get_first_name"}  # sqlparse: Optional[str]
NAME_TAKERS = {"Column", "Table", "Schema", "Path", "SqlParseColumn", "SqlFluffColumn", "escape_identifier_name"}
SEQ_SOURCES = {"segments", "tokens"}
SEQ_CALLS = {"get_children", "list_child_segments", "get_identifiers", "get_sublists", "get_parameters", "recursive_crawl", "list_subqueries", "list_join_clause", "get_subquery_parentheses"}
NONEMPTY_CALLS = {"split", "rsplit", "splitlines", "partition", "rpartition"}
_FORMAT_SPEC = re.compile(r"%(?:\([^)]*\))?[#0\- +]*(?:\*|\d+)?(?:\.(?:\*|\d+))?[hlL]?([diouxXeEfFgGcrsa%])")


@dataclass
class Site:
    fn: Fn
    node: ast.AST
    base: str
    kind: str  # index:<k> | unpack:<n> | next | optional-deref | optional-arg
    detail: str
    discharged: Optional[str] = None

    @property
    def key(self) -> str:
        owner = self.fn.owner
        return f"{owner}:{self.base}:{self.kind}"


def norm_base(prog: Prog, fn: Fn, e: ast.AST, depth: int = 0) -> str:
    if isinstance(e, ast.Call):
        f = e.func
        nm = f.attr if isinstance(f, ast.Attribute) else f.id if isinstance(f, ast.Name) else "call"
        if nm in ("list", "tuple", "sorted") and e.args:
            return f"{nm}({norm_base(prog, fn, e.args[0], depth + 1)})"
        return f"{nm}()"
    if isinstance(e, ast.Attribute):
        return f".{e.attr}"
    if isinstance(e, ast.Subscript):
        return norm_base(prog, fn, e.value, depth + 1) + "[]"
    if isinstance(e, ast.Name) and depth < 3:
        # the definitions that reach this use (a name re-bound later in the function does not change what is subscripted here)
        defs = [node for kind, node in flow(prog, fn).reaching_defs(e, e.id) if kind in ("assign", "walrus", "annassign") and getattr(node, "value", None) is not None]
        if len(defs) == 1:
            return norm_base(prog, fn, defs[0].value, depth + 1)
        if len(defs) > 1:
            return "|".join(sorted({norm_base(prog, fn, d.value, depth + 1) for d in defs}))
        if prog.param_type(fn, e.id) is not None:
            ps = fn.params()
            return f"param:{e.id}" if e.id in ("args", "kwargs") or e.id not in ps else f"param:{ps.index(e.id)}"
        return "local"
    if isinstance(e, (ast.List, ast.ListComp)):
        return "[list]"
    return type(e).__name__


def _const_index(prog: Prog, fn: Fn, s: ast.AST) -> Optional[tuple[str, int]]:
    """('const', k) for literal indices, ('rel', d) for <name> + d."""
    v = prog.try_fold(s, fn.mod, fn)
    if isinstance(v, bool):
        return None
    if isinstance(v, int):
        return ("const", v)
    if isinstance(s, ast.BinOp) and isinstance(s.op, (ast.Add, ast.Sub)) and isinstance(s.right, ast.Constant) and isinstance(s.right.value, int) and isinstance(s.left, ast.Name):
        return ("rel", s.right.value if isinstance(s.op, ast.Add) else -s.right.value)
    if isinstance(s, ast.Name):
        return ("var", 0)
    return None


def _len_facts(facts, base_txts: set[str]) -> tuple[int, bool]:
    """(proven minimum length, exact) from facts about len(base)."""
    lo = 0
    for t, p in facts:
        for b in base_txts:
            if not p:
                if t == f"len({b}) == 0" or t == f"not {b}":
                    lo = max(lo, 1)
                continue
            if t == b or t == f"bool({b})":
                lo = max(lo, 1)
            for op, add in ((">", 1), (">=", 0), ("==", 0)):
                pref = f"len({b}) {op} "
                if t.startswith(pref):
                    try:
                        k = int(t[len(pref):])
                        lo = max(lo, k + add)
                    except ValueError:
                        pass
    # lengths excluded one by one from below: len >= 1 and len != 1 is len >= 2 (`if not xs: ...; if len(xs) == 1: ...; xs[-2]`)
    excluded: set[int] = set()
    for t, p in facts:
        for b in base_txts:
            for op, pol in (("==", False), ("!=", True)):
                pref = f"len({b}) {op} "
                if t.startswith(pref) and p == pol:
                    try:
                        excluded.add(int(t[len(pref):]))
                    except ValueError:
                        pass
            for op, pol, add in (("<", False, 0), ("<=", False, 1)):  # not (len < k)  =>  len >= k
                pref = f"len({b}) {op} "
                if t.startswith(pref) and p == pol:
                    try:
                        lo = max(lo, int(t[len(pref):]) + add)
                    except ValueError:
                        pass
    while lo in excluded:
        lo += 1
    return lo, False


def _in_try_catching(prog: Prog, node: ast.AST, names: tuple) -> bool:
    child = node
    for a in prog.ancestors(node):
        if isinstance(a, ast.Try) and any(child is b or any(child is x for x in ast.walk(b)) for b in a.body):
            for h in a.handlers:
                if h.type is None:
                    return True
                ts = [u(x) for x in (h.type.elts if isinstance(h.type, ast.Tuple) else [h.type])]
                if any(t.split(".")[-1] in names + ("Exception", "BaseException", "LookupError") for t in ts):
                    return True
        if isinstance(a, (ast.FunctionDef, ast.AsyncFunctionDef)):
            break
        child = a
    return False


def _is_seq_source(prog: Prog, fn: Fn, e: ast.AST, depth: int = 0) -> Optional[str]:
    """If `e` is (derived from) a parser sequence return a description, else None."""
    if depth > 4:
        return None
    if isinstance(e, ast.Attribute) and e.attr in SEQ_SOURCES:
        return f".{e.attr}"
    if isinstance(e, ast.Call):
        f = e.func
        nm = f.attr if isinstance(f, ast.Attribute) else f.id if isinstance(f, ast.Name) else ""
        if nm in SEQ_CALLS:
            return f"{nm}()"
        if nm in ("list", "tuple", "sorted", "reversed") and e.args:
            return _is_seq_source(prog, fn, e.args[0], depth + 1) or ("list(set)" if _settyped(prog, fn, e.args[0]) else None)
    if isinstance(e, (ast.ListComp,)):
        return "[comprehension]"
    if isinstance(e, ast.Subscript) and isinstance(e.slice, ast.Slice):
        return _is_seq_source(prog, fn, e.value, depth + 1)
    if isinstance(e, ast.Name):
        srcs = []
        for kind, node in prog.local_defs(fn, e.id):
            if kind in ("assign", "walrus", "annassign") and getattr(node, "value", None) is not None:
                srcs.append(_is_seq_source(prog, fn, node.value, depth + 1))
            elif kind == "augassign":
                srcs.append("+=")
        srcs = [s for s in srcs if s]
        if srcs:
            return srcs[0]
        pt = prog.param_type(fn, e.id)
        if pt is not None and any(a.kind == "list" for a in pt.alts()):
            return f"param:{e.id}"
    return None


def _settyped(prog: Prog, fn: Fn, e: ast.AST) -> bool:
    t = prog.infer(e, fn)
    return any(a.kind == "set" for a in t.alts())


class _FactsView:
    """facts_for with single-definition locals that name a length written out: `n = len(xs)` ... `n == 2` is `len(xs) == 2`."""

    def __init__(self, prog: Prog, fn: Fn, fl):
        self.fl = fl
        self.alias: dict[str, str] = {}
        self.flag: dict[str, str] = {}
        for nm, defs in prog._all_local_defs(fn).items():
            if len(defs) == 1 and defs[0][0] in ("assign", "annassign", "walrus"):
                v = getattr(defs[0][1], "value", None)
                if isinstance(v, ast.Call) and isinstance(v.func, ast.Name) and v.func.id == "len" and len(v.args) == 1:
                    self.alias[nm] = u(v)
                elif isinstance(v, ast.Compare) and len(v.ops) == 1 and not any(isinstance(x, (ast.Call, ast.NamedExpr)) for x in ast.walk(v) if not (isinstance(x, ast.Call) and isinstance(x.func, ast.Name) and x.func.id == "len")):
                    # a stored test: `is_qualified = "." in name` ... `if is_qualified:` (the names it reads must not be re-bound in between:
                    # accepted when they are parameters or single-definition locals)
                    reads = {x.id for x in ast.walk(v) if isinstance(x, ast.Name)}
                    if all(len(prog.local_defs(fn, r)) == 0 or len(prog.local_defs(fn, r)) == 1 for r in reads):
                        self.flag[nm] = u(v)

    def __getattr__(self, item):
        return getattr(self.fl, item)

    def facts_for(self, node):
        facts = set(self.fl.facts_for(node))
        if self.alias:
            for t, p in list(facts):
                t2 = t
                for nm, txt in self.alias.items():
                    t2 = re.sub(rf"(?<![\w.]){re.escape(nm)}(?![\w(])", txt, t2)
                if t2 != t:
                    facts.add((t2, p))
        for t, p in list(facts):
            if t in self.flag:
                facts.add((self.flag[t], p))
        return facts


def scan_function(prog: Prog, fn: Fn) -> Iterator[Site]:
    fl = _FactsView(prog, fn, flow(prog, fn))
    for n in prog.walk_fn(fn):
        # ---- positional subscripts ------------------------------------------------------
        if isinstance(n, ast.Subscript) and isinstance(n.ctx, ast.Load) and not isinstance(n.slice, ast.Slice):
            idx = _const_index(prog, fn, n.slice)
            if idx is None:
                continue
            bt = prog.infer(n.value, fn)
            if any(a.kind in ("dict", "str", "tuple") for a in bt.alts()) and not any(a.kind == "list" for a in bt.alts()):
                continue
            if any(a.kind == "inst" for a in bt.alts()):
                continue  # NamedTuple / model object
            src = _is_seq_source(prog, fn, n.value)
            if src is None:
                # string split results are never empty
                base = n.value
                if isinstance(base, ast.Name):
                    defs = [node.value for kind, node in prog.local_defs(fn, base.id) if kind in ("assign",) and node.value is not None]
                    if defs and all(isinstance(d, ast.Call) and isinstance(d.func, ast.Attribute) and d.func.attr in NONEMPTY_CALLS for d in defs) and idx[0] == "const" and idx[1] in (0, -1):
                        continue
                split_call = base
                if isinstance(base, ast.Name):
                    sdefs = [node.value for kind, node in prog.local_defs(fn, base.id) if kind == "assign"]
                    split_call = sdefs[0] if len(sdefs) == 1 and len(prog.local_defs(fn, base.id)) == 1 else base
                if isinstance(split_call, ast.Call) and isinstance(split_call.func, ast.Attribute) and split_call.func.attr in ("split", "rsplit") and idx[0] == "const" and idx[1] in (1, -2) and split_call.args:
                    base = split_call
                    # s.split(sep, ...)[1] exists when sep occurs in s
                    sep = prog.try_fold(base.args[0], fn.mod, fn)
                    if isinstance(sep, str) and any(p_ and t_ in (f"{sep!r} in {u(base.func.value)}",) for t_, p_ in fl.facts_for(n)):
                        continue
                if isinstance(base, ast.Call) and isinstance(base.func, ast.Attribute) and base.func.attr in NONEMPTY_CALLS and idx[0] == "const" and idx[1] in (0, -1):
                    continue
                if isinstance(base, ast.Call) and isinstance(base.func, ast.Attribute) and base.func.attr in ("groups",):
                    yield Site(fn, n, "groups()", f"index:{idx[1]}", f"`{u(n)}`", discharged="regex groups: arity fixed by the pattern literal")
                    continue
                if idx[0] == "var" and not any(a.kind == "list" for a in bt.alts()):
                    continue
                if bt.kind == "unknown" and not isinstance(base, (ast.Name, ast.Attribute, ast.Call)):
                    continue
                if bt.kind == "unknown" and isinstance(base, ast.Name) and prog.param_type(fn, base.id) is not None:
                    continue  # untyped parameter (args[0] of decorators etc.)
                if bt.kind == "unknown":
                    continue
                src = "list"
            base_txts = {u(n.value)}
            if isinstance(n.value, ast.Call) and isinstance(n.value.func, ast.Name) and n.value.func.id in ("list", "tuple", "sorted") and n.value.args:
                base_txts.add(u(n.value.args[0]))
            kind = f"index:{idx[1]}" if idx[0] == "const" else f"index:i{idx[1]:+d}" if idx[0] == "rel" else "index:var"
            site = Site(fn, n, norm_base(prog, fn, n.value), kind, f"`{u(n)}` on {src}")
            facts = fl.facts_for(n)
            need = None
            if idx[0] == "const":
                need = idx[1] + 1 if idx[1] >= 0 else -idx[1]
                lo, _ = _len_facts(facts, base_txts)
                if lo >= need:
                    site.discharged = f"dominated by a proof that len >= {need}"
            if site.discharged is None and idx[0] in ("var", "rel"):
                iv = n.slice.id if isinstance(n.slice, ast.Name) else n.slice.left.id
                for kind_, node in prog.local_defs(fn, iv):
                    if kind_ in ("for", "comp", "unpack:0"):
                        it = node.iter if hasattr(node, "iter") else None
                        if it is not None:
                            itxt = u(it)
                            if f"len({u(n.value)})" in itxt or itxt.startswith(f"enumerate({u(n.value)}"):
                                if idx[0] == "var":
                                    site.discharged = "index bound by enumerate / range(len(...)) of the same sequence"
                                elif "range(0, len(" in itxt and ", 2)" in itxt and idx[1] == 1 and any(p and t == f"len({u(n.value)}) % 2 == 0" for t, p in facts):
                                    site.discharged = "pairs: range(0, len, 2) under len % 2 == 0"
                if idx[0] == "rel" and idx[1] == -1 and site.discharged is None:
                    # x[i - 1] with i from enumerate(x) under a proof that i != 0
                    iv = n.slice.left.id
                    from_enum = any(kind_ in ("for", "comp", "unpack:0") and hasattr(node, "iter") and u(node.iter).startswith(f"enumerate({u(n.value)}") for kind_, node in prog.local_defs(fn, iv))
                    if from_enum and any((t == f"{iv} == 0" and not p) or (t in (f"{iv} > 0", f"{iv} != 0", f"{iv} >= 1") and p) for t, p in facts):
                        site.discharged = "previous element: enumerate index proven non-zero"
                if idx[0] == "var" and site.discharged is None:
                    # index bound by enumerate / range over ANOTHER sequence: needs a bound proof on this one
                    other = None
                    for kind_, node in prog.local_defs(fn, iv):
                        if kind_ in ("for", "comp", "unpack:0") and hasattr(node, "iter"):
                            itxt = u(node.iter)
                            if itxt.startswith("enumerate(") or itxt.startswith("range("):
                                other = itxt
                    if other is None:
                        continue  # dynamic index not tied to a loop: out of scope of the positional rule
                    b = u(n.value)
                    if any((t == f"{iv} >= len({b})" and not p) or (t == f"{iv} < len({b})" and p) for t, p in facts):
                        site.discharged = "index proven below the length of this sequence"
                    elif any(p and t.startswith(f"len({b}) == len(") and t[len(f"len({b}) == len("):-1] in other for t, p in facts):
                        site.discharged = "index enumerates a sequence proven to have the same length"
                    else:
                        site.kind = "index:cross-sequence"
                        site.detail = f"`{u(n)}`: index `{iv}` enumerates `{other[:40]}`, not this sequence"
            if site.discharged is None and _in_try_catching(prog, n, ("IndexError",)):
                site.discharged = "inside try/except IndexError"
            yield site
        # ---- fixed-arity unpacking ----------------------------------------------------------
        if isinstance(n, ast.Assign) and len(n.targets) == 1 and isinstance(n.targets[0], (ast.Tuple, ast.List)) and not any(isinstance(e, ast.Starred) for e in n.targets[0].elts):
            src = _is_seq_source(prog, fn, n.value)
            if src is not None:
                arity = len(n.targets[0].elts)
                site = Site(fn, n, norm_base(prog, fn, n.value), f"unpack:{arity}", f"`{u(n)[:60]}` unpacks {src} into {arity} names")
                facts = fl.facts_for(n)
                if any(p and t == f"len({u(n.value)}) == {arity}" for t, p in facts):
                    site.discharged = f"dominated by len == {arity}"
                elif _in_try_catching(prog, n, ("ValueError",)):
                    site.discharged = "inside try/except ValueError"
                yield site
        # ---- starred unpacking: `a, *rest = xs` needs at least as many elements as plain targets --------------------------------
        if isinstance(n, ast.Assign) and len(n.targets) == 1 and isinstance(n.targets[0], (ast.Tuple, ast.List)) and any(isinstance(e, ast.Starred) for e in n.targets[0].elts):
            need = len([e for e in n.targets[0].elts if not isinstance(e, ast.Starred)])
            src = _is_seq_source(prog, fn, n.value)
            if src is None and isinstance(n.value, (ast.Name, ast.Call, ast.Attribute)):
                t_ = prog.infer(n.value, fn)
                if any(a.kind == "list" for a in t_.alts()):
                    src = "list"
            if need > 0 and src is not None:
                site = Site(fn, n, norm_base(prog, fn, n.value), f"unpack:{need}+", f"`{u(n)[:60]}` needs at least {need} element(s) of {src}")
                facts = fl.facts_for(n)
                vt = u(n.value)
                lo, _ = _len_facts(facts, {vt})
                if lo is not None and lo >= need or any(p and t == vt for t, p in facts) and need == 1:
                    site.discharged = "dominated by a length / non-emptiness proof"
                elif _in_try_catching(prog, n, ("ValueError",)):
                    site.discharged = "inside try/except ValueError"
                yield site
        # ---- %-formatting: the number of conversions is fixed by the format literal; a format that is data (SQL text echoed in a
        #      message) fails on any '%' it happens to contain ------------------------------------------------------------------
        if isinstance(n, ast.BinOp) and isinstance(n.op, ast.Mod):
            fmt = n.left.value if isinstance(n.left, ast.Constant) and isinstance(n.left.value, str) else None
            if fmt is not None:
                specs = [m_ for m_ in _FORMAT_SPEC.finditer(fmt)]
                bad = "%" in _FORMAT_SPEC.sub("", fmt)
                want = sum(1 for m_ in specs if m_.group(1) != "%") + sum(m_.group(0).count("*") for m_ in specs)
                named = any("(" in m_.group(0) for m_ in specs)
                have = len(n.right.elts) if isinstance(n.right, ast.Tuple) and not any(isinstance(e_, ast.Starred) for e_ in n.right.elts) else None
                site = Site(fn, n, "literal", "format", f"`{u(n)[:60]}`: {want} conversion(s) in the format literal")
                if not bad and not named and (have == want or (have is None and want == 1 and not isinstance(n.right, (ast.Tuple, ast.Starred))
                                                              and not any(a.kind == "tuple" for a in prog.infer(n.right, fn).alts()))):
                    site.discharged = "as many arguments as conversions in the literal"
                elif _in_try_catching(prog, n, ("TypeError", "ValueError")):
                    site.discharged = "inside try/except TypeError / ValueError"
                yield site
            else:
                lt = prog.infer(n.left, fn)
                vararg = fn.node.args.vararg.arg if getattr(fn.node.args, "vararg", None) is not None else None
                texty = any(a.kind == "str" for a in lt.alts()) or isinstance(n.left, ast.JoinedStr) or (isinstance(n.right, ast.Name) and n.right.id == vararg) \
                    or (lt.kind == "unknown" and isinstance(n.right, ast.Tuple))
                if texty:
                    site = Site(fn, n, norm_base(prog, fn, n.left), "format", f"`{u(n)[:60]}`: the format string is data, any '%' in it is read as a conversion")
                    if _in_try_catching(prog, n, ("TypeError", "ValueError")):
                        site.discharged = "inside try/except TypeError / ValueError"
                    yield site
        # ---- next() without default -----------------------------------------------------------
        if isinstance(n, ast.Call) and isinstance(n.func, ast.Name) and n.func.id == "next" and len(n.args) == 1:
            site = Site(fn, n, norm_base(prog, fn, n.args[0]), "next", f"`{u(n)[:60]}` without default")
            if _in_try_catching(prog, n, ("StopIteration",)):
                site.discharged = "inside try/except StopIteration"
            else:
                a = n.args[0]
                inner = a.args[0] if isinstance(a, ast.Call) and isinstance(a.func, ast.Name) and a.func.id == "iter" and a.args else None
                if inner is not None:
                    facts = fl.facts_for(n)
                    lo, _ = _len_facts(facts, {u(inner)} | {u(node.value) for kind, node in (prog.local_defs(fn, inner.id) if isinstance(inner, ast.Name) else []) if kind in ("assign", "walrus") and getattr(node, "value", None) is not None})
                    if lo >= 1:
                        site.discharged = "dominated by a non-empty proof"
            yield site
        # ---- optional dereference ----------------------------------------------------------------
        if isinstance(n, ast.Attribute) and isinstance(n.ctx, ast.Load):
            v = n.value
            opt_src = None
            if isinstance(v, ast.Call):
                nm = v.func.attr if isinstance(v.func, ast.Attribute) else v.func.id if isinstance(v.func, ast.Name) else ""
                if nm in OPTIONAL_NAV:
                    opt_src = f"{nm}()"
                else:
                    rt = prog.infer(v, fn)
                    if rt.is_optional():
                        opt_src = f"{nm}()"
            elif isinstance(v, ast.Name):
                defs = fl.reaching_defs(n, v.id)
                for kind, node in defs:
                    val = getattr(node, "value", None)
                    if kind in ("assign", "walrus") and isinstance(val, ast.Call):
                        nm = val.func.attr if isinstance(val.func, ast.Attribute) else val.func.id if isinstance(val.func, ast.Name) else ""
                        if nm in OPTIONAL_NAV or prog.infer(val, fn).is_optional():
                            opt_src = f"{nm}()"
                    elif kind == "assign" and isinstance(val, ast.Constant) and val.value is None:
                        opt_src = opt_src or "None-initialised"
                if opt_src is None:
                    pt = prog.param_type(fn, v.id)
                    if pt is not None and pt.is_optional():
                        opt_src = f"param:{v.id}"
            if opt_src is None:
                continue
            site = Site(fn, n, opt_src, "optional-deref", f"`{u(n)[:60]}` dereferences a value that may be None")
            facts = fl.facts_for(n)
            vt = u(v)
            if any((t == vt and p) or (t == f"{vt} is not None" and p) or (t == f"{vt} is None" and not p) or (t.startswith(f"isinstance({vt},") and p) for t, p in facts):
                site.discharged = "dominated by a not-None / truthiness / isinstance proof"
            elif _in_try_catching(prog, n, ("AttributeError",)):
                site.discharged = "inside try/except AttributeError"
            yield site

        # ---- possibly-None text handed to a name-taking constructor / the normaliser ---------------------------------------
        if isinstance(n, ast.Call) and n.args:
            callee = n.func.attr if isinstance(n.func, ast.Attribute) else n.func.id if isinstance(n.func, ast.Name) else ""
            if callee in NAME_TAKERS:
                a = n.args[0]
                srcs = [a]
                if isinstance(a, ast.Name):
                    srcs = [getattr(node, "value", None) for kind, node in fl.reaching_defs(n, a.id) if kind in ("assign", "walrus")]
                opt = None
                for v in srcs:
                    if isinstance(v, ast.Call):
                        nm = v.func.attr if isinstance(v.func, ast.Attribute) else v.func.id if isinstance(v.func, ast.Name) else ""
                        if nm in OPTIONAL_TEXT:
                            opt = f"{nm}()"
                if opt is not None:
                    site = Site(fn, n, opt, f"optional-arg:{callee}", f"`{u(n)[:60]}` hands a value that may be None to {callee}, which treats it as text")
                    facts = fl.facts_for(n)
                    at = u(a)
                    if any((t == at and p) or (t == f"{at} is not None" and p) or (t == f"{at} is None" and not p) for t, p in facts):
                        site.discharged = "dominated by a not-None / truthiness proof"
                    yield site
