"""Behaviour-preserving whole-tree rewrites used as global twins by the self-test: every check must stay silent on them."""

from __future__ import annotations

import ast
import importlib.util
import os

_spec = importlib.util.spec_from_file_location("alpha_rename", os.path.join(os.path.dirname(os.path.dirname(os.path.abspath(__file__))), "tools", "alpha_rename.py"))
_ar = importlib.util.module_from_spec(_spec)
_spec.loader.exec_module(_ar)


def alpha_rename_tree(root: str, suffix: str = "_r") -> int:
    """Rename every function-local variable under root/sqllineage."""
    total = 0
    for dirpath, _, fns in os.walk(os.path.join(root, "sqllineage")):
        for fn in fns:
            if fn.endswith(".py"):
                total += _ar.rename_file(os.path.join(dirpath, fn), suffix)
    return total


def unparse_tree(root: str) -> int:
    """Re-render every module with ast.unparse (drops comments, changes layout, quoting and line numbers)."""
    n = 0
    for dirpath, _, fns in os.walk(os.path.join(root, "sqllineage")):
        for fn in fns:
            if fn.endswith(".py"):
                p = os.path.join(dirpath, fn)
                src = open(p, encoding="utf-8").read()
                if src.strip():
                    open(p, "w", encoding="utf-8").write(ast.unparse(ast.parse(src)) + "\n")
                    n += 1
    return n
