"""Source normalisation applied to every module before the program model is built (pure AST -> AST, nothing is executed).

Purpose: the rules must give the same verdict on behaviour-identical spellings of the code.  Two families of refactoring change the
*shape* the rules see without changing behaviour, and both are undone here so that the rules only ever see one normal form:

N1  extract-method / inline-method of private helpers.  A helper is *absorbed* - its body is substituted at every call site and its
    definition removed - when it is private (leading underscore, not a dunder) or nested, every reference to it in the whole package
    is a direct call from its own class / module / enclosing function in a statement position the call can be hoisted out of, it is
    not recursive, not a generator, carries no decorator other than staticmethod/classmethod, and is not listed in KEEP (helpers the
    rules use as named anchors).  Parameters become local assignments (annotated when the parameter is annotated, so type inference is
    unaffected), the helper's locals get a unique suffix, `return e` becomes an assignment to a result variable; helpers with returns
    in non-tail position are wrapped in `try: ... except __inl_ret_N: pass` with `raise __inl_ret_N` at each return, a structured jump
    that the CFG builder models exactly (see cfg.py) and that every rule ignores (is_marker()).

N2  accumulator loops.  `for x in it: [if c:] acc.append(e)` (also .add / .extend / acc[k] = v directly after `acc = {}`) is the
    comprehension `acc.extend([e for x in it if c])` / `acc = [..]` written long-hand; loops of exactly this shape are rewritten to the
    comprehension form (and `acc += [comprehension]` to `acc.extend([comprehension])`).

The transformation is deterministic and keeps line numbers of the copied nodes, so reports still point at real source lines.
"""

from __future__ import annotations

import ast
import copy
from typing import Iterable, Optional

MARK = "__inl_ret_"
RES = "__inl_res_"

# private helpers that rules anchor on by name: never absorbed (their own callees still are)
KEEP: set[str] = set()


def is_marker(node: ast.AST) -> bool:
    """The synthetic try/raise pair that encodes a non-tail `return` of an absorbed helper."""
    if isinstance(node, ast.Raise):
        return isinstance(node.exc, ast.Name) and node.exc.id.startswith(MARK)
    if isinstance(node, ast.Try):
        return bool(node.handlers) and all(isinstance(h.type, ast.Name) and h.type.id.startswith(MARK) for h in node.handlers)
    if isinstance(node, ast.ExceptHandler):
        return isinstance(node.type, ast.Name) and node.type.id.startswith(MARK)
    return False


_SCOPE = (ast.FunctionDef, ast.AsyncFunctionDef, ast.Lambda, ast.ClassDef)
_COMP = (ast.ListComp, ast.SetComp, ast.DictComp, ast.GeneratorExp)


def _private(name: str) -> bool:
    return name.startswith("_") and not (name.startswith("__") and name.endswith("__"))


def _absorbable_name(name: str) -> bool:
    """Any function that is not a dunder may be a helper: whether it is one is decided by how it is referenced (only direct calls from
    inside the package) and by KEEP (names the rules anchor on), not by a leading underscore - maintainers extract public helpers too."""
    return not (name.startswith("__") and name.endswith("__"))


_rule_names_cache: Optional[set] = None


def names_used_by_rules() -> set[str]:
    """Every identifier that occurs inside a string literal of the analysis' own sources (rule modules, engines, known findings, allow
    tables): functions so named are anchors of some rule and are never absorbed.  Computed from /verif/sa itself, so the list cannot go
    stale when a rule is added."""
    global _rule_names_cache
    if _rule_names_cache is not None:
        return _rule_names_cache
    import os
    import re

    here = os.path.dirname(os.path.abspath(__file__))
    out: set[str] = set()
    ident = re.compile(r"[A-Za-z_][A-Za-z0-9_]*")
    for dirpath, _, files in os.walk(here):
        for fn in files:
            if fn.endswith(".py") and fn not in ("selftest.py",):
                try:
                    tree = ast.parse(open(os.path.join(dirpath, fn), encoding="utf-8").read())
                except SyntaxError:
                    continue
                for n in ast.walk(tree):
                    if isinstance(n, ast.Constant) and isinstance(n.value, str) and len(n.value) < 400:
                        out.update(ident.findall(n.value))
    kf = os.path.join(os.path.dirname(here), "known_findings.json")
    if os.path.exists(kf):
        import json

        for f in json.load(open(kf)).get("findings", []):
            if f.get("status", "known") == "known":
                out.update(ident.findall(f.get("key", "")))
    _rule_names_cache = out
    return out


class _Helper:
    def __init__(self, kind: str, name: str, node: ast.FunctionDef, modname: str, cls: Optional[ast.ClassDef], outer: Optional[ast.AST], container: list):
        self.kind = kind  # module | method | nested
        self.name = name
        self.node = node
        self.modname = modname
        self.cls = cls
        self.outer = outer
        self.container = container  # the statement list holding the def
        decos = [ast.unparse(d) for d in node.decorator_list]
        self.static = "staticmethod" in decos
        self.classm = "classmethod" in decos
        self.decos = decos
        self.reason: Optional[str] = None
        self.sites: list = []

    @property
    def qual(self) -> str:
        if self.kind == "method":
            return f"{self.modname}.{self.cls.name}.{self.name}"
        if self.kind == "nested":
            return f"{self.modname}.<nested>.{self.name}"
        return f"{self.modname}.{self.name}"


def _body_ok(h: _Helper) -> Optional[str]:
    fn = h.node
    if any(d not in ("staticmethod", "classmethod") for d in h.decos):
        return "decorated"
    a = fn.args
    if a.vararg:
        return "varargs"
    # a default that is an object built once (a container, a call) is shared by all calls: substituting the body would build it per call
    for d in list(a.defaults) + [x for x in a.kw_defaults if x is not None]:
        if not (isinstance(d, (ast.Constant, ast.Name, ast.Attribute)) or (isinstance(d, ast.Tuple) and not d.elts) or (isinstance(d, ast.UnaryOp) and isinstance(d.operand, ast.Constant))):
            return "default argument evaluated once"
    for n in ast.walk(fn):
        if n is fn:
            continue
        if isinstance(n, (ast.Yield, ast.YieldFrom, ast.Await)):
            return "generator"
        if isinstance(n, (ast.Global, ast.Nonlocal)):
            return "global/nonlocal"
        if isinstance(n, (ast.FunctionDef, ast.AsyncFunctionDef, ast.ClassDef)):
            return "nested definitions"
        if isinstance(n, ast.Name) and n.id == h.name and h.kind != "method":
            return "recursive"
        if isinstance(n, ast.Attribute) and n.attr == h.name and h.kind == "method":
            return "recursive"
        if isinstance(n, ast.Call) and isinstance(n.func, ast.Name) and n.func.id in ("locals", "vars", "super") and not n.args:
            if n.func.id != "super":
                return "introspection"
    return None


def _parents(tree: ast.AST) -> dict[int, ast.AST]:
    p: dict[int, ast.AST] = {}
    for n in ast.walk(tree):
        for c in ast.iter_child_nodes(n):
            p[id(c)] = n
    return p


def _hoistable(call: ast.Call, parents: dict[int, ast.AST]) -> Optional[tuple[ast.stmt, ast.AST]]:
    """Returns (innermost statement containing the call, enclosing function) when the call is evaluated unconditionally and exactly once
    whenever that statement starts executing; None otherwise."""
    node: ast.AST = call
    while True:
        par = parents.get(id(node))
        if par is None:
            return None
        if isinstance(par, ast.Lambda) or isinstance(par, _COMP):
            # the first iterable of a comprehension is evaluated immediately, everything else is not
            if isinstance(par, _COMP):
                return None
            return None
        if isinstance(par, ast.comprehension):
            gens = parents.get(id(par))
            if not (isinstance(gens, _COMP) and gens.generators[0] is par and par.iter is node):
                return None
            node = gens
            continue
        if isinstance(par, ast.IfExp) and node is not par.test:
            return None
        if isinstance(par, ast.BoolOp) and par.values[0] is not node:
            return None
        if isinstance(par, ast.stmt):
            if isinstance(par, (ast.FunctionDef, ast.AsyncFunctionDef, ast.ClassDef)):
                return None  # decorator / default / class-level
            if isinstance(par, ast.While):
                return None
            if isinstance(par, (ast.If,)) and node is not par.test:
                return None
            if isinstance(par, (ast.For, ast.AsyncFor)) and node is not par.iter:
                return None
            if isinstance(par, (ast.With, ast.AsyncWith)):
                return None
            if isinstance(par, ast.Try):
                return None
            if par.__class__.__name__ == "Match":
                return None
            if isinstance(par, ast.withitem):
                return None
            # enclosing function
            f = par
            while f is not None and not isinstance(f, (ast.FunctionDef, ast.AsyncFunctionDef)):
                if isinstance(f, (ast.Lambda, ast.ClassDef)):
                    return None
                f = parents.get(id(f))
            if f is None:
                return None
            return par, f
        if isinstance(par, (ast.withitem, ast.ExceptHandler, ast.match_case if hasattr(ast, "match_case") else ())):
            return None
        node = par


def _stmt_lists(node: ast.AST) -> Iterable[list]:
    for fld in ("body", "orelse", "finalbody"):
        v = getattr(node, fld, None)
        if isinstance(v, list) and v and isinstance(v[0], ast.stmt):
            yield v
    for h in getattr(node, "handlers", []) or []:
        yield h.body
    for c in getattr(node, "cases", []) or []:
        yield c.body


def _find_list(root: ast.AST, stmt: ast.stmt) -> Optional[list]:
    for n in ast.walk(root):
        for lst in _stmt_lists(n):
            if any(s is stmt for s in lst):
                return lst
    return None


def _bound_names(fn: ast.FunctionDef) -> set[str]:
    a = fn.args
    names = {x.arg for x in a.posonlyargs + a.args + a.kwonlyargs}
    if a.kwarg:
        names.add(a.kwarg.arg)
    imported: set[str] = set()
    for n in ast.walk(fn):
        if isinstance(n, ast.Name) and isinstance(n.ctx, (ast.Store, ast.Del)):
            names.add(n.id)
        elif isinstance(n, ast.ExceptHandler) and n.name:
            names.add(n.name)
        elif isinstance(n, (ast.Import, ast.ImportFrom)):
            for al in n.names:
                imported.add((al.asname or al.name).split(".")[0])
    return names - imported


def _ends_open(body: list[ast.stmt]) -> bool:
    """May control fall off the end of this statement list?"""
    if not body:
        return True
    last = body[-1]
    if isinstance(last, (ast.Return, ast.Raise)):
        return False
    if isinstance(last, ast.If):
        return _ends_open(last.body) or _ends_open(last.orelse)
    if isinstance(last, ast.Try):
        if last.finalbody and not _ends_open(last.finalbody):
            return False
        return _ends_open(last.orelse or last.body) or any(_ends_open(h.body) for h in last.handlers)
    if isinstance(last, (ast.With, ast.AsyncWith)):
        return _ends_open(last.body)
    return True


class _Counter:
    def __init__(self):
        self.n = 0

    def next(self) -> int:
        self.n += 1
        return self.n


def _always_returns(stmts: list[ast.stmt]) -> bool:
    if not stmts:
        return False
    last = stmts[-1]
    if isinstance(last, (ast.Return, ast.Raise)):
        return True
    if isinstance(last, ast.If):
        return bool(last.orelse) and _always_returns(last.body) and _always_returns(last.orelse)
    return False


def _structure_returns(stmts: list[ast.stmt], ret_assign, res: str) -> Optional[list[ast.stmt]]:
    """Guard-clause style bodies (`if c: return a` ... `return b`) as nested if/else with the result assigned in each branch - no jump needed.
    None when a return sits inside a loop / with / try (then the structured jump of N1 is used)."""
    out: list[ast.stmt] = []
    for i, st in enumerate(stmts):
        if isinstance(st, ast.Return):
            out.append(ret_assign(st))
            return out
        has_ret = any(isinstance(n, ast.Return) for n in ast.walk(st))
        if not has_ret:
            out.append(st)
            continue
        if not isinstance(st, ast.If):
            return None
        rest = stmts[i + 1:]
        if _always_returns(st.body):
            b = _structure_returns(st.body, ret_assign, res)
            e = _structure_returns(st.orelse + rest, ret_assign, res)
        elif st.orelse and _always_returns(st.orelse):
            b = _structure_returns(st.body + rest, ret_assign, res)
            e = _structure_returns(st.orelse, ret_assign, res)
        else:
            return None
        if b is None or e is None:
            return None
        out.append(ast.copy_location(ast.If(test=st.test, body=b or [ast.Pass()], orelse=e), st))
        return out
    # control falls off the end: the helper returns None
    out.append(ast.Assign(targets=[ast.Name(id=res, ctx=ast.Store())], value=ast.Constant(value=None)))
    return out


def _inline(h: _Helper, call: ast.Call, stmt: ast.stmt, lst: list, k: int, recv: Optional[ast.expr]) -> bool:
    """Replace `call` (inside `stmt`, member of statement list `lst`) by the helper's body.  Returns False when the binding fails."""
    fn = h.node
    a = fn.args
    params = [x for x in a.posonlyargs + a.args]
    kwonly = list(a.kwonlyargs)
    sfx = f"__i{k}"
    pre: list[ast.stmt] = []
    rename = {n: n + sfx for n in _bound_names(fn)}
    # receiver
    if h.kind == "method" and not h.static:
        if not params:
            return False
        p0 = params[0].arg
        params = params[1:]
        if h.classm and isinstance(recv, ast.Name) and recv.id == p0:
            rename.pop(p0, None)  # cls stays cls
        elif h.classm:
            if isinstance(recv, ast.Name) and recv.id == "self":
                val: ast.expr = ast.Call(func=ast.Name(id="type", ctx=ast.Load()), args=[ast.Name(id="self", ctx=ast.Load())], keywords=[])
            else:
                val = copy.deepcopy(recv)
            pre.append(ast.Assign(targets=[ast.Name(id=rename[p0], ctx=ast.Store())], value=val))
        elif isinstance(recv, ast.Name) and recv.id == p0:
            rename.pop(p0, None)  # self stays self
        else:
            pre.append(ast.Assign(targets=[ast.Name(id=rename[p0], ctx=ast.Store())], value=copy.deepcopy(recv)))
    # arguments
    if any(isinstance(x, ast.Starred) for x in call.args):
        return False
    passthrough = [kw for kw in call.keywords if kw.arg is None]
    if passthrough:
        # `**kwargs` handed on to a helper that takes `**kwargs`: the helper's dictionary is the caller's (never re-bound by the helper)
        if len(passthrough) != 1 or a.kwarg is None or not isinstance(passthrough[0].value, ast.Name):
            return False
        if any(isinstance(n, ast.Name) and n.id == a.kwarg.arg and isinstance(n.ctx, (ast.Store, ast.Del)) for st_ in fn.body for n in ast.walk(st_)):
            return False
        rename[a.kwarg.arg] = passthrough[0].value.id
    elif a.kwarg is not None:
        # called without **: the helper sees an empty dictionary
        pre.append(ast.Assign(targets=[ast.Name(id=rename.get(a.kwarg.arg, a.kwarg.arg + sfx), ctx=ast.Store())], value=ast.Dict(keys=[], values=[])))
        rename.setdefault(a.kwarg.arg, a.kwarg.arg + sfx)
    if len(call.args) > len(params):
        return False
    bound: dict[str, ast.expr] = {}
    for p, v in zip(params, call.args):
        bound[p.arg] = v
    names = {p.arg for p in params} | {p.arg for p in kwonly}
    for kw in call.keywords:
        if kw.arg is None:
            continue
        if kw.arg not in names or kw.arg in bound:
            return False
        bound[kw.arg] = kw.value
    defaults = dict(zip([p.arg for p in params][len(params) - len(a.defaults):], a.defaults)) if a.defaults else {}
    # positional defaults are aligned to the *full* positional list
    allpos = [x.arg for x in a.posonlyargs + a.args]
    defaults = dict(zip(allpos[len(allpos) - len(a.defaults):], a.defaults)) if a.defaults else {}
    for p, d in zip(kwonly, a.kw_defaults):
        if d is not None:
            defaults[p.arg] = d
    rebound_in_body = {n.id for st_ in fn.body for n in ast.walk(st_) if isinstance(n, ast.Name) and isinstance(n.ctx, (ast.Store, ast.Del))}
    for p in params + kwonly:
        if p.arg in bound:
            v = copy.deepcopy(bound[p.arg])
        elif p.arg in defaults:
            v = copy.deepcopy(defaults[p.arg])
        else:
            return False
        if isinstance(v, ast.Name) and p.arg in bound and p.arg not in rebound_in_body:
            # the argument is a plain variable of the caller and the helper never re-binds the parameter: the parameter *is* that variable
            # (what the caller knows about it - guards, types - stays attached to the one name)
            rename[p.arg] = v.id
            continue
        tgt = ast.Name(id=rename[p.arg], ctx=ast.Store())
        asg = ast.Assign(targets=[tgt], value=v)
        if p.annotation is not None:
            asg._ann = copy.deepcopy(p.annotation)  # type: ignore[attr-defined]
        pre.append(asg)
    # body
    body = copy.deepcopy(fn.body)
    if body and isinstance(body[0], ast.Expr) and isinstance(body[0].value, ast.Constant) and isinstance(body[0].value.value, str):
        body = body[1:]

    class Ren(ast.NodeTransformer):
        def visit_Name(self, node):
            if node.id in rename:
                node.id = rename[node.id]
            return node

        def visit_arg(self, node):
            if node.arg in rename:
                node.arg = rename[node.arg]
            return node

        def visit_ExceptHandler(self, node):
            if node.name and node.name in rename:
                node.name = rename[node.name]
            self.generic_visit(node)
            return node

    body = [Ren().visit(s) for s in body]
    res = f"{RES}{k}"
    returns = [n for s in body for n in ast.walk(s) if isinstance(n, ast.Return)]
    tail_only = len(returns) == 0 or (len(returns) == 1 and body and body[-1] is returns[0])

    def ret_assign(r: ast.Return) -> ast.stmt:
        val = r.value if r.value is not None else ast.Constant(value=None)
        asg = ast.copy_location(ast.Assign(targets=[ast.Name(id=res, ctx=ast.Store())], value=val), r)
        if fn.returns is not None:
            asg._ann = copy.deepcopy(fn.returns)  # type: ignore[attr-defined]  # the declared return type stays known to type inference
        return asg

    structured = None
    if not tail_only:
        structured = _structure_returns(body, ret_assign, res)
    if structured is not None:
        new = pre + structured
    elif tail_only:
        if returns:
            body[-1] = ret_assign(returns[0])
        elif not (isinstance(stmt, ast.Expr) and stmt.value is call):
            body.append(ast.Assign(targets=[ast.Name(id=res, ctx=ast.Store())], value=ast.Constant(value=None)))
        new = pre + body
    elif structured is None:
        mark = f"{MARK}{k}"

        class Ret(ast.NodeTransformer):
            def _block(self, stmts):
                out = []
                for s in stmts:
                    if isinstance(s, ast.Return):
                        out.append(ret_assign(s))
                        out.append(ast.copy_location(ast.Raise(exc=ast.Name(id=mark, ctx=ast.Load()), cause=None), s))
                    else:
                        out.append(self.visit(s))
                return out

            def generic_visit(self, node):
                for fld in ("body", "orelse", "finalbody"):
                    v = getattr(node, fld, None)
                    if isinstance(v, list) and v and isinstance(v[0], ast.stmt):
                        setattr(node, fld, self._block(v))
                for hd in getattr(node, "handlers", []) or []:
                    hd.body = self._block(hd.body)
                for c in getattr(node, "cases", []) or []:
                    c.body = self._block(c.body)
                return node

        r = Ret()
        trailing = body[-1] if body and isinstance(body[-1], ast.Return) else None
        body = r._block(body)
        if trailing is not None:
            body.pop()  # the jump after the last statement of the block is a no-op
        if _ends_open(fn.body):
            body.append(ast.Assign(targets=[ast.Name(id=res, ctx=ast.Store())], value=ast.Constant(value=None)))
        new = pre + [ast.Try(body=body or [ast.Pass()], handlers=[ast.ExceptHandler(type=ast.Name(id=mark, ctx=ast.Load()), name=None, body=[ast.Pass()])], orelse=[], finalbody=[])]
    # replace the call by the result variable
    class Rep(ast.NodeTransformer):
        def visit(self, node):
            if node is call:
                return ast.copy_location(ast.Name(id=res, ctx=ast.Load()), call)
            return super().visit(node)

    idx = next(i for i, s in enumerate(lst) if s is stmt)
    if isinstance(stmt, ast.Expr) and stmt.value is call:
        lst[idx:idx + 1] = new
    else:
        # only the header of a compound statement may contain the call (checked by _hoistable)
        for fld in ("test", "iter", "value", "targets", "target", "exc", "cause", "msg", "annotation"):
            v = getattr(stmt, fld, None)
            if isinstance(v, ast.AST):
                setattr(stmt, fld, Rep().visit(v))
            elif isinstance(v, list):
                setattr(stmt, fld, [Rep().visit(x) if isinstance(x, ast.AST) else x for x in v])
        lst[idx:idx] = new
    for s in new:
        for n in ast.walk(s):
            if not hasattr(n, "lineno") and isinstance(n, (ast.stmt, ast.expr, ast.ExceptHandler)):
                n.lineno = getattr(stmt, "lineno", 1)
                n.col_offset = getattr(stmt, "col_offset", 0)
                n.end_lineno = getattr(stmt, "end_lineno", n.lineno)
                n.end_col_offset = getattr(stmt, "end_col_offset", 0)
    return True


def _unfold_comprehension_statements(trees: dict[str, ast.Module], names: set[str]) -> int:
    """A comprehension that calls a helper in its element or filter evaluates the call once per element: written as the loop it
    abbreviates (`acc.extend([f(x) for x in xs if c])` -> `for x in xs: if c: acc.append(f(x))`) the call sits in a statement position it
    can be hoisted out of.  Done only for statements whose comprehension mentions one of `names` (candidates for absorption); N2 folds the
    loop back afterwards when nothing was substituted."""
    n = 0

    def mentions(comp: ast.AST) -> bool:
        parts = [comp.key, comp.value] if isinstance(comp, ast.DictComp) else [comp.elt]
        for g in comp.generators:
            parts += g.ifs
        for g in comp.generators[1:]:
            parts.append(g.iter)
        for part in parts:
            for k in ast.walk(part):
                if isinstance(k, ast.Call):
                    nm = k.func.id if isinstance(k.func, ast.Name) else k.func.attr if isinstance(k.func, ast.Attribute) else None
                    if nm in names:
                        return True
        return False

    def loops(comp: ast.AST, leaf: ast.stmt, at: ast.AST) -> ast.stmt:
        body: ast.stmt = leaf
        for g in reversed(comp.generators):
            for c in reversed(g.ifs):
                body = ast.copy_location(ast.If(test=c, body=[body], orelse=[]), at)
            tgt = copy.deepcopy(g.target)
            for x in ast.walk(tgt):
                if hasattr(x, "ctx"):
                    x.ctx = ast.Store()
            body = ast.copy_location(ast.For(target=tgt, iter=g.iter, body=[body], orelse=[], type_comment=None), at)
        return body

    for tree in trees.values():
        for node in ast.walk(tree):
            if not isinstance(node, (ast.FunctionDef, ast.AsyncFunctionDef, ast.For, ast.While, ast.If, ast.With, ast.Try, ast.ExceptHandler)):
                continue
            for lst in _stmt_lists(node):
                i = 0
                while i < len(lst):
                    st = lst[i]
                    new: Optional[list[ast.stmt]] = None
                    if isinstance(st, ast.Expr) and isinstance(st.value, ast.Call) and isinstance(st.value.func, ast.Attribute) and st.value.func.attr in ("extend", "update") \
                            and len(st.value.args) == 1 and not st.value.keywords and isinstance(st.value.args[0], (ast.ListComp, ast.GeneratorExp, ast.SetComp)) \
                            and any(g.is_async == 0 for g in st.value.args[0].generators) and mentions(st.value.args[0]) and isinstance(st.value.func.value, (ast.Name, ast.Attribute)):
                        comp = st.value.args[0]
                        meth = "append" if st.value.func.attr == "extend" else "add"
                        leaf = ast.Expr(value=ast.Call(func=ast.Attribute(value=copy.deepcopy(st.value.func.value), attr=meth, ctx=ast.Load()), args=[comp.elt], keywords=[]))
                        ast.copy_location(leaf, st)
                        new = [loops(comp, leaf, st)]
                    elif isinstance(st, ast.Assign) and len(st.targets) == 1 and isinstance(st.targets[0], ast.Name) and isinstance(st.value, (ast.ListComp, ast.SetComp, ast.DictComp)) and mentions(st.value) \
                            and not _mentions(st.value, st.targets[0]):
                        comp = st.value
                        acc = st.targets[0].id
                        if isinstance(comp, ast.ListComp):
                            init: ast.expr = ast.List(elts=[], ctx=ast.Load())
                            leaf = ast.Expr(value=ast.Call(func=ast.Attribute(value=ast.Name(id=acc, ctx=ast.Load()), attr="append", ctx=ast.Load()), args=[comp.elt], keywords=[]))
                        elif isinstance(comp, ast.SetComp):
                            init = ast.Call(func=ast.Name(id="set", ctx=ast.Load()), args=[], keywords=[])
                            leaf = ast.Expr(value=ast.Call(func=ast.Attribute(value=ast.Name(id=acc, ctx=ast.Load()), attr="add", ctx=ast.Load()), args=[comp.elt], keywords=[]))
                        else:
                            init = ast.Dict(keys=[], values=[])
                            leaf = ast.Assign(targets=[ast.Subscript(value=ast.Name(id=acc, ctx=ast.Load()), slice=comp.key, ctx=ast.Store())], value=comp.value)
                        ast.copy_location(leaf, st)
                        first = ast.copy_location(ast.Assign(targets=[ast.Name(id=acc, ctx=ast.Store())], value=init), st)
                        if hasattr(st, "_ann"):
                            first._ann = st._ann  # type: ignore[attr-defined]
                        new = [first, loops(comp, leaf, st)]
                    if new is not None:
                        lst[i:i + 1] = new
                        n += 1
                        i += len(new)
                    else:
                        i += 1
        ast.fix_missing_locations(tree)
    return n


def _expr_body(h: _Helper) -> Optional[ast.expr]:
    """The expression of a helper whose whole body is `return <expr>` (after an optional docstring)."""
    body = h.node.body
    if body and isinstance(body[0], ast.Expr) and isinstance(body[0].value, ast.Constant) and isinstance(body[0].value.value, str):
        body = body[1:]
    if len(body) == 1 and isinstance(body[0], ast.Return) and body[0].value is not None:
        e = body[0].value
        if not any(isinstance(n, (ast.NamedExpr, ast.Lambda, ast.Yield, ast.YieldFrom, ast.Await)) for n in ast.walk(e)):
            return e
    return None


def _inline_expr(h: _Helper, call: ast.Call, root: ast.AST, recv: Optional[ast.expr]) -> bool:
    """Replace `call` (anywhere below `root`, also inside comprehensions / lambdas / short-circuit operands) by the helper's expression with
    the parameters replaced by the arguments.  Only for arguments that are cheap and pure to repeat (names, constants, attribute chains) or
    parameters that occur once."""
    e = _expr_body(h)
    if e is None:
        return False
    a = h.node.args
    params = [x.arg for x in a.posonlyargs + a.args]
    if h.kind == "method" and not h.static:
        if not params:
            return False
        self_name = params[0]
        params = params[1:]
        if not (isinstance(recv, ast.Name) and recv.id == self_name) and not h.classm:
            return False
        if h.classm and not (isinstance(recv, ast.Name) and recv.id == self_name):
            return False
    if a.vararg or a.kwarg or a.kwonlyargs or any(isinstance(x, ast.Starred) for x in call.args) or any(kw.arg is None for kw in call.keywords):
        return False
    bound: dict[str, ast.expr] = dict(zip(params, call.args))
    if len(call.args) > len(params):
        return False
    for kw in call.keywords:
        if kw.arg not in params or kw.arg in bound:
            return False
        bound[kw.arg] = kw.value
    defaults = dict(zip(params[len(params) - len(a.defaults):], a.defaults)) if a.defaults else {}
    for pn in params:
        if pn not in bound:
            if pn not in defaults:
                return False
            bound[pn] = defaults[pn]
    uses = {pn: len([n for n in ast.walk(e) if isinstance(n, ast.Name) and n.id == pn]) for pn in params}

    def cheap(x: ast.AST) -> bool:
        return isinstance(x, (ast.Name, ast.Constant)) or (isinstance(x, ast.Attribute) and cheap(x.value))

    if any(uses[pn] > 1 and not cheap(bound[pn]) for pn in params):
        return False
    # names bound inside the expression (comprehension targets) must not capture names of the arguments
    inner_bound = {n.id for n in ast.walk(e) if isinstance(n, ast.Name) and isinstance(n.ctx, ast.Store)}
    if inner_bound & {n.id for v in bound.values() for n in ast.walk(v) if isinstance(n, ast.Name)}:
        return False
    new = copy.deepcopy(e)

    class Sub(ast.NodeTransformer):
        def visit_Name(self, node):
            if node.id in bound and isinstance(node.ctx, ast.Load):
                return copy.deepcopy(bound[node.id])
            return node

    new = Sub().visit(new)
    ast.copy_location(new, call)

    class Rep(ast.NodeTransformer):
        done = False

        def visit(self, node):
            if node is call:
                Rep.done = True
                return new
            return super().visit(node)

    Rep.done = False
    Rep().visit(root)
    return Rep.done


def absorb_helpers(trees: dict[str, ast.Module], keep: Iterable[str] = ()) -> dict:
    """N1.  `trees`: module name -> ast.Module (mutated in place)."""
    keep = set(keep) | KEEP | names_used_by_rules()
    stats = {"absorbed": [], "rejected": {}}
    ctr = _Counter()
    for _round in range(6):  # innermost helpers first; a round may make their callers absorbable
        helpers: list[_Helper] = []
        for modname, tree in trees.items():
            for st in tree.body:
                if isinstance(st, ast.FunctionDef) and _absorbable_name(st.name):
                    helpers.append(_Helper("module", st.name, st, modname, None, None, tree.body))
                elif isinstance(st, ast.ClassDef):
                    for m in st.body:
                        if isinstance(m, ast.FunctionDef) and _absorbable_name(m.name):
                            helpers.append(_Helper("method", m.name, m, modname, st, None, st.body))
            for f in ast.walk(tree):
                if isinstance(f, (ast.FunctionDef, ast.AsyncFunctionDef)):
                    for s in f.body:
                        if isinstance(s, ast.FunctionDef):
                            helpers.append(_Helper("nested", s.name, s, modname, None, f, f.body))
        cand_names = {h.name for h in helpers if h.name not in keep and h.qual not in keep and _body_ok(h) is None}
        stats["comprehensions_unfolded_for_absorption"] = stats.get("comprehensions_unfolded_for_absorption", 0) + _unfold_comprehension_statements(trees, cand_names)
        # repo-wide reference indexes
        attr_refs: dict[str, list[tuple[str, ast.Attribute]]] = {}
        name_refs: dict[tuple[str, str], list[ast.Name]] = {}
        defs_by_name: dict[str, int] = {}
        strings: set[str] = set()
        imported: set[str] = set()
        for modname, tree in trees.items():
            for n in ast.walk(tree):
                if isinstance(n, ast.Attribute):
                    attr_refs.setdefault(n.attr, []).append((modname, n))
                elif isinstance(n, ast.Name):
                    name_refs.setdefault((modname, n.id), []).append(n)
                elif isinstance(n, ast.Constant) and isinstance(n.value, str):
                    strings.add(n.value)
                elif isinstance(n, ast.ImportFrom):
                    for al in n.names:
                        imported.add(al.name)
                elif isinstance(n, ast.ClassDef):
                    for m in n.body:
                        if isinstance(m, (ast.FunctionDef, ast.AsyncFunctionDef)):
                            defs_by_name[m.name] = defs_by_name.get(m.name, 0) + 1
                        elif isinstance(m, ast.Assign):
                            for t in m.targets:
                                if isinstance(t, ast.Name):
                                    defs_by_name[t.id] = defs_by_name.get(t.id, 0) + 1
        parents = {m: _parents(t) for m, t in trees.items()}
        todo: list[_Helper] = []
        for h in helpers:
            if h.name in keep or h.qual in keep:
                h.reason = "kept (rule anchor)"
                continue
            h.reason = _body_ok(h)
            if h.reason:
                continue
            par = parents[h.modname]
            sites = []
            if h.name in strings:
                h.reason = "referenced by string"
                continue
            if h.kind == "method":
                if defs_by_name.get(h.name, 0) != 1:
                    h.reason = "name defined in several classes"
                    continue
                if any(nm == h.name for (_, nm) in name_refs):
                    h.reason = "referenced as a bare name"
                    continue
                for modname, at in attr_refs.get(h.name, []):
                    call = parents[modname].get(id(at))
                    if modname != h.modname or not (isinstance(call, ast.Call) and call.func is at):
                        h.reason = "referenced other than by a direct call in its module"
                        break
                    if not (isinstance(at.value, ast.Name) and at.value.id in ("self", "cls", h.cls.name)):
                        h.reason = "called on a receiver other than self/cls/the class"
                        break
                    hs = _hoistable(call, par)
                    if hs is None and _expr_body(h) is not None:
                        encl_ = call
                        while encl_ is not None and not isinstance(encl_, (ast.FunctionDef, ast.AsyncFunctionDef)):
                            encl_ = par.get(id(encl_))
                        hs = (None, encl_) if encl_ is not None else None
                    if hs is None:
                        h.reason = "called in a position that cannot be hoisted"
                        break
                    stmt, encl = hs
                    # the caller must be a method of the same class (so that self means the same object)
                    c = encl
                    while c is not None and not isinstance(c, ast.ClassDef):
                        c = par.get(id(c))
                    if c is not h.cls:
                        h.reason = "called from outside its class"
                        break
                    if at.value.id == "self" and not h.static and not h.classm:
                        ea = encl.args.posonlyargs + encl.args.args
                        if not ea or ea[0].arg != "self" or par.get(id(encl)) is not h.cls:
                            h.reason = "self is not the caller's receiver"
                            break
                    if at.value.id != "self" and not (h.static or h.classm):
                        h.reason = "unbound call of an instance method"
                        break
                    sites.append((call, stmt, encl, at.value))
            else:
                if h.kind == "module" and (h.name in imported or h.name in attr_refs):
                    h.reason = "imported / referenced from another module"
                    continue
                scope = h.outer if h.kind == "nested" else trees[h.modname]
                inscope = {id(n) for n in ast.walk(scope)}
                for nm in name_refs.get((h.modname, h.name), []):
                    if id(nm) not in inscope:
                        if h.kind == "nested":
                            continue
                    if isinstance(nm.ctx, ast.Store):
                        h.reason = "name re-bound"
                        break
                    call = par.get(id(nm))
                    if not (isinstance(call, ast.Call) and call.func is nm):
                        h.reason = "referenced other than by a direct call"
                        break
                    hs = _hoistable(call, par)
                    if hs is None and _expr_body(h) is not None:
                        encl_ = call
                        while encl_ is not None and not isinstance(encl_, (ast.FunctionDef, ast.AsyncFunctionDef)):
                            encl_ = par.get(id(encl_))
                        hs = (None, encl_) if encl_ is not None else None
                    if hs is None:
                        h.reason = "called in a position that cannot be hoisted"
                        break
                    stmt, encl = hs
                    if h.kind == "nested" and encl is not h.outer:
                        h.reason = "called from another nested scope"
                        break
                    sites.append((call, stmt, encl, None))
            if h.reason:
                continue
            if not sites:
                h.reason = "never called"
                continue
            h.sites = sites
            todo.append(h)
        for h in helpers:
            if h.reason:
                stats["rejected"][h.qual] = h.reason
        if not todo:
            break
        # helpers whose body still calls another absorbable helper wait for the next round
        names = {h.name for h in todo}
        ready = [h for h in todo if not any((isinstance(n, ast.Name) and n.id in names) or (isinstance(n, ast.Attribute) and n.attr in names) for n in ast.walk(h.node) if n is not h.node)]
        if not ready:
            break
        for h in ready:
            ok = True
            done = []
            for call, stmt, encl, recv in h.sites:
                if stmt is None:
                    if not _inline_expr(h, call, encl, recv):
                        ok = False
                        break
                    done.append(call)
                    continue
                lst = _find_list(encl, stmt)
                if lst is None or not _inline(h, call, stmt, lst, ctr.next(), recv):
                    ok = False
                    break
                done.append(call)
            if ok:
                h.container[:] = [s for s in h.container if s is not h.node] or [ast.Pass()]
                stats["absorbed"].append(f"{h.qual} ({len(h.sites)} site(s))")
                stats["rejected"].pop(h.qual, None)
            else:
                # partial inlining is harmless for the sites already done (the helper stays defined), but record it
                stats["rejected"][h.qual] = "argument binding failed at a call site"
                KEEP.add(h.qual)
    return stats


# --------------------------------------------------------------------------------------------------------------------------
# N2 accumulator loops
# --------------------------------------------------------------------------------------------------------------------------


def _mentions(part: ast.AST, acc: ast.AST) -> bool:
    """Does expression `part` read the accumulator `acc` (a Name or an attribute chain)?"""
    if isinstance(acc, ast.Name):
        return any(isinstance(n, ast.Name) and n.id == acc.id for n in ast.walk(part))
    accs = ast.unparse(acc)
    return any(isinstance(n, ast.Attribute) and ast.unparse(n) == accs for n in ast.walk(part))


def _acc_loop(st: ast.stmt) -> Optional[tuple[str, ast.expr, ast.expr, list[ast.comprehension]]]:
    """`for x in it: [if c:]* acc.append(e)` -> (method, acc expr, element expr, generators)"""
    if not isinstance(st, ast.For) or st.orelse:
        return None
    gens = [ast.comprehension(target=st.target, iter=st.iter, ifs=[], is_async=0)]
    body = st.body
    while True:
        if len(body) == 2 and isinstance(body[0], ast.Assign) and len(body[0].targets) == 1 and isinstance(body[0].targets[0], ast.Name) and isinstance(body[1], ast.If) and not body[1].orelse:
            # `t = V` directly followed by `if t ...:` is `if (t := V) ...:`
            t = body[0].targets[0].id
            test = copy.deepcopy(body[1].test)
            holder, fld, idx = None, None, None
            cur = test
            parent: Optional[tuple] = None
            while True:
                if isinstance(cur, ast.BoolOp):
                    parent, cur = (cur, "values", 0), cur.values[0]
                elif isinstance(cur, ast.UnaryOp) and isinstance(cur.op, ast.Not):
                    parent, cur = (cur, "operand", None), cur.operand
                elif isinstance(cur, ast.Compare):
                    parent, cur = (cur, "left", None), cur.left
                else:
                    break
            if isinstance(cur, ast.Name) and cur.id == t and not any(isinstance(n, ast.Name) and n.id == t for n in ast.walk(body[0].value)):
                wal = ast.copy_location(ast.NamedExpr(target=ast.Name(id=t, ctx=ast.Store()), value=body[0].value), cur)
                if parent is None:
                    test = wal
                else:
                    pn, pf, pi = parent
                    if pi is None:
                        setattr(pn, pf, wal)
                    else:
                        getattr(pn, pf)[pi] = wal
                body = [ast.copy_location(ast.If(test=test, body=body[1].body, orelse=[]), body[1])]
            else:
                return None
        if len(body) != 1:
            return None
        s = body[0]
        if isinstance(s, ast.If) and not s.orelse:
            gens[-1].ifs.append(s.test)
            body = s.body
            continue
        if isinstance(s, ast.For) and not s.orelse:
            gens.append(ast.comprehension(target=s.target, iter=s.iter, ifs=[], is_async=0))
            body = s.body
            continue
        break
    if isinstance(s, ast.Expr) and isinstance(s.value, ast.Call) and isinstance(s.value.func, ast.Attribute) and s.value.func.attr in ("append", "add") \
            and len(s.value.args) == 1 and not s.value.keywords and isinstance(s.value.func.value, (ast.Name, ast.Attribute)):
        acc = s.value.func.value
        # the accumulator must not be read by the loop itself
        for g in gens:
            for part in [g.iter] + g.ifs:
                if _mentions(part, acc):
                    return None
        if _mentions(s.value.args[0], acc):
            return None
        # (a walrus in a filter binds in the enclosing function in both spellings, so it does not prevent folding)
        return s.value.func.attr, acc, s.value.args[0], gens
    if isinstance(s, ast.Assign) and len(s.targets) == 1 and isinstance(s.targets[0], ast.Subscript) and isinstance(s.targets[0].value, (ast.Name, ast.Attribute)) and not isinstance(s.targets[0].slice, ast.Slice):
        acc = s.targets[0].value
        for g in gens:
            for part in [g.iter] + g.ifs:
                if _mentions(part, acc):
                    return None
        if _mentions(s.value, acc) or _mentions(s.targets[0].slice, acc):
            return None
        return "setitem", acc, (s.targets[0].slice, s.value), gens
    return None


def _empty_init(st: ast.stmt) -> Optional[tuple[str, str]]:
    """`x = []` / `x = list()` / `x = {}` / `x = dict()` / `x = set()` -> (name, kind)"""
    if isinstance(st, ast.Assign) and len(st.targets) == 1 and isinstance(st.targets[0], ast.Name):
        v = st.value
        if isinstance(v, ast.List) and not v.elts:
            return st.targets[0].id, "list"
        if isinstance(v, ast.Dict) and not v.keys:
            return st.targets[0].id, "dict"
        if isinstance(v, ast.Call) and isinstance(v.func, ast.Name) and not v.args and not v.keywords and v.func.id in ("list", "dict", "set"):
            return st.targets[0].id, v.func.id
    return None


def fold_accumulator_loops(tree: ast.Module) -> int:
    n = 0
    for node in ast.walk(tree):
        for lst in _stmt_lists(node):
            i = 0
            while i < len(lst):
                st = lst[i]
                m = _acc_loop(st)
                if m is not None:
                    meth, acc, elt, gens = m
                    comp: ast.expr = ast.DictComp(key=elt[0], value=elt[1], generators=gens) if meth == "setitem" else ast.ListComp(elt=elt, generators=gens)
                    newcall = ast.Expr(value=ast.Call(func=ast.Attribute(value=acc, attr="extend" if meth == "append" else "update", ctx=ast.Load()), args=[comp], keywords=[]))
                    ast.copy_location(newcall, st)
                    ast.copy_location(newcall.value, st)
                    ast.copy_location(newcall.value.func, st)
                    ast.copy_location(comp, st)
                    lst[i] = newcall
                    n += 1
                elif isinstance(st, ast.Expr) and isinstance(st.value, ast.Call) and isinstance(st.value.func, ast.Attribute) and st.value.func.attr in ("extend", "update") \
                        and len(st.value.args) == 1 and isinstance(st.value.args[0], ast.GeneratorExp) and not st.value.keywords:
                    ge = st.value.args[0]  # x.extend(e for ...) is x.extend([e for ...])
                    st.value.args[0] = ast.copy_location(ast.ListComp(elt=ge.elt, generators=ge.generators), ge)
                    n += 1
                elif isinstance(st, ast.AugAssign) and isinstance(st.op, ast.Add) and isinstance(st.value, ast.ListComp) and isinstance(st.target, (ast.Name, ast.Attribute)):
                    tgt = copy.deepcopy(st.target)
                    for x in ast.walk(tgt):
                        if hasattr(x, "ctx"):
                            x.ctx = ast.Load()
                    newcall = ast.Expr(value=ast.Call(func=ast.Attribute(value=tgt, attr="extend", ctx=ast.Load()), args=[st.value], keywords=[]))
                    ast.copy_location(newcall, st)
                    ast.copy_location(newcall.value, st)
                    ast.copy_location(newcall.value.func, st)
                    lst[i] = newcall
                    n += 1
                i += 1
            # `x = []` directly followed by `x.extend([comprehension])` is `x = [comprehension]` (same for {} / update, set() / update)
            i = 0
            while i + 1 < len(lst):
                init = _empty_init(lst[i])
                nxt = lst[i + 1]
                if init and isinstance(nxt, ast.Expr) and isinstance(nxt.value, ast.Call) and isinstance(nxt.value.func, ast.Attribute) and isinstance(nxt.value.func.value, ast.Name) \
                        and nxt.value.func.value.id == init[0] and len(nxt.value.args) == 1 and not nxt.value.keywords:
                    name, kind = init
                    arg = nxt.value.args[0]
                    meth = nxt.value.func.attr
                    new_val = None
                    if kind == "list" and meth == "extend" and isinstance(arg, ast.ListComp) and name not in {x.id for x in ast.walk(arg) if isinstance(x, ast.Name)}:
                        new_val = arg
                    elif kind == "dict" and meth == "update" and isinstance(arg, ast.DictComp) and name not in {x.id for x in ast.walk(arg) if isinstance(x, ast.Name)}:
                        new_val = arg
                    elif kind == "set" and meth == "update" and isinstance(arg, ast.ListComp) and name not in {x.id for x in ast.walk(arg) if isinstance(x, ast.Name)}:
                        new_val = ast.copy_location(ast.SetComp(elt=arg.elt, generators=arg.generators), arg)
                    if new_val is not None:
                        lst[i].value = new_val
                        del lst[i + 1]
                        n += 1
                        continue
                # `x = <fresh container>` directly followed by `x.extend(<fresh list>)` / `x.update(<fresh dict or set>)` is `x = A + B` / `x = A | B`
                cur = lst[i]
                if isinstance(cur, ast.Assign) and len(cur.targets) == 1 and isinstance(cur.targets[0], ast.Name) and isinstance(nxt, ast.Expr) and isinstance(nxt.value, ast.Call) \
                        and isinstance(nxt.value.func, ast.Attribute) and isinstance(nxt.value.func.value, ast.Name) and nxt.value.func.value.id == cur.targets[0].id \
                        and len(nxt.value.args) == 1 and not nxt.value.keywords:
                    name = cur.targets[0].id
                    k0, k1 = _fresh_kind(cur.value), _fresh_kind(nxt.value.args[0])
                    meth = nxt.value.func.attr
                    if k0 is not None and k0 == k1 and (k0, meth) in (("list", "extend"), ("dict", "update"), ("set", "update")) \
                            and name not in {x.id for x in ast.walk(nxt.value.args[0]) if isinstance(x, ast.Name)}:
                        merged = ast.BinOp(left=cur.value, op=ast.Add() if k0 == "list" else ast.BitOr(), right=nxt.value.args[0])
                        ann = getattr(cur.value, "_ann", None)
                        cur.value = ast.copy_location(merged, cur.value)
                        if ann is not None:
                            cur.value._ann = ann
                        del lst[i + 1]
                        n += 1
                        continue
                i += 1
    ast.fix_missing_locations(tree)
    return n


def _fresh_kind(e: ast.AST) -> Optional[str]:
    """list | dict | set when the expression builds a new container of that kind (display, comprehension, or a merge of such)"""
    if isinstance(e, (ast.ListComp, ast.List)):
        return "list"
    if isinstance(e, (ast.DictComp, ast.Dict)):
        return "dict"
    if isinstance(e, (ast.SetComp, ast.Set)):
        return "set"
    if isinstance(e, ast.BinOp) and isinstance(e.op, (ast.Add, ast.BitOr)):
        a, b = _fresh_kind(e.left), _fresh_kind(e.right)
        if a is not None and a == b and ((a == "list") == isinstance(e.op, ast.Add)):
            return a
    return None


# --------------------------------------------------------------------------------------------------------------------------
# N3 annotated assignments
# --------------------------------------------------------------------------------------------------------------------------


def plain_assignments(tree: ast.Module) -> int:
    """`x: T = v` -> `x = v` (the annotation is kept on the node as `_ann` for type inference): adding or removing a variable annotation
    does not change behaviour, so rules see one statement kind for assignments."""
    n = 0
    for node in ast.walk(tree):
        for lst in _stmt_lists(node):
            for i, st in enumerate(lst):
                if isinstance(st, ast.AnnAssign) and st.value is not None:
                    new = ast.Assign(targets=[st.target], value=st.value)
                    ast.copy_location(new, st)
                    new._ann = st.annotation  # type: ignore[attr-defined]
                    lst[i] = new
                    n += 1
    return n


# --------------------------------------------------------------------------------------------------------------------------
# N4 named constants
# --------------------------------------------------------------------------------------------------------------------------


def _literal(v: ast.AST) -> bool:
    if isinstance(v, ast.Constant) and isinstance(v.value, (str, int, float)) and not isinstance(v.value, bool):
        return True
    return isinstance(v, (ast.Tuple, ast.List, ast.Set)) and bool(v.elts) and all(isinstance(e, ast.Constant) and isinstance(e.value, (str, int, float)) for e in v.elts)


def inline_constants(trees: dict[str, ast.Module]) -> int:
    """A module-level name bound once to a literal (string, number, or tuple/list/set of them) is replaced by the literal wherever a
    function reads it (in its own module or through `from M import NAME`); literal tuples / sets that are only iterated or tested for
    membership are spelled as lists.  `x in ("a", "b")`, `x in ["a", "b"]` and `x in NAMES` are then one construct."""
    consts: dict[tuple[str, str], ast.AST] = {}
    for modname, tree in trees.items():
        counts: dict[str, int] = {}
        for n in ast.walk(tree):
            if isinstance(n, ast.Name) and isinstance(n.ctx, (ast.Store, ast.Del)):
                counts[n.id] = counts.get(n.id, 0) + 1
            elif isinstance(n, ast.Global):
                for nm in n.names:
                    counts[nm] = counts.get(nm, 0) + 2
        for st in tree.body:
            if isinstance(st, ast.Assign) and len(st.targets) == 1 and isinstance(st.targets[0], ast.Name) and _literal(st.value) and counts.get(st.targets[0].id) == 1:
                consts[(modname, st.targets[0].id)] = st.value
    n_repl = 0
    for modname, tree in trees.items():
        visible: dict[str, ast.AST] = {nm: v for (m, nm), v in consts.items() if m == modname}
        for st in tree.body:
            if isinstance(st, ast.ImportFrom) and st.level == 0 and st.module:
                for al in st.names:
                    if (st.module, al.name) in consts:
                        visible[al.asname or al.name] = consts[(st.module, al.name)]
        if not visible:
            continue
        for fn in ast.walk(tree):
            if not isinstance(fn, (ast.FunctionDef, ast.AsyncFunctionDef)):
                continue
            bound = _bound_names(fn)
            use = {k: v for k, v in visible.items() if k not in bound}
            if not use:
                continue

            class Sub(ast.NodeTransformer):
                def visit_Name(self, node):
                    nonlocal n_repl
                    if isinstance(node.ctx, ast.Load) and node.id in use:
                        n_repl += 1
                        return ast.copy_location(copy.deepcopy(use[node.id]), node)
                    return node

            fn.body = [Sub().visit(s) for s in fn.body]
    # canonical container spelling for literal collections that are only iterated / searched
    for tree in trees.values():
        for n in ast.walk(tree):
            spots = []
            if isinstance(n, ast.Compare):
                for i, (op, c) in enumerate(zip(n.ops, n.comparators)):
                    if isinstance(op, (ast.In, ast.NotIn)) and isinstance(c, (ast.Tuple, ast.Set)) and _literal(c):
                        n.comparators[i] = ast.copy_location(ast.List(elts=c.elts, ctx=ast.Load()), c)
            elif isinstance(n, (ast.For, ast.comprehension)) and isinstance(n.iter, ast.Tuple) and _literal(n.iter):
                n.iter = ast.copy_location(ast.List(elts=n.iter.elts, ctx=ast.Load()), n.iter)
            elif isinstance(n, ast.Call) and any(isinstance(a, ast.Starred) and isinstance(a.value, (ast.Tuple, ast.List)) and _literal(a.value) for a in n.args):
                # f(*("a", "b")) is f("a", "b"): a literal sequence unpacked on the spot (a named constant passed with a star)
                args: list[ast.expr] = []
                for a in n.args:
                    if isinstance(a, ast.Starred) and isinstance(a.value, (ast.Tuple, ast.List)) and _literal(a.value):
                        args.extend(ast.copy_location(copy.deepcopy(e), a) for e in a.value.elts)
                    else:
                        args.append(a)
                n.args = args
    for tree in trees.values():
        ast.fix_missing_locations(tree)
    return n_repl


# --------------------------------------------------------------------------------------------------------------------------
# N5 single-use temporaries
# --------------------------------------------------------------------------------------------------------------------------


def inline_single_use_temps(tree: ast.Module) -> int:
    """`t = V` directly followed by a statement whose header reads `t` exactly once - and `t` is bound and read nowhere else in the function -
    is that statement with V written in place ("introduce / inline explaining variable").  The read must be evaluated exactly once and
    unconditionally when the next statement starts (same test as for hoisting a call in N1)."""
    total = 0
    for fn in [n for n in ast.walk(tree) if isinstance(n, (ast.FunctionDef, ast.AsyncFunctionDef))]:
        for _ in range(50):
            stores: dict[str, int] = {}
            loads: dict[str, list[ast.Name]] = {}
            for n in ast.walk(fn):
                if isinstance(n, ast.Name):
                    if isinstance(n.ctx, ast.Load):
                        loads.setdefault(n.id, []).append(n)
                    else:
                        stores[n.id] = stores.get(n.id, 0) + 1
                elif isinstance(n, (ast.Global, ast.Nonlocal)):
                    for nm in n.names:
                        stores[nm] = stores.get(nm, 0) + 5
                elif isinstance(n, ast.arg):
                    stores[n.arg] = stores.get(n.arg, 0) + 5
                elif isinstance(n, ast.ExceptHandler) and n.name:
                    stores[n.name] = stores.get(n.name, 0) + 5
            parents = _parents(fn)
            done = False
            for node in ast.walk(fn):
                for lst in _stmt_lists(node):
                    for i in range(len(lst) - 1):
                        st = lst[i]
                        if not (isinstance(st, ast.Assign) and len(st.targets) == 1 and isinstance(st.targets[0], ast.Name)):
                            continue
                        t = st.targets[0].id
                        if stores.get(t) != 1 or len(loads.get(t, [])) != 1:
                            continue
                        if hasattr(st, "_ann") and not hasattr(st.value, "_ann"):
                            st.value._ann = st._ann  # type: ignore[attr-defined]  # the declared type travels with the expression
                        if any(isinstance(x, (ast.NamedExpr, ast.Yield, ast.YieldFrom, ast.Await)) for x in ast.walk(st.value)):
                            continue
                        use = loads[t][0]
                        if isinstance(st.value, ast.Lambda):
                            # a lambda bound to a name that is used once: writing the lambda where the name stands changes nothing (creating it has no
                            # effect and its free names are looked up when it is called) - unless a comprehension around the use re-binds one of them
                            lam = st.value
                            own = {a.arg for a in lam.args.args + lam.args.kwonlyargs + lam.args.posonlyargs} | ({lam.args.vararg.arg} if lam.args.vararg else set()) | ({lam.args.kwarg.arg} if lam.args.kwarg else set())
                            free = {x.id for x in ast.walk(lam.body) if isinstance(x, ast.Name)} - own
                            cur_, clash, inside_def = use, False, False
                            while id(cur_) in parents:
                                cur_ = parents[id(cur_)]
                                if isinstance(cur_, _COMP) and any(isinstance(x, ast.Name) and x.id in free for g_ in cur_.generators for x in ast.walk(g_.target)):
                                    clash = True
                                if isinstance(cur_, (ast.FunctionDef, ast.AsyncFunctionDef, ast.Lambda)) and cur_ is not fn:
                                    inside_def = True
                            later = any(use is x for later_st in lst[i + 1:] for x in ast.walk(later_st))
                            if not clash and not inside_def and later:
                                par_ = parents[id(use)]
                                for fld, v in ast.iter_fields(par_):
                                    if v is use:
                                        setattr(par_, fld, lam)
                                    elif isinstance(v, list):
                                        for j_, x in enumerate(v):
                                            if x is use:
                                                v[j_] = lam
                                del lst[i]
                                total += 1
                                done = True
                                break
                            continue
                        hs = _hoistable_expr(use, parents)
                        if hs is None or hs is not lst[i + 1]:
                            continue
                        nxt = lst[i + 1]
                        val = st.value

                        class Rep(ast.NodeTransformer):
                            def visit(self, n):
                                if n is use:
                                    return val
                                return super().visit(n)

                        for fld in ("test", "iter", "value", "targets", "target", "exc", "cause", "msg", "items"):
                            v = getattr(nxt, fld, None)
                            if isinstance(v, ast.AST):
                                setattr(nxt, fld, Rep().visit(v))
                            elif isinstance(v, list):
                                setattr(nxt, fld, [Rep().visit(x) if isinstance(x, ast.AST) else x for x in v])
                        del lst[i]
                        total += 1
                        done = True
                        break
                    if done:
                        break
                if done:
                    break
            if not done:
                break
    ast.fix_missing_locations(tree)
    return total


def _hoistable_expr(node: ast.AST, parents: dict[int, ast.AST]) -> Optional[ast.stmt]:
    """The innermost statement containing expression `node`, when `node` is evaluated exactly once and unconditionally as that statement
    starts executing (header of a compound statement included, `while` tests and `with` items excluded); None otherwise."""
    cur: ast.AST = node
    while True:
        par = parents.get(id(cur))
        if par is None:
            return None
        if isinstance(par, ast.Lambda) or isinstance(par, _COMP):
            return None
        if isinstance(par, ast.comprehension):
            gens = parents.get(id(par))
            if not (isinstance(gens, _COMP) and gens.generators[0] is par and par.iter is cur):
                return None
            cur = gens
            continue
        if isinstance(par, ast.IfExp) and cur is not par.test:
            return None
        if isinstance(par, ast.BoolOp) and par.values[0] is not cur:
            return None
        if isinstance(par, (ast.withitem, ast.ExceptHandler)) or par.__class__.__name__ == "match_case":
            return None
        if isinstance(par, ast.stmt):
            if isinstance(par, (ast.FunctionDef, ast.AsyncFunctionDef, ast.ClassDef, ast.While, ast.With, ast.AsyncWith, ast.Try)) or par.__class__.__name__ == "Match":
                return None
            if isinstance(par, ast.If) and cur is not par.test:
                return None
            if isinstance(par, (ast.For, ast.AsyncFor)) and cur is not par.iter:
                return None
            if isinstance(par, (ast.AugAssign,)) and cur is par.target:
                return None
            return par
        cur = par


# --------------------------------------------------------------------------------------------------------------------------
# N6 statement pushed out of the branches
# --------------------------------------------------------------------------------------------------------------------------


def _leaf_assigns(node: ast.If, name: Optional[str] = None) -> Optional[tuple[str, list[ast.Assign]]]:
    """if/elif/.../else where every branch ends in `t = V_i` for one name t (or never falls through) -> (t, the assignments).  What a branch
    does before its final assignment is its own business: the callers make sure t is neither read nor written there."""
    out: list[ast.Assign] = []

    def leaf(body: list[ast.stmt]) -> bool:
        nonlocal name
        if len(body) == 1 and isinstance(body[0], ast.If):
            return chain(body[0])
        if body and isinstance(body[-1], ast.Assign) and len(body[-1].targets) == 1 and isinstance(body[-1].targets[0], ast.Name):
            if name is None:
                name = body[-1].targets[0].id
            if body[-1].targets[0].id != name:
                return False
            out.append(body[-1])
            return True
        return bool(body) and _always_returns(body)  # this branch never reaches the statement after the `if`

    def chain(n: ast.If) -> bool:
        if not n.orelse:
            return False
        return leaf(n.body) and leaf(n.orelse)

    if chain(node) and name is not None and out:
        return name, out
    return None


def duplicate_tail_into_branches(tree: ast.Module) -> int:
    """`if c: t = A  else: t = B` directly followed by the only statement that reads t - once, in its header - is the same as that statement
    written in each branch with A / B in place of t ("pull the common statement out of the branches" and its reverse)."""
    total = 0
    for fn in [n for n in ast.walk(tree) if isinstance(n, (ast.FunctionDef, ast.AsyncFunctionDef))]:
        for _ in range(20):
            parents = _parents(fn)
            loads: dict[str, list[ast.Name]] = {}
            stores: dict[str, int] = {}
            for n in ast.walk(fn):
                if isinstance(n, ast.Name):
                    if isinstance(n.ctx, ast.Load):
                        loads.setdefault(n.id, []).append(n)
                    else:
                        stores[n.id] = stores.get(n.id, 0) + 1
                elif isinstance(n, ast.arg):
                    stores[n.arg] = stores.get(n.arg, 0) + 100
                elif isinstance(n, (ast.Global, ast.Nonlocal)):
                    for nm in n.names:
                        stores[nm] = stores.get(nm, 0) + 100
            done = False
            for node in ast.walk(fn):
                for lst in _stmt_lists(node):
                    for i in range(len(lst) - 1):
                        st = lst[i]
                        if not isinstance(st, ast.If):
                            continue
                        la = _leaf_assigns(st)
                        if la is None:
                            continue
                        t, assigns = la
                        if stores.get(t) != len(assigns) or len(loads.get(t, [])) != 1:
                            continue
                        use = loads[t][0]
                        nxt = lst[i + 1]
                        if _hoistable_expr(use, parents) is not nxt or isinstance(nxt, (ast.If, ast.For, ast.AsyncFor)):
                            continue
                        if any(isinstance(x, (ast.NamedExpr, ast.Yield, ast.YieldFrom, ast.Await)) for a in assigns for x in ast.walk(a.value)):
                            continue
                        # path from nxt to the use, to redo the substitution on each copy
                        def path_to(root: ast.AST, target: ast.AST) -> Optional[list]:
                            for fld, val in ast.iter_fields(root):
                                if val is target:
                                    return [(fld, None)]
                                if isinstance(val, ast.AST):
                                    p = path_to(val, target)
                                    if p is not None:
                                        return [(fld, None)] + p
                                elif isinstance(val, list):
                                    for j, x in enumerate(val):
                                        if x is target:
                                            return [(fld, j)]
                                        if isinstance(x, ast.AST):
                                            p = path_to(x, target)
                                            if p is not None:
                                                return [(fld, j)] + p
                            return None

                        pth = path_to(nxt, use)
                        if pth is None:
                            continue
                        for a in assigns:
                            cp = copy.deepcopy(nxt)
                            cur = cp
                            for fld, j in pth[:-1]:
                                cur = getattr(cur, fld) if j is None else getattr(cur, fld)[j]
                            fld, j = pth[-1]
                            if j is None:
                                setattr(cur, fld, a.value)
                            else:
                                getattr(cur, fld)[j] = a.value
                            ast.copy_location(cp, a)
                            # replace the assignment by the specialised statement, in place
                            holder = parents.get(id(a))
                            for blst in _stmt_lists(holder):
                                for k, s_ in enumerate(blst):
                                    if s_ is a:
                                        blst[k] = cp
                        del lst[i + 1]
                        total += 1
                        done = True
                        break
                    if done:
                        break
                if done:
                    break
            if not done:
                break
    ast.fix_missing_locations(tree)
    return total


# --------------------------------------------------------------------------------------------------------------------------
# N7 search loops
# --------------------------------------------------------------------------------------------------------------------------


def any_to_loop(tree: ast.Module) -> int:
    """`if any(C(x) for x in L): <body ending in return / raise>` (no else) is `for x in L: if C(x): <body>`: the first hit leaves the
    function either way.  The loop spelling is the normal form (guards on x are then ordinary branch conditions)."""
    total = 0
    for node in ast.walk(tree):
        for lst in _stmt_lists(node):
            for i, st in enumerate(lst):
                if not (isinstance(st, ast.If) and not st.orelse and st.body and isinstance(st.body[-1], (ast.Return, ast.Raise))):
                    continue
                t = st.test
                if not (isinstance(t, ast.Call) and isinstance(t.func, ast.Name) and t.func.id == "any" and len(t.args) == 1 and not t.keywords
                        and isinstance(t.args[0], (ast.GeneratorExp, ast.ListComp)) and len(t.args[0].generators) == 1):
                    continue
                g = t.args[0].generators[0]
                if g.is_async:
                    continue
                bound = {n.id for n in ast.walk(g.target) if isinstance(n, ast.Name)}
                if any(isinstance(n, ast.Name) and n.id in bound for b in st.body for n in ast.walk(b)):
                    continue  # the body would see the loop variable
                cond: ast.expr = t.args[0].elt
                for c in reversed(g.ifs):
                    cond = ast.BoolOp(op=ast.And(), values=[c, cond])
                inner = ast.If(test=cond, body=st.body, orelse=[])
                loop = ast.For(target=g.target, iter=g.iter, body=[inner], orelse=[], type_comment=None)
                for x in ast.walk(g.target):
                    if hasattr(x, "ctx"):
                        x.ctx = ast.Store()
                ast.copy_location(inner, st)
                ast.copy_location(loop, st)
                lst[i] = loop
                total += 1
    ast.fix_missing_locations(tree)
    return total


# --------------------------------------------------------------------------------------------------------------------------
# N8 map / filter
# --------------------------------------------------------------------------------------------------------------------------


class _Subst(ast.NodeTransformer):
    def __init__(self, mapping: dict[str, ast.expr]):
        self.mapping = mapping

    def visit_Name(self, node: ast.Name):
        if isinstance(node.ctx, ast.Load) and node.id in self.mapping:
            return copy.deepcopy(self.mapping[node.id])
        return node


def _binds(node: ast.AST, name: str) -> bool:
    """`name` is (re)bound somewhere inside node (store, lambda parameter, comprehension target)"""
    for x in ast.walk(node):
        if isinstance(x, ast.Name) and x.id == name and isinstance(x.ctx, (ast.Store, ast.Del)):
            return True
        if isinstance(x, ast.arg) and x.arg == name:
            return True
    return False


def unroll_literal_iterations(tree: ast.Module) -> int:
    """A loop or a leading comprehension generator over a short literal tuple / list is written out element by element:
        for p in ("d", "f"): S(p)                      ->  S("d"); S("f")
        {K(f, d): d for f in (A, B) for d in G if c}   ->  {K(A, d): d for d in G if c} | {K(B, d): d for d in G if c}
    and a lambda applied on the spot is replaced by its body.  (Rolling two statements into a loop over their differing part and unrolling
    it again are the same program; the unrolled form is the normal form.)"""
    n = 0

    def simple(e: ast.AST) -> bool:
        return isinstance(e, (ast.Constant, ast.Name, ast.Attribute, ast.Lambda)) and not any(isinstance(x, (ast.Call, ast.NamedExpr, ast.Yield, ast.Await)) for x in ast.walk(e) if x is not e and not isinstance(e, ast.Lambda))

    class C(ast.NodeTransformer):
        def _comp(self, node, build, op):
            nonlocal n
            self.generic_visit(node)
            g0 = node.generators[0]
            if len(node.generators) < 2 or g0.ifs or g0.is_async or not isinstance(g0.target, ast.Name) or not isinstance(g0.iter, (ast.Tuple, ast.List)) \
                    or not (1 <= len(g0.iter.elts) <= 4) or not all(simple(e) for e in g0.iter.elts):
                return node
            v = g0.target.id
            rest = node.generators[1:]
            if any(_binds(g, v) for g in rest):
                return node
            parts = []
            for e in g0.iter.elts:
                sub = _Subst({v: e})
                parts.append(build(node, sub, [sub.visit(copy.deepcopy(g)) for g in rest]))
            out = parts[0]
            for p_ in parts[1:]:
                out = ast.BinOp(left=out, op=op(), right=p_)
            n += 1
            return ast.copy_location(out, node)

        def visit_DictComp(self, node):
            return self._comp(node, lambda nd, sub, gens: ast.DictComp(key=sub.visit(copy.deepcopy(nd.key)), value=sub.visit(copy.deepcopy(nd.value)), generators=gens), ast.BitOr)

        def visit_SetComp(self, node):
            return self._comp(node, lambda nd, sub, gens: ast.SetComp(elt=sub.visit(copy.deepcopy(nd.elt)), generators=gens), ast.BitOr)

        def visit_ListComp(self, node):
            return self._comp(node, lambda nd, sub, gens: ast.ListComp(elt=sub.visit(copy.deepcopy(nd.elt)), generators=gens), ast.Add)

        def visit_Call(self, node: ast.Call):
            nonlocal n
            self.generic_visit(node)
            f = node.func
            if isinstance(f, ast.Lambda) and not node.keywords and not f.args.vararg and not f.args.kwarg and not f.args.kwonlyargs and not f.args.defaults \
                    and len(f.args.args) == len(node.args) and not f.args.posonlyargs and all(isinstance(a, (ast.Name, ast.Attribute, ast.Constant)) for a in node.args):
                names = [a.arg for a in f.args.args]
                inner_binds = any(_binds(x, nm) for nm in names for x in ast.walk(f.body) if isinstance(x, (ast.Lambda, ast.ListComp, ast.SetComp, ast.DictComp, ast.GeneratorExp)))
                if not inner_binds:
                    n += 1
                    return ast.copy_location(_Subst(dict(zip(names, node.args))).visit(copy.deepcopy(f.body)), node)
            return node

    C().visit(tree)
    C().visit(tree)  # (a lambda that the first round moved into applied position)
    # statement loops over a short literal
    for node in ast.walk(tree):
        for lst in _stmt_lists(node):
            i = 0
            while i < len(lst):
                st = lst[i]
                if isinstance(st, ast.For) and not st.orelse and isinstance(st.target, ast.Name) and isinstance(st.iter, (ast.Tuple, ast.List)) and 1 <= len(st.iter.elts) <= 4 \
                        and all(isinstance(e, ast.Constant) for e in st.iter.elts) \
                        and not any(isinstance(x, (ast.Break, ast.Continue)) for b in st.body for x in ast.walk(b)) \
                        and not any(_binds(b, st.target.id) for b in st.body):
                    new: list[ast.stmt] = []
                    for e in st.iter.elts:
                        sub = _Subst({st.target.id: e})
                        new += [sub.visit(copy.deepcopy(b)) for b in st.body]
                    lst[i:i + 1] = new
                    n += 1
                    i += len(new)
                    continue
                i += 1
    ast.fix_missing_locations(tree)
    return n


def fuse_identity_generators(tree: ast.Module) -> int:
    """`for s in (x for x in IT if C(x))` inside a comprehension is `for s in IT if C(s)`: a filter written as a generator of its own (what
    `filter(pred, IT)` becomes) and the same filter written as a condition of the consuming comprehension are one form."""
    n = 0
    for comp in [c for c in ast.walk(tree) if isinstance(c, _COMP)]:
        for g in comp.generators:
            inner = g.iter
            if isinstance(inner, (ast.GeneratorExp, ast.ListComp)) and len(inner.generators) == 1 and not inner.generators[0].is_async and not g.is_async \
                    and isinstance(inner.elt, ast.Name) and isinstance(inner.generators[0].target, ast.Name) and inner.elt.id == inner.generators[0].target.id \
                    and isinstance(g.target, ast.Name):
                ig = inner.generators[0]
                sub = _Subst({ig.target.id: ast.Name(id=g.target.id, ctx=ast.Load())})
                if any(_binds(c_, ig.target.id) or _binds(c_, g.target.id) for c_ in ig.ifs):
                    continue
                g.iter = ig.iter
                g.ifs = [sub.visit(copy.deepcopy(c_)) for c_ in ig.ifs] + g.ifs
                n += 1
    ast.fix_missing_locations(tree)
    return n


def getters_to_lambdas(tree: ast.Module) -> int:
    """`operator.itemgetter(k)` / `attrgetter("a")` written out as the lambda they stand for (`lambda g: g[k]`, `lambda g: g.a`), so that a key
    function has one spelling."""
    n = 0

    class G(ast.NodeTransformer):
        def visit_Call(self, node: ast.Call):
            nonlocal n
            self.generic_visit(node)
            nm = node.func.id if isinstance(node.func, ast.Name) else node.func.attr if isinstance(node.func, ast.Attribute) and isinstance(node.func.value, ast.Name) and node.func.value.id == "operator" else None
            if nm not in ("itemgetter", "attrgetter") or not node.args or node.keywords or any(isinstance(a, ast.Starred) for a in node.args):
                return node
            var = ast.Name(id="__g", ctx=ast.Load())
            parts = []
            for a in node.args:
                if nm == "itemgetter":
                    parts.append(ast.Subscript(value=var, slice=a, ctx=ast.Load()))
                elif isinstance(a, ast.Constant) and isinstance(a.value, str) and a.value.isidentifier():
                    parts.append(ast.Attribute(value=var, attr=a.value, ctx=ast.Load()))
                else:
                    return node
            body = parts[0] if len(parts) == 1 else ast.Tuple(elts=parts, ctx=ast.Load())
            lam = ast.Lambda(args=ast.arguments(posonlyargs=[], args=[ast.arg(arg="__g")], kwonlyargs=[], kw_defaults=[], defaults=[]), body=body)
            n += 1
            return ast.copy_location(lam, node)

    G().visit(tree)
    ast.fix_missing_locations(tree)
    return n


def map_filter_to_comprehensions(tree: ast.Module) -> int:
    """`map(f, xs)` is `(f(x) for x in xs)`, `filter(p, xs)` is `(x for x in xs if p(x))` (`filter(None, xs)`: `if x`); wrapped in list() /
    set() / tuple() they are the corresponding comprehension.  `operator.attrgetter("a")` / `attrgetter("a")` as the function is `x.a`, a
    lambda is applied by substituting its parameter.  The comprehension is the normal form."""
    total = 0
    counter = [0]

    def apply(fn_expr: ast.expr, arg: ast.expr) -> Optional[ast.expr]:
        if isinstance(fn_expr, ast.Lambda):
            a = fn_expr.args
            if len(a.args) != 1 or a.vararg or a.kwarg or a.kwonlyargs or a.defaults:
                return None
            pname = a.args[0].arg
            body = copy.deepcopy(fn_expr.body)
            if any(isinstance(n, ast.Lambda) for n in ast.walk(body)):
                return None

            class Sub(ast.NodeTransformer):
                def visit_Name(self, node):
                    return copy.deepcopy(arg) if node.id == pname else node

            return Sub().visit(body)
        if isinstance(fn_expr, ast.Call) and not fn_expr.keywords and len(fn_expr.args) == 1 and isinstance(fn_expr.args[0], ast.Constant) and isinstance(fn_expr.args[0].value, str):
            nm = fn_expr.func.attr if isinstance(fn_expr.func, ast.Attribute) else fn_expr.func.id if isinstance(fn_expr.func, ast.Name) else ""
            if nm == "attrgetter" and "." not in fn_expr.args[0].value:
                return ast.Attribute(value=copy.deepcopy(arg), attr=fn_expr.args[0].value, ctx=ast.Load())
            if nm == "itemgetter":
                return None
        if isinstance(fn_expr, (ast.Name, ast.Attribute)):
            return ast.Call(func=copy.deepcopy(fn_expr), args=[copy.deepcopy(arg)], keywords=[])
        return None

    class T(ast.NodeTransformer):
        def visit_Call(self, node):
            nonlocal total
            self.generic_visit(node)
            f = node.func
            if isinstance(f, ast.Name) and f.id in ("map", "filter") and len(node.args) == 2 and not node.keywords and not any(isinstance(a, ast.Starred) for a in node.args):
                counter[0] += 1
                var = f"_mf{counter[0]}"
                x = ast.Name(id=var, ctx=ast.Load())
                if f.id == "map":
                    elt = apply(node.args[0], x)
                    if elt is None:
                        return node
                    gen = ast.GeneratorExp(elt=elt, generators=[ast.comprehension(target=ast.Name(id=var, ctx=ast.Store()), iter=node.args[1], ifs=[], is_async=0)])
                else:
                    if isinstance(node.args[0], ast.Constant) and node.args[0].value is None:
                        cond: Optional[ast.expr] = x
                    else:
                        cond = apply(node.args[0], x)
                    if cond is None:
                        return node
                    gen = ast.GeneratorExp(elt=ast.Name(id=var, ctx=ast.Load()), generators=[ast.comprehension(target=ast.Name(id=var, ctx=ast.Store()), iter=node.args[1], ifs=[cond], is_async=0)])
                total += 1
                return ast.copy_location(gen, node)
            if isinstance(f, ast.Name) and f.id in ("list", "set", "tuple") and len(node.args) == 1 and not node.keywords and isinstance(node.args[0], ast.GeneratorExp) and f.id != "tuple":
                g = node.args[0]
                comp = ast.ListComp(elt=g.elt, generators=g.generators) if f.id == "list" else ast.SetComp(elt=g.elt, generators=g.generators)
                total += 1
                return ast.copy_location(comp, node)
            return node

    T().visit(tree)
    ast.fix_missing_locations(tree)
    return total


# --------------------------------------------------------------------------------------------------------------------------
# N9 container idioms
# --------------------------------------------------------------------------------------------------------------------------


def expand_container_idioms(tree: ast.Module) -> int:
    """Statement-level short-hands written out as the test-then-act they abbreviate (the normal form, in which "is the key present"
    is an ordinary branch condition):
        d.setdefault(k, {}).update(v)   ->  if k not in d: d[k] = {}   ;   d[k].update(v)
        d.pop(k, None)                   ->  if k in d: d.pop(k)
        s.discard(x)                     ->  if x in s: s.remove(x)
    """
    total = 0

    def load(e: ast.AST) -> ast.AST:
        c = copy.deepcopy(e)
        for x in ast.walk(c):
            if hasattr(x, "ctx"):
                x.ctx = ast.Load()
        return c

    for node in ast.walk(tree):
        for lst in _stmt_lists(node):
            i = 0
            while i < len(lst):
                st = lst[i]
                new = None
                if isinstance(st, ast.Expr) and isinstance(st.value, ast.Call) and isinstance(st.value.func, ast.Attribute):
                    c = st.value
                    f = c.func
                    # d.setdefault(k, {}).update(v)
                    if f.attr in ("update", "append", "add", "extend") and isinstance(f.value, ast.Call) and isinstance(f.value.func, ast.Attribute) and f.value.func.attr == "setdefault" \
                            and len(f.value.args) == 2 and isinstance(f.value.args[1], (ast.Dict, ast.List, ast.Set, ast.Call)) and not f.value.keywords:
                        d, k, init = f.value.func.value, f.value.args[0], f.value.args[1]
                        if (isinstance(init, ast.Dict) and not init.keys) or (isinstance(init, ast.List) and not init.elts) or (isinstance(init, ast.Call) and isinstance(init.func, ast.Name) and init.func.id in ("dict", "list", "set") and not init.args):
                            guard = ast.If(test=ast.Compare(left=load(k), ops=[ast.NotIn()], comparators=[load(d)]),
                                           body=[ast.Assign(targets=[ast.Subscript(value=load(d), slice=load(k), ctx=ast.Store())], value=init)], orelse=[])
                            act = ast.Expr(value=ast.Call(func=ast.Attribute(value=ast.Subscript(value=load(d), slice=load(k), ctx=ast.Load()), attr=f.attr, ctx=ast.Load()), args=c.args, keywords=c.keywords))
                            new = [guard, act]
                    # d.pop(k, None)
                    elif f.attr == "pop" and len(c.args) == 2 and isinstance(c.args[1], ast.Constant) and c.args[1].value is None and not c.keywords:
                        d, k = f.value, c.args[0]
                        new = [ast.If(test=ast.Compare(left=load(k), ops=[ast.In()], comparators=[load(d)]),
                                      body=[ast.Expr(value=ast.Call(func=ast.Attribute(value=load(d), attr="pop", ctx=ast.Load()), args=[load(k)], keywords=[]))], orelse=[])]
                    # s.discard(x)
                    elif f.attr == "discard" and len(c.args) == 1 and not c.keywords:
                        d, k = f.value, c.args[0]
                        new = [ast.If(test=ast.Compare(left=load(k), ops=[ast.In()], comparators=[load(d)]),
                                      body=[ast.Expr(value=ast.Call(func=ast.Attribute(value=load(d), attr="remove", ctx=ast.Load()), args=[load(k)], keywords=[]))], orelse=[])]
                if new is not None:
                    for s_ in new:
                        ast.copy_location(s_, st)
                        for x in ast.walk(s_):
                            if isinstance(x, (ast.stmt, ast.expr)) and not hasattr(x, "lineno"):
                                ast.copy_location(x, st)
                    lst[i:i + 1] = new
                    total += 1
                    i += len(new)
                else:
                    i += 1
    ast.fix_missing_locations(tree)
    return total


# --------------------------------------------------------------------------------------------------------------------------
# N10 continue guards, N11 negation normal form
# --------------------------------------------------------------------------------------------------------------------------

_FLIP = {ast.Eq: ast.NotEq, ast.NotEq: ast.Eq, ast.Lt: ast.GtE, ast.GtE: ast.Lt, ast.Gt: ast.LtE, ast.LtE: ast.Gt, ast.Is: ast.IsNot, ast.IsNot: ast.Is, ast.In: ast.NotIn, ast.NotIn: ast.In}


def _negate(e: ast.expr) -> ast.expr:
    """not e, with the negation pushed inwards."""
    if isinstance(e, ast.UnaryOp) and isinstance(e.op, ast.Not):
        return _nnf(e.operand)
    if isinstance(e, ast.BoolOp):
        op = ast.Or() if isinstance(e.op, ast.And) else ast.And()
        return ast.copy_location(ast.BoolOp(op=op, values=[_negate(v) for v in e.values]), e)
    if isinstance(e, ast.Compare) and len(e.ops) == 1 and type(e.ops[0]) in _FLIP:
        return ast.copy_location(ast.Compare(left=e.left, ops=[_FLIP[type(e.ops[0])]()], comparators=e.comparators), e)
    return ast.copy_location(ast.UnaryOp(op=ast.Not(), operand=e), e)


def _nnf(e: ast.expr) -> ast.expr:
    if isinstance(e, ast.UnaryOp) and isinstance(e.op, ast.Not):
        return _negate(e.operand)
    if isinstance(e, ast.BoolOp):
        vals = []
        for v in e.values:
            v2 = _nnf(v)
            if isinstance(v2, ast.BoolOp) and type(v2.op) is type(e.op):
                vals += v2.values  # flatten a and (b and c)
            else:
                vals.append(v2)
        return ast.copy_location(ast.BoolOp(op=e.op, values=vals), e)
    return e


def negation_normal_form(tree: ast.Module) -> int:
    """Conditions (tests of if / while / conditional expressions, comprehension filters) with `not` pushed to the atoms: De Morgan and flipped
    comparison operators.  `not (a == b and c)` and `a != b or not c` are one condition."""
    n = 0
    for node in ast.walk(tree):
        for fld in ("test",):
            if isinstance(node, (ast.If, ast.While, ast.IfExp)) and isinstance(getattr(node, fld), ast.expr):
                before = ast.dump(node.test)
                node.test = _nnf(node.test)
                n += before != ast.dump(node.test)
        if isinstance(node, ast.comprehension):
            new_ifs = []
            for c in node.ifs:
                c2 = _nnf(c)
                n += ast.dump(c) != ast.dump(c2)
                # a conjunction in one filter is several filters
                new_ifs += c2.values if isinstance(c2, ast.BoolOp) and isinstance(c2.op, ast.And) else [c2]
            node.ifs = new_ifs
    ast.fix_missing_locations(tree)
    return n


def continue_guards_to_branches(tree: ast.Module) -> int:
    """Inside a loop body, `if c: continue` followed by the rest of the body is `if not c: <rest>` (and `if c: A  else: continue` + rest is
    `if c: A; <rest>`): the guard-clause and the nested spelling of one loop."""
    n = 0
    changed = True
    while changed:
        changed = False
        for loop in [x for x in ast.walk(tree) if isinstance(x, (ast.For, ast.AsyncFor, ast.While))]:
            def rewrite(lst: list[ast.stmt]) -> bool:
                for i, st in enumerate(lst):
                    if isinstance(st, ast.If):
                        rest = lst[i + 1:]
                        if len(st.body) == 1 and isinstance(st.body[0], ast.Continue):
                            body = st.orelse + rest
                            if body:
                                lst[i:] = [ast.copy_location(ast.If(test=_negate(st.test), body=body, orelse=[]), st)]
                            else:
                                lst[i:] = []
                            return True
                        if len(st.orelse) == 1 and isinstance(st.orelse[0], ast.Continue):
                            lst[i:] = [ast.copy_location(ast.If(test=st.test, body=st.body + rest, orelse=[]), st)]
                            return True
                        # recurse into a trailing if (its branches end the iteration too)
                        if i == len(lst) - 1:
                            if rewrite(st.body) or (st.orelse and rewrite(st.orelse)):
                                return True
                return False

            if rewrite(loop.body):
                if not loop.body:
                    loop.body = [ast.Pass()]
                n += 1
                changed = True
    ast.fix_missing_locations(tree)
    return n
