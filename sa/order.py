"""Order-sensitivity analysis (rule R11.1): order-sensitive consumption of unordered collections.

Sources are expressions whose abstract type is a set (annotations, constructors, set algebra, properties and
functions returning sets).  Every consumption site is classified; safe idioms are discharged automatically,
everything else becomes an instance with a semantic key (function, normalised source, consumer kind).
"""

from __future__ import annotations

import ast
from dataclasses import dataclass
from typing import Iterator, Optional

from .astutil import u
from .cfg import flow
from .model import Fn, Prog, T

SAFE_FUNCS = {"sorted", "set", "frozenset", "len", "any", "all", "sum", "min", "max", "bool", "isinstance", "hash", "id", "type", "print", "repr", "str"}
SET_METHODS_SAFE = {
    "union", "intersection", "difference", "symmetric_difference", "issubset", "issuperset", "isdisjoint", "copy",
    "add", "update", "discard", "remove", "clear", "intersection_update", "difference_update", "__contains__", "__len__",
}
# effects that commute and are idempotent: the order of a loop performing only these does not matter
COMMUTING_CALLS = {
    "add", "update", "discard", "add_edge", "add_node", "add_read", "add_write", "add_cte", "add_drop", "add_rename",
    "add_column_lineage", "set_node_attributes", "add_nodes_from", "add_edges_from", "register_session_metadata",
    "warn", "debug", "info", "warning",
}
NONCOMMUTING_CALLS = {"relabel_nodes", "remove_node", "remove_edge", "remove_nodes_from", "remove_edges_from", "pop", "append", "extend", "insert", "write", "print"}


@dataclass
class Instance:
    fn: Fn
    node: ast.AST
    source: str  # normalised text of the unordered expression
    kind: str  # consumer kind
    detail: str
    discharged: Optional[str] = None  # reason when a safe idiom / guard discharges it

    @property
    def key(self) -> str:
        owner = self.fn.owner
        return f"{owner}:{self.source}:{self.kind}"


def norm_source(prog: Prog, fn: Fn, e: ast.AST, depth: int = 0) -> str:
    """Semantic name of an unordered source: independent of local variable names and argument spelling."""
    if isinstance(e, ast.NamedExpr):
        return norm_source(prog, fn, e.value, depth)
    if isinstance(e, ast.Call):
        f = e.func
        nm = f.attr if isinstance(f, ast.Attribute) else f.id if isinstance(f, ast.Name) else "call"
        if nm in ("set", "frozenset", "list") and e.args:
            return f"{nm}({norm_source(prog, fn, e.args[0], depth + 1)})"
        return f"{nm}()"
    if isinstance(e, ast.Attribute):
        return f".{e.attr}"
    if isinstance(e, ast.Name) and depth < 3:
        defs = [node for kind, node in prog.local_defs(fn, e.id) if kind in ("assign", "walrus", "annassign") and getattr(node, "value", None) is not None]
        if len(defs) == 1:
            return norm_source(prog, fn, defs[0].value, depth + 1)
        return e.id
    if isinstance(e, (ast.Set, ast.SetComp)):
        return "{set}"
    if isinstance(e, ast.BinOp):
        return "set-op"
    return type(e).__name__


def is_unordered(t: T) -> bool:
    return any(a.kind in ("set", "frozenset") for a in t.alts()) and not any(a.kind in ("list", "tuple", "str") for a in t.alts())


def unordered_expr(prog: Prog, e: ast.AST, fn: Fn) -> bool:
    if isinstance(e, (ast.Set, ast.SetComp)):
        return True
    if isinstance(e, ast.Call) and isinstance(e.func, ast.Name) and e.func.id in ("set", "frozenset"):
        return True
    if isinstance(e, (ast.Name, ast.Attribute, ast.Call, ast.BinOp, ast.Subscript, ast.NamedExpr)):
        return is_unordered(prog.infer(e, fn))
    return False


def _singleton_guard(prog: Prog, fn: Fn, site: ast.AST, src: ast.AST) -> Optional[str]:
    """A dominating proof that the set has exactly one element (or at most one with a truthiness proof)."""
    facts = flow(prog, fn).facts_for(site)
    s = u(src)
    names = {s}
    # a local bound to the set expression (walrus / assignment), and the expression a local was bound from
    if isinstance(src, ast.Name):
        for kind, node in prog.local_defs(fn, src.id):
            if kind in ("assign", "walrus") and getattr(node, "value", None) is not None:
                names.add(u(node.value))
    one = any((t in {f"len({n}) == 1" for n in names} and p) for t, p in facts)
    le1 = any((t in {f"len({n}) > 1" for n in names} and not p) or (t in ({f"len({n}) <= 1" for n in names} | {f"len({n}) < 2" for n in names}) and p) for t, p in facts)
    nonempty = any((t in names and p) or (t in {f"len({n}) > 0" for n in names} and p) or (t in {f"len({n}) == 0" for n in names} and not p) for t, p in facts)
    if one:
        return "dominated by len(...) == 1"
    if le1 and nonempty:
        return "dominated by a non-empty proof and a `more than one -> raise` guard"
    return None


def _loop_body_order_sensitivity(prog: Prog, fn: Fn, loop: ast.AST, body: list[ast.stmt], targets: set[str]) -> Optional[str]:
    """None if the body only performs commuting effects; otherwise a description of the first order-sensitive effect."""
    local_in_loop: set[str] = set(targets)
    for st in body:
        for n in ast.walk(st):
            if isinstance(n, (ast.Assign, ast.AnnAssign, ast.NamedExpr, ast.For, ast.comprehension, ast.With)):
                tgts = []
                if isinstance(n, ast.Assign):
                    tgts = n.targets
                elif isinstance(n, (ast.AnnAssign, ast.NamedExpr, ast.For, ast.comprehension)):
                    tgts = [n.target]
                for t in tgts:
                    for x in ast.walk(t):
                        if isinstance(x, ast.Name) and isinstance(x.ctx, ast.Store):
                            local_in_loop.add(x.id)
    # names assigned inside the loop but also read after / defined before it are loop-carried scalars
    defined_before = set()
    for name in list(local_in_loop - targets):
        defs = prog.local_defs(fn, name)
        if any(not _inside(prog, node, loop) for _, node in defs):
            defined_before.add(name)
    for st in body:
        for n in ast.walk(st):
            if isinstance(n, (ast.Break, ast.Return)):
                return f"`{type(n).__name__.lower()}` inside the loop (first element wins)"
            if isinstance(n, ast.Continue):
                # continue under a test against an accumulating container = first-wins
                pass
            if isinstance(n, ast.Assign):
                for t in n.targets:
                    if isinstance(t, ast.Name) and t.id in defined_before:
                        if not ({x.id for x in ast.walk(n.value) if isinstance(x, ast.Name)} & _element_dependent(body, targets)):
                            continue  # the value does not depend on the element: every iteration assigns the same thing
                        return f"`{u(n)[:50]}` overwrites `{t.id}` defined outside the loop (last element wins)"
                    if isinstance(t, ast.Subscript):
                        root = t.value
                        while isinstance(root, (ast.Attribute, ast.Subscript)):
                            root = root.value
                        key_is_elem = any(isinstance(x, ast.Name) and x.id in targets for x in ast.walk(t.slice))
                        if not key_is_elem:
                            return f"`{u(n)[:50]}` stores under a key that does not contain the loop element (last element wins on key clashes)"
            if isinstance(n, ast.AugAssign) and isinstance(n.target, ast.Name) and n.target.id in defined_before:
                if not isinstance(n.op, (ast.BitOr, ast.BitAnd)):
                    tt = prog.infer(n.target, fn)
                    if not any(a.kind in ("int", "set") for a in tt.alts()):
                        return f"`{u(n)[:50]}` accumulates into `{n.target.id}` in iteration order"
            if isinstance(n, ast.Call) and isinstance(n.func, ast.Attribute):
                m = n.func.attr
                if m in NONCOMMUTING_CALLS:
                    recv_t = prog.infer(n.func.value, fn)
                    if m in ("pop", "append", "extend", "insert") and any(a.kind == "set" for a in recv_t.alts()):
                        continue
                    recv_root = n.func.value
                    while isinstance(recv_root, (ast.Attribute, ast.Subscript)):
                        recv_root = recv_root.value
                    if m in ("append", "extend", "insert") and isinstance(recv_root, ast.Name) and recv_root.id in (local_in_loop - defined_before):
                        continue  # list local to one iteration
                    if m == "remove_node" and n.args:
                        x = u(n.args[0])
                        facts = flow(prog, fn).facts_for(n)
                        import re as _re
                        if any(p and _re.fullmatch(r"\w+\.degree[\[(]" + _re.escape(x) + r"[\])] == 0", t) for t, p in facts):
                            continue  # removing isolated nodes commutes: no other node's degree changes
                    return f"`{u(n)[:50]}` does not commute with itself across iterations"
    return None


def _element_dependent(body: list[ast.stmt], targets: set[str]) -> set[str]:
    """Names whose value inside the loop body depends (transitively) on the loop element."""
    dep = set(targets)
    changed = True
    while changed:
        changed = False
        for st in body:
            for n in ast.walk(st):
                tgts, val = [], None
                if isinstance(n, ast.Assign):
                    tgts, val = n.targets, n.value
                elif isinstance(n, (ast.AnnAssign, ast.NamedExpr, ast.AugAssign)):
                    tgts, val = [n.target], n.value
                elif isinstance(n, (ast.For, ast.comprehension)):
                    tgts, val = [n.target], n.iter
                if val is None:
                    continue
                if {x.id for x in ast.walk(val) if isinstance(x, ast.Name)} & dep:
                    for t in tgts:
                        for x in ast.walk(t):
                            if isinstance(x, ast.Name) and isinstance(x.ctx, ast.Store) and x.id not in dep:
                                dep.add(x.id)
                                changed = True
    return dep


def _inside(prog: Prog, node: ast.AST, anc: ast.AST) -> bool:
    return any(a is anc for a in prog.ancestors(node)) or node is anc


def scan_function(prog: Prog, fn: Fn) -> Iterator[Instance]:
    for n in prog.walk_fn(fn):
        # ---- for loops / comprehensions over an unordered expression
        iters: list[tuple[ast.AST, ast.AST, str]] = []  # (iter expr, owner node, owner kind)
        if isinstance(n, (ast.For, ast.AsyncFor)):
            iters.append((n.iter, n, "for"))
        elif isinstance(n, (ast.ListComp, ast.SetComp, ast.DictComp, ast.GeneratorExp)):
            for g in n.generators:
                iters.append((g.iter, n, type(n).__name__))
        for it, owner, okind in iters:
            srcs = [it]
            # itertools.product(a, b) / enumerate(s) / zip / reversed / iter: look through
            if isinstance(it, ast.Call) and u(it.func).split(".")[-1] in ("product", "enumerate", "zip", "iter", "chain", "list", "tuple", "reversed"):
                srcs = list(it.args)
            for s in srcs:
                if not unordered_expr(prog, s, fn):
                    continue
                src = norm_source(prog, fn, s)
                if okind == "for":
                    targets = {x.id for x in ast.walk(owner.target) if isinstance(x, ast.Name)}
                    why = _loop_body_order_sensitivity(prog, fn, owner, owner.body + owner.orelse, targets)
                    if why is None:
                        yield Instance(fn, owner, src, "loop", "commuting body", discharged="loop body performs only commutative, idempotent effects")
                    else:
                        yield Instance(fn, owner, src, "loop-order-sensitive", why)
                elif okind == "SetComp":
                    yield Instance(fn, owner, src, "set-comprehension", "", discharged="result is a set")
                elif okind == "DictComp":
                    g = owner.generators[0]
                    tnames = {x.id for x in ast.walk(g.target) if isinstance(x, ast.Name)}
                    key_has_elem = isinstance(owner.key, ast.Name) and owner.key.id in tnames or (isinstance(owner.key, ast.Tuple) and any(isinstance(x, ast.Name) and x.id in tnames for x in owner.key.elts))
                    if key_has_elem:
                        yield Instance(fn, owner, src, "dict-comprehension", "", discharged="keys are the (distinct) elements themselves")
                    else:
                        yield Instance(fn, owner, src, "dict-comprehension-last-wins", f"`{u(owner)[:60]}`: key `{u(owner.key)}` may repeat, the last element in set order wins")
                else:  # ListComp / GeneratorExp
                    par = prog.parent(owner)
                    if isinstance(par, ast.Call) and isinstance(par.func, ast.Name) and par.func.id in SAFE_FUNCS and owner in par.args:
                        yield Instance(fn, owner, src, "comprehension", "", discharged=f"consumed by {par.func.id}()")
                    elif isinstance(par, ast.Call) and isinstance(par.func, ast.Attribute) and par.func.attr in ("join",) and isinstance(prog.parent(par), ast.Call) and False:
                        pass
                    elif okind == "GeneratorExp" and isinstance(par, ast.Call) and isinstance(par.func, ast.Attribute) and par.func.attr in SET_METHODS_SAFE:
                        yield Instance(fn, owner, src, "comprehension", "", discharged=f"consumed by .{par.func.attr}()")
                    else:
                        yield Instance(fn, owner, src, "ordered-from-unordered", f"`{u(owner)[:60]}` builds a sequence in set iteration order")
        # ---- calls consuming an unordered expression
        if isinstance(n, ast.Call):
            fname = n.func.id if isinstance(n.func, ast.Name) else None
            if fname in ("list", "tuple") and len(n.args) == 1 and unordered_expr(prog, n.args[0], fn):
                src = norm_source(prog, fn, n.args[0])
                par = prog.parent(n)
                if isinstance(par, ast.Subscript) and par.value is n and not isinstance(par.slice, ast.Slice):
                    g = _singleton_guard(prog, fn, n, n.args[0])
                    yield Instance(fn, par, src, "pick-one", f"`{u(par)}` picks an element by position", discharged=g)
                elif isinstance(par, ast.Call) and isinstance(par.func, ast.Name) and par.func.id in SAFE_FUNCS:
                    yield Instance(fn, n, src, "list", "", discharged=f"consumed by {par.func.id}()")
                else:
                    yield Instance(fn, n, src, "ordered-from-unordered", f"`{u(n)[:60]}` fixes set iteration order into a sequence")
            elif fname == "next" and n.args and isinstance(n.args[0], ast.Call) and isinstance(n.args[0].func, ast.Name) and n.args[0].func.id == "iter" and n.args[0].args and unordered_expr(prog, n.args[0].args[0], fn):
                s = n.args[0].args[0]
                g = _singleton_guard(prog, fn, n, s)
                yield Instance(fn, n, norm_source(prog, fn, s), "pick-one", f"`{u(n)}` picks whichever element comes first", discharged=g)
            elif isinstance(n.func, ast.Attribute) and n.func.attr == "pop" and not n.args and unordered_expr(prog, n.func.value, fn):
                g = _singleton_guard(prog, fn, n, n.func.value)
                yield Instance(fn, n, norm_source(prog, fn, n.func.value), "pick-one", f"`{u(n)}` removes an arbitrary element", discharged=g)
            elif isinstance(n.func, ast.Attribute) and n.func.attr == "join" and n.args and unordered_expr(prog, n.args[0], fn):
                yield Instance(fn, n, norm_source(prog, fn, n.args[0]), "ordered-from-unordered", f"`{u(n)[:60]}` joins in set iteration order")
        # ---- star-unpacking / tuple unpacking of a set
        if isinstance(n, ast.Assign) and len(n.targets) == 1 and isinstance(n.targets[0], (ast.Tuple, ast.List)) and unordered_expr(prog, n.value, fn):
            g = _singleton_guard(prog, fn, n, n.value) if len(n.targets[0].elts) == 1 else None
            yield Instance(fn, n, norm_source(prog, fn, n.value), "pick-one", f"`{u(n)[:60]}` unpacks a set positionally", discharged=g)
