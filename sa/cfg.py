"""E1 - statement-level control-flow graph, dominance and must-hold guard facts.

Built per function from the `ast` only.  Conditions are split at short-circuit operators into atoms, so
every conditional edge carries one (atom, polarity) label.  A forward must-dataflow (meet = intersection)
gives, for every node, the set of facts `(normalised atom text, polarity)` that hold on *every* path
reaching it; facts are killed when a name they mention is re-bound or mutated in place.
"""

from __future__ import annotations

import ast
from dataclasses import dataclass, field
from typing import Iterable, Iterator, Optional

import networkx as nx

from .model import AnalysisError
from .normalise import is_marker

MUTATORS = {
    "append", "extend", "pop", "remove", "clear", "insert", "add", "discard", "update", "sort", "reverse",
    "popitem", "setdefault", "difference_update", "intersection_update", "appendleft", "popleft",
}

Fact = tuple[str, bool]


@dataclass
class CNode:
    id: int
    kind: str  # entry | exit | raise | stmt | cond | for | with_enter | with_exit | except | join
    ast: Optional[ast.AST] = None  # the statement / atom expression / For / With / ExceptHandler
    stmt: Optional[ast.stmt] = None  # enclosing statement

    @property
    def lineno(self) -> int:
        return getattr(self.ast, "lineno", 0) if self.ast is not None else 0

    def text(self) -> str:
        if self.ast is None:
            return self.kind
        if self.kind == "for":
            return f"for {ast.unparse(self.ast.target)} in {ast.unparse(self.ast.iter)}"
        if self.kind in ("with_enter", "with_exit"):
            return f"{self.kind} " + ", ".join(ast.unparse(i) for i in self.ast.items)
        if self.kind == "except":
            return "except " + (ast.unparse(self.ast.type) if self.ast.type is not None else "")
        try:
            return ast.unparse(self.ast).split("\n")[0]
        except Exception:
            return self.kind


def names_in(expr: ast.AST) -> set[str]:
    return {n.id for n in ast.walk(expr) if isinstance(n, ast.Name)}


def root_name(expr: ast.AST) -> Optional[str]:
    while isinstance(expr, (ast.Attribute, ast.Subscript, ast.Call, ast.Starred)):
        expr = expr.value if not isinstance(expr, ast.Call) else expr.func
    return expr.id if isinstance(expr, ast.Name) else None


def atom_facts(expr: ast.expr, pol: bool) -> list[Fact]:
    """Facts implied by `expr` evaluating truthy (pol=True) / falsy (pol=False)."""
    if isinstance(expr, ast.UnaryOp) and isinstance(expr.op, ast.Not):
        return atom_facts(expr.operand, not pol)
    if isinstance(expr, ast.BoolOp):
        if isinstance(expr.op, ast.And) and pol or isinstance(expr.op, ast.Or) and not pol:
            out: list[Fact] = []
            for v in expr.values:
                out += atom_facts(v, pol)
            return out
        return [(ast.unparse(expr), pol)]
    if isinstance(expr, ast.NamedExpr):
        return [(ast.unparse(expr.target), pol)] + atom_facts(expr.value, pol)
    if isinstance(expr, ast.Call) and isinstance(expr.func, ast.Name) and expr.func.id == "bool" and len(expr.args) == 1:
        return atom_facts(expr.args[0], pol) + [(ast.unparse(expr), pol)]
    if isinstance(expr, ast.Compare) and len(expr.ops) == 1:
        op, left, right = expr.ops[0], expr.left, expr.comparators[0]
        txt = ast.unparse(expr)
        out = [(txt, pol)]
        if any(isinstance(x, ast.NamedExpr) for x in ast.walk(left)) and not isinstance(left, ast.NamedExpr):
            # len(xs := f()) == 1  also states  len(xs) == 1
            import copy

            class _W(ast.NodeTransformer):
                def visit_NamedExpr(self, node):
                    return node.target

            stripped = ast.Compare(left=_W().visit(copy.deepcopy(left)), ops=[op], comparators=[right])
            out += atom_facts(ast.fix_missing_locations(stripped), pol)
        # canonical complementary spellings so that rules can ask one question
        flip = {ast.Is: ast.IsNot, ast.IsNot: ast.Is, ast.In: ast.NotIn, ast.NotIn: ast.In, ast.Eq: ast.NotEq,
                ast.NotEq: ast.Eq, ast.Lt: ast.GtE, ast.GtE: ast.Lt, ast.Gt: ast.LtE, ast.LtE: ast.Gt}
        if type(op) in flip:
            comp = ast.Compare(left=left, ops=[flip[type(op)]()], comparators=[right])
            out.append((ast.unparse(comp), not pol))
        if isinstance(left, ast.NamedExpr):
            # (x := f()) is not None
            inner = ast.Compare(left=left.target, ops=[op], comparators=[right])
            out += atom_facts(inner, pol)
        return out
    return [(ast.unparse(expr), pol)]


class CFG:
    def __init__(self, fnode: ast.AST):
        self.fnode = fnode
        self.g = nx.DiGraph()
        self.nodes: dict[int, CNode] = {}
        self._next = 0
        self.entry = self._new("entry").id
        self.exit = self._new("exit").id
        self.raise_exit = self._new("raise").id
        self.owner: dict[int, int] = {}  # id(ast subnode) -> cfg node id
        self._loop_stack: list[tuple[int, int]] = []  # (continue target, break target)
        self._handler_stack: list[list[int]] = []  # innermost try handlers entry nodes
        self._with_stack: list[int] = []
        self._inl_targets: dict[str, int] = {}
        body = fnode.body if not isinstance(fnode, ast.Lambda) else [ast.Return(value=fnode.body)]
        last = self._seq(body, [self.entry])
        self._link(last, self.exit)
        self._facts: Optional[dict[int, frozenset]] = None
        self._idom: Optional[dict[int, int]] = None
        self._ipdom: Optional[dict[int, int]] = None

    # ---- construction ---------------------------------------------------------------
    def _new(self, kind: str, node: Optional[ast.AST] = None, stmt: Optional[ast.stmt] = None) -> CNode:
        c = CNode(self._next, kind, node, stmt)
        self.nodes[c.id] = c
        self.g.add_node(c.id)
        self._next += 1
        return c

    def _own(self, cid: int, *roots: ast.AST, shallow_stmt: bool = False) -> None:
        for r in roots:
            if r is None:
                continue
            for n in ast.walk(r):
                self.owner.setdefault(id(n), cid)

    def _edge(self, u: int, v: int, label: Optional[tuple[ast.expr, bool]] = None, kind: str = "normal") -> None:
        if self.g.has_edge(u, v):
            # keep the weaker information: two different labels between the same pair => no label
            if self.g[u][v].get("label") is not None and label is not None and (
                ast.dump(self.g[u][v]["label"][0]) != ast.dump(label[0]) or self.g[u][v]["label"][1] != label[1]
            ):
                self.g[u][v]["label"] = None
            elif label is None:
                self.g[u][v]["label"] = None
            return
        self.g.add_edge(u, v, label=label, kind=kind)

    def _seq(self, body: list[ast.stmt], preds: list[int]) -> list[int]:
        for st in body:
            preds = self._stmt(st, preds)
        return preds

    def _link(self, preds: Iterable, node: int) -> None:
        for p in preds:
            if isinstance(p, tuple):
                self._edge(p[0], node, label=p[1])
            else:
                self._edge(p, node)

    def _cond(self, expr: ast.expr, preds: list, stmt: ast.stmt) -> tuple[list, list]:
        """Returns (true_exits, false_exits): lists of (node, label) pending edges."""
        if isinstance(expr, ast.BoolOp):
            if isinstance(expr.op, ast.And):
                falses: list = []
                cur = preds
                for v in expr.values:
                    t, f = self._cond(v, cur, stmt)
                    falses += f
                    cur = t
                return cur, falses
            trues: list = []
            cur = preds
            for v in expr.values:
                t, f = self._cond(v, cur, stmt)
                trues += t
                cur = f
            return trues, cur
        if isinstance(expr, ast.UnaryOp) and isinstance(expr.op, ast.Not):
            t, f = self._cond(expr.operand, preds, stmt)
            return f, t
        c = self._new("cond", expr, stmt)
        self._own(c.id, expr)
        self._link(preds, c.id)
        self._exc_edges(c.id)
        return [(c.id, (expr, True))], [(c.id, (expr, False))]

    def _exc_edges(self, nid: int) -> None:
        """Inside a try body every node may transfer to the innermost handlers."""
        if self._handler_stack:
            for h in self._handler_stack[-1]:
                self._edge(nid, h, kind="exc")

    def _raise_targets(self) -> list[int]:
        if self._handler_stack and self._handler_stack[-1]:
            # a raise inside a try body may be caught by the handlers, or propagate if none matches
            return list(self._handler_stack[-1]) + [self.raise_exit]
        return [self.raise_exit]

    def _stmt(self, st: ast.stmt, preds: list) -> list:
        if isinstance(st, ast.If):
            self.owner.setdefault(id(st), self._next)  # the statement itself maps to its first condition atom
            t, f = self._cond(st.test, preds, st)
            out = self._seq(st.body, t)
            out2 = self._seq(st.orelse, f) if st.orelse else f
            return list(out) + list(out2)
        if isinstance(st, (ast.For, ast.AsyncFor)):
            h = self._new("for", st, st)
            self.owner.setdefault(id(st), h.id)
            self._own(h.id, st.target, st.iter)
            self._link(preds, h.id)
            self._exc_edges(h.id)
            brk = self._new("join", None, st)
            self._loop_stack.append((h.id, brk.id))
            body_out = self._seq(st.body, [(h.id, (ast.Name(id="<iter>", ctx=ast.Load()), True))])
            self._loop_stack.pop()
            for p in body_out:
                if isinstance(p, tuple):
                    self._edge(p[0], h.id, label=p[1], kind="back")
                else:
                    self._edge(p, h.id, kind="back")
            exhausted = [(h.id, (ast.Name(id="<iter>", ctx=ast.Load()), False))]
            out = self._seq(st.orelse, exhausted) if st.orelse else exhausted
            self._link(out, brk.id)
            return [brk.id]
        if isinstance(st, ast.While):
            head = self._new("join", None, st)
            self.owner.setdefault(id(st), head.id)
            self._link(preds, head.id)
            t, f = self._cond(st.test, [head.id], st)
            brk = self._new("join", None, st)
            self._loop_stack.append((head.id, brk.id))
            body_out = self._seq(st.body, t)
            self._loop_stack.pop()
            for p in body_out:
                if isinstance(p, tuple):
                    self._edge(p[0], head.id, label=p[1], kind="back")
                else:
                    self._edge(p, head.id, kind="back")
            out = self._seq(st.orelse, f) if st.orelse else f
            self._link(out, brk.id)
            return [brk.id]
        if isinstance(st, (ast.With, ast.AsyncWith)):
            en = self._new("with_enter", st, st)
            self.owner.setdefault(id(st), en.id)
            for it in st.items:
                self._own(en.id, it.context_expr, it.optional_vars)
            self._link(preds, en.id)
            self._exc_edges(en.id)
            ex = self._new("with_exit", st, st)
            self._with_stack.append(ex.id)
            out = self._seq(st.body, [en.id])
            self._with_stack.pop()
            self._link(out, ex.id)
            return [ex.id]
        if isinstance(st, ast.Try) and is_marker(st):
            # structured block of an absorbed helper (normalise.py): `raise __inl_ret_N` jumps to its end, nothing else does
            tryin = self._new("join", None, st)
            self.owner.setdefault(id(st), tryin.id)
            self._link(preds, tryin.id)
            end = self._new("join", None, st)
            self._inl_targets[st.handlers[0].type.id] = end.id
            body_out = self._seq(st.body, [tryin.id])
            self._link(body_out, end.id)
            return [end.id]
        if isinstance(st, ast.Try) or st.__class__.__name__ == "TryStar":
            handlers = []
            for h in st.handlers:
                hn = self._new("except", h, st)
                self._own(hn.id, h.type)
                handlers.append(hn.id)
            tryin = self._new("join", None, st)
            self.owner.setdefault(id(st), tryin.id)
            self._link(preds, tryin.id)
            self._handler_stack.append(handlers)
            for h in handlers:
                self._edge(tryin.id, h, kind="exc")
            body_out = self._seq(st.body, [tryin.id])
            self._handler_stack.pop()
            outs: list = []
            normal = self._seq(st.orelse, body_out) if st.orelse else body_out
            outs += list(normal)
            for h, hid in zip(st.handlers, handlers):
                outs += list(self._seq(h.body, [hid]))
            if st.finalbody:
                outs = list(self._seq(st.finalbody, outs))
            return outs
        if isinstance(st, (ast.FunctionDef, ast.AsyncFunctionDef, ast.ClassDef)):
            n = self._new("stmt", st, st)
            for d in st.decorator_list:
                self._own(n.id, d)
            self._link(preds, n.id)
            return [n.id]
        if st.__class__.__name__ == "Match":
            raise AnalysisError("match statement not modelled by the CFG builder")
        # simple statements
        n = self._new("stmt", st, st)
        self._own(n.id, st)
        self._link(preds, n.id)
        self._exc_edges(n.id)
        if isinstance(st, ast.Return):
            self._edge(n.id, self.exit)
            return []
        if isinstance(st, ast.Raise) and is_marker(st):
            self._edge(n.id, self._inl_targets[st.exc.id])
            return []
        if isinstance(st, ast.Raise):
            for t in self._raise_targets():
                self._edge(n.id, t, kind="exc")
            return []
        if isinstance(st, ast.Break):
            if self._loop_stack:
                self._edge(n.id, self._loop_stack[-1][1])
            return []
        if isinstance(st, ast.Continue):
            if self._loop_stack:
                self._edge(n.id, self._loop_stack[-1][0], kind="back")
            return []
        if isinstance(st, ast.Assert):
            return [n.id]
        if isinstance(st, ast.Expr) and isinstance(st.value, ast.Call) and ast.unparse(st.value.func) in ("exit", "sys.exit", "os._exit"):
            self._edge(n.id, self.raise_exit, kind="exc")
            return []
        return [n.id]

    # ---- queries --------------------------------------------------------------------
    def node_for(self, node: ast.AST) -> Optional[int]:
        return self.owner.get(id(node))

    def stmt_nodes(self) -> Iterator[CNode]:
        for c in self.nodes.values():
            if c.kind not in ("entry", "exit", "raise", "join"):
                yield c

    def reachable_nodes(self) -> set[int]:
        return set(nx.descendants(self.g, self.entry)) | {self.entry}

    @property
    def idom(self) -> dict[int, int]:
        if self._idom is None:
            self._idom = dict(nx.immediate_dominators(self.g, self.entry))
        return self._idom

    def dominates(self, a: int, b: int) -> bool:
        """a dominates b (every path entry->b passes a)."""
        if b not in self.idom:
            return False  # unreachable
        n = b
        while True:
            if n == a:
                return True
            p = self.idom.get(n)
            if p is None or p == n:
                return False
            n = p

    def postdominates(self, a: int, b: int, include_raise: bool = False) -> bool:
        """Every path from b to the (normal) exit passes through a."""
        g = self.g.reverse(copy=True)
        sink = -1
        g.add_node(sink)
        g.add_edge(sink, self.exit)
        if include_raise:
            g.add_edge(sink, self.raise_exit)
        try:
            ipdom = nx.immediate_dominators(g, sink)
        except nx.NetworkXError:
            return False
        if b not in ipdom:
            return True  # b cannot reach the exit at all
        n = b
        while True:
            if n == a:
                return True
            p = ipdom.get(n)
            if p is None or p == n or p == sink:
                return False
            n = p

    def reach(self, src: int, dst: int, avoid: Iterable[int] = (), skip_exc: bool = False) -> bool:
        avoid = set(avoid)
        if src in avoid:
            return False
        seen, todo = {src}, [src]
        while todo:
            n = todo.pop()
            for s in self.g.successors(n):
                if skip_exc and self.g[n][s].get("kind") == "exc":
                    continue
                if s == dst:
                    return True
                if s in seen or s in avoid:
                    continue
                seen.add(s)
                todo.append(s)
        return False

    def path(self, src: int, dst: int, avoid: Iterable[int] = ()) -> Optional[list[int]]:
        g = self.g
        if avoid:
            g = self.g.subgraph([n for n in self.g if n not in set(avoid) or n in (src, dst)])
        try:
            return nx.shortest_path(g, src, dst)
        except (nx.NetworkXNoPath, nx.NodeNotFound):
            return None

    # ---- must-hold facts ------------------------------------------------------------
    def _kills(self, c: CNode) -> set[str]:
        """Names (re)bound or mutated in place by this node."""
        out: set[str] = set()
        a = c.ast
        if a is None:
            return out
        roots: list[ast.AST] = []
        if c.kind == "for":
            roots = [a.target, a.iter]
            out |= names_in(a.target)
        elif c.kind == "with_enter":
            for it in a.items:
                roots.append(it.context_expr)
                if it.optional_vars is not None:
                    out |= names_in(it.optional_vars)
        elif c.kind == "except":
            if a.name:
                out.add(a.name)
        elif c.kind in ("stmt", "cond"):
            roots = [a]
            if isinstance(a, ast.Assign):
                for t in a.targets:
                    out |= self._target_names(t)
            elif isinstance(a, (ast.AugAssign, ast.AnnAssign)):
                out |= self._target_names(a.target)
            elif isinstance(a, ast.Delete):
                for t in a.targets:
                    out |= self._target_names(t)
            elif isinstance(a, (ast.FunctionDef, ast.AsyncFunctionDef, ast.ClassDef)):
                out.add(a.name)
                roots = []
        for r in roots:
            for n in ast.walk(r):
                if isinstance(n, ast.NamedExpr):
                    out |= names_in(n.target)
                elif isinstance(n, ast.Call) and isinstance(n.func, ast.Attribute) and n.func.attr in MUTATORS:
                    rn = root_name(n.func.value)
                    if rn:
                        out.add("~" + ast.unparse(n.func.value))  # in-place mutation of that object expression
        return out

    @staticmethod
    def _target_names(t: ast.AST) -> set[str]:
        if isinstance(t, ast.Name):
            return {t.id}
        if isinstance(t, (ast.Tuple, ast.List)):
            out: set[str] = set()
            for e in t.elts:
                out |= CFG._target_names(e)
            return out
        if isinstance(t, ast.Starred):
            return CFG._target_names(t.value)
        if isinstance(t, (ast.Attribute, ast.Subscript)):
            return {"~" + ast.unparse(t.value)} | ({"~" + ast.unparse(t)} if isinstance(t, ast.Attribute) else set())
        return set()

    @staticmethod
    def _fact_killed(fact: Fact, kills: set[str]) -> bool:
        if not kills:
            return False
        try:
            tree = ast.parse(fact[0], mode="eval").body
        except SyntaxError:
            return True
        names = names_in(tree)
        for k in kills:
            if k.startswith("~"):
                obj = k[1:]
                # fact mentions the mutated object expression (textually, as a sub-expression)
                for n in ast.walk(tree):
                    if isinstance(n, (ast.Name, ast.Attribute, ast.Subscript)) and ast.unparse(n) == obj:
                        return True
            elif k in names:
                return True
        return False

    _WRAPPERS = ("list", "tuple", "sorted", "reversed", "set", "frozenset", "iter")

    def _element_facts(self, st: ast.AST) -> list[Fact]:
        """Facts about the loop variable of `for x in L` when L is (a local bound once to) a filtered comprehension `[e for e in S if C(e)]`:
        every element satisfies C, so C(x) holds in the loop body.  The same loop written with the filter inside gets the same facts."""
        if not isinstance(st, (ast.For, ast.AsyncFor)) or not isinstance(st.target, ast.Name):
            return []
        it = st.iter

        def unwrap(e):
            while isinstance(e, ast.Call) and isinstance(e.func, ast.Name) and e.func.id in self._WRAPPERS and len(e.args) >= 1:
                e = e.args[0]
            return e

        it = unwrap(it)
        if isinstance(it, ast.Name):
            stores = [n for n in ast.walk(self.fnode) if isinstance(n, ast.Name) and n.id == it.id and isinstance(n.ctx, (ast.Store, ast.Del))]
            assigns = [n for n in ast.walk(self.fnode) if isinstance(n, ast.Assign) and len(n.targets) == 1 and isinstance(n.targets[0], ast.Name) and n.targets[0].id == it.id]
            mutated = any(isinstance(n, ast.Call) and isinstance(n.func, ast.Attribute) and n.func.attr in MUTATORS and isinstance(n.func.value, ast.Name) and n.func.value.id == it.id for n in ast.walk(self.fnode))
            if len(stores) != 1 or len(assigns) != 1 or mutated:
                return []
            it = unwrap(assigns[0].value)
        if not isinstance(it, (ast.ListComp, ast.SetComp, ast.GeneratorExp)) or len(it.generators) != 1 or not isinstance(it.elt, ast.Name):
            return []
        g = it.generators[0]
        if it.elt.id not in names_in(g.target):
            return []
        import copy

        out: list[Fact] = []
        for cond in g.ifs:
            c2 = copy.deepcopy(cond)
            for n in ast.walk(c2):
                if isinstance(n, ast.Name) and n.id == it.elt.id:
                    n.id = st.target.id
            out += atom_facts(c2, True)
        return out

    def facts(self) -> dict[int, frozenset]:
        """facts[n] = facts holding on entry of node n on every path (must analysis)."""
        if self._facts is not None:
            return self._facts
        TOP = None
        inn: dict[int, Optional[frozenset]] = {n: TOP for n in self.g}
        inn[self.entry] = frozenset()
        kills = {n: self._kills(c) for n, c in self.nodes.items()}
        work = [self.entry]
        order = list(nx.dfs_preorder_nodes(self.g, self.entry))
        changed = True
        it = 0
        while changed:
            changed = False
            it += 1
            if it > 200:
                raise AnalysisError("guard dataflow did not converge")
            for n in order:
                if inn[n] is TOP:
                    continue
                base = frozenset(f for f in inn[n] if not self._fact_killed(f, kills[n]))
                for s in self.g.successors(n):
                    lab = self.g[n][s].get("label")
                    out = set(base)
                    if lab is not None and not (isinstance(lab[0], ast.Name) and lab[0].id == "<iter>"):
                        out |= set(atom_facts(lab[0], lab[1]))
                    elif lab is not None and lab[1] is True and self.nodes[n].kind == "for":
                        out |= set(self._element_facts(self.nodes[n].ast))
                    if self.g[n][s].get("kind") == "exc":
                        # on an exceptional edge the node may not have completed: keep only entry facts
                        out = set(inn[n])
                    new = frozenset(out) if inn[s] is TOP else inn[s] & frozenset(out)
                    if new != inn[s]:
                        inn[s] = new
                        changed = True
        self._facts = {n: (f if f is not None else frozenset()) for n, f in inn.items()}
        return self._facts

    def facts_at(self, nid: int) -> frozenset:
        return self.facts().get(nid, frozenset())


# --------------------------------------------------------------------------------------
# expression-level guards (IfExp / short-circuit / comprehension conditions inside one CFG node)
# --------------------------------------------------------------------------------------


def expr_guards(parents: dict[int, ast.AST], node: ast.AST, stop: Optional[set[int]] = None) -> list[Fact]:
    """Facts that hold whenever `node` is evaluated, contributed by enclosing expressions up to the statement."""
    out: list[Fact] = []
    child = node
    par = parents.get(id(child))
    while par is not None and not isinstance(par, ast.stmt):
        if isinstance(par, ast.IfExp):
            if child is par.body:
                out += atom_facts(par.test, True)
            elif child is par.orelse:
                out += atom_facts(par.test, False)
        elif isinstance(par, ast.BoolOp):
            idx = next((i for i, v in enumerate(par.values) if v is child), None)
            if idx:
                for v in par.values[:idx]:
                    out += atom_facts(v, isinstance(par.op, ast.And))
        elif isinstance(par, (ast.ListComp, ast.SetComp, ast.GeneratorExp, ast.DictComp)):
            elts = [par.elt] if not isinstance(par, ast.DictComp) else [par.key, par.value]
            if any(child is e for e in elts):
                for g in par.generators:
                    for cond in g.ifs:
                        out += atom_facts(cond, True)
            else:
                # a later generator (its iterable, its filters) runs under the filters of the generators before it
                k = next((i for i, g in enumerate(par.generators) if g is child), 0)
                for g in par.generators[:k]:
                    for cond in g.ifs:
                        out += atom_facts(cond, True)
        elif isinstance(par, ast.comprehension):
            if any(child is c for c in par.ifs):
                idx = next(i for i, c in enumerate(par.ifs) if c is child)
                for c in par.ifs[:idx]:
                    out += atom_facts(c, True)
        child = par
        par = parents.get(id(child))
        if stop is not None and id(child) in stop:
            break
    return out


def controlling_facts(parents: dict[int, ast.AST], node: ast.AST) -> list[Fact]:
    """Facts implied by the tests of the enclosing if / while / conditional constructs at the moment control *entered* the branch holding
    `node` (syntactic control dependence with polarity).  Unlike the dataflow facts they are not killed by later mutation inside the branch:
    they answer "under which condition was this branch taken", e.g. for a loop body that itself fills the list whose emptiness was tested."""
    out: list[Fact] = []
    child = node
    par = parents.get(id(child))
    while par is not None and not isinstance(par, (ast.FunctionDef, ast.AsyncFunctionDef, ast.Lambda, ast.ClassDef, ast.Module)):
        if isinstance(par, (ast.If, ast.While)) and child is not par.test:
            in_body = any(child is s for s in par.body)
            in_else = any(child is s for s in par.orelse)
            if in_body:
                out += atom_facts(par.test, True)
            elif in_else and isinstance(par, ast.If):
                out += atom_facts(par.test, False)
        elif isinstance(par, ast.IfExp):
            if child is par.body:
                out += atom_facts(par.test, True)
            elif child is par.orelse:
                out += atom_facts(par.test, False)
        child = par
        par = parents.get(id(child))
    return out


class FnFlow:
    """CFG + facts + convenience for one function of the program model."""

    def __init__(self, prog, fn):
        self.prog = prog
        self.fn = fn
        self.cfg = CFG(fn.node)

    def facts_for(self, node: ast.AST) -> set[Fact]:
        """All facts known to hold when expression/statement `node` is evaluated."""
        nid = self.cfg.node_for(node)
        facts: set[Fact] = set()
        if nid is not None:
            facts |= set(self.cfg.facts_at(nid))
        facts |= set(expr_guards(self.prog.parents, node))
        # a nested function (closure) that does not escape runs only while its enclosing function is past the `def`: what held there about
        # names bound once in the enclosing function (or its parameters) still holds inside the closure
        outer = getattr(self.fn, "parent", None)
        if outer is not None and isinstance(self.fn.node, (ast.FunctionDef, ast.AsyncFunctionDef)) and not getattr(self, "_in_outer", False):
            refs = [n for n in ast.walk(outer.node) if isinstance(n, ast.Name) and n.id == self.fn.name and isinstance(n.ctx, ast.Load)]
            only_called = bool(refs) and all(isinstance(self.prog.parents.get(id(r)), ast.Call) and self.prog.parents[id(r)].func is r for r in refs)
            own_bound = set(self.fn.params()) | set(self.prog._all_local_defs(self.fn))
            if only_called:
                of = flow(self.prog, outer)
                of._in_outer = True
                try:
                    inherited = of.facts_for(self.fn.node) | set(controlling_facts(self.prog.parents, self.fn.node))
                finally:
                    of._in_outer = False
                for t, pol in inherited:
                    try:
                        nm = {x.id for x in ast.walk(ast.parse(t, mode="eval")) if isinstance(x, ast.Name)}
                    except SyntaxError:
                        continue
                    if nm & own_bound:
                        continue
                    if all(len(self.prog.local_defs(outer, x)) <= 1 for x in nm):
                        facts.add((t, pol))
        return facts

    def holds(self, node: ast.AST, text: str, pol: bool = True) -> bool:
        return (text, pol) in self.facts_for(node)

    def reaching_defs(self, node: ast.AST, name: str) -> list[tuple[str, ast.AST]]:
        """The definitions of local `name` (as in Prog.local_defs) that may reach the evaluation of `node`: a definition reaches it when
        some CFG path leads from the defining statement to the use without passing another definition of the name.  Falls back to all
        definitions when the use or a definition cannot be placed in the CFG (comprehension scopes)."""
        defs = self.prog.local_defs(self.fn, name)
        use = self.cfg.node_for(node)
        if use is None or len(defs) <= 1:
            return list(defs)
        placed = []
        for kind, dn in defs:
            anchor = dn
            if kind == "with":
                anchor = dn.context_expr
            nid = self.cfg.node_for(anchor)
            if nid is None:
                return list(defs)
            placed.append((kind, dn, nid))
        ids = {nid for _, _, nid in placed}
        out = []
        for kind, dn, nid in placed:
            if self.cfg.reach(nid, use, avoid=ids - {nid}) or nid == use and kind in ("for", "walrus"):
                out.append((kind, dn))
        return out


    def reaching_defs_assuming(self, node: ast.AST, name: str, atom_text: str, polarity: bool = True) -> list[tuple[str, ast.AST]]:
        """reaching_defs restricted to the paths on which `atom_text` has truth value `polarity` wherever it is tested: a definition counts
        when some CFG path leads from it to the use without another definition of the name and without a branch edge that says the
        opposite.  (The atom must not change its value between the definition and the use: callers pass tests on a parameter.)"""
        defs = self.prog.local_defs(self.fn, name)
        use = self.cfg.node_for(node)
        if use is None:
            return list(defs)
        placed = []
        for kind, dn in defs:
            nid = self.cfg.node_for(dn.context_expr if kind == "with" else dn)
            if nid is None:
                return list(defs)
            placed.append((kind, dn, nid))
        ids = {nid for _, _, nid in placed}
        g = self.cfg.g

        def contradicted(a: int, b: int) -> bool:
            lab = g[a][b].get("label")
            return lab is not None and ast.unparse(lab[0]) == atom_text and lab[1] != polarity

        out = []
        for kind, dn, nid in placed:
            seen, todo, hit = {nid}, [nid], False
            while todo and not hit:
                n = todo.pop()
                for s_ in g.successors(n):
                    if contradicted(n, s_):
                        continue
                    if s_ == use:
                        hit = True
                        break
                    if s_ in seen or s_ in ids:
                        continue
                    seen.add(s_)
                    todo.append(s_)
            if hit or (nid == use and kind in ("for", "walrus")):
                out.append((kind, dn))
        return out


_flow_cache: dict = {}


def flow(prog, fn) -> FnFlow:
    key = (id(prog), fn.qual)
    if key not in _flow_cache:
        _flow_cache[key] = FnFlow(prog, fn)
    return _flow_cache[key]
