"""Rename-invariant (canonical) text of expressions: local variable names are replaced by where their value comes from.

Rules must not depend on the spelling of local variables.  `canon(prog, fn, expr)` rewrites every local Name into a token derived
from its definitions (`<.write>`, `<get_child()>`, `<param:statement>`, `<loop:.drop>` ...), so that whitelists and keys survive an
alpha-renaming of the code base.
"""

from __future__ import annotations

import ast
import copy
from typing import Optional

from .astutil import u
from .model import Fn, Prog


def origin(prog: Prog, fn: Fn, name: str, depth: int = 0) -> str:
    """Canonical token for a local name."""
    if depth > 3:
        return "<?>"
    if prog.param_type(fn, name) is not None and not prog.local_defs(fn, name):
        ps = fn.params()
        return f"<param:{ps.index(name)}>" if name in ps else f"<param:{name}>"
    defs = prog.local_defs(fn, name)
    if not defs:
        # enclosing function's locals / params (closures)
        if fn.parent is not None:
            return origin(prog, fn.parent, name, depth + 1)
        return name  # global / builtin / imported: keep
    toks = set()
    for kind, node in defs:
        val = getattr(node, "value", None)
        if kind in ("assign", "walrus", "annassign") and val is not None:
            # `x = a if c else b` and `x = b` / `if c: x = a` bind x to the same two sources
            alts = [val]
            flat = []
            while alts:
                v = alts.pop()
                if isinstance(v, ast.IfExp):
                    alts += [v.body, v.orelse]
                elif isinstance(v, ast.BoolOp) and isinstance(v.op, ast.Or):
                    alts += list(v.values)
                else:
                    flat.append(v)
            for v in flat:
                tk = _src(prog, fn, v, depth + 1)
                # a nested origin `<a|b>` contributes its members
                if tk.startswith("<") and tk.endswith(">") and tk.count("<") == 1:
                    toks.update(tk[1:-1].split("|"))
                else:
                    toks.add(tk)
        elif kind == "augassign":
            toks.add("+=" + _src(prog, fn, node.value, depth + 1))
        elif kind in ("for", "comp"):
            toks.add("loop:" + _src(prog, fn, node.iter, depth + 1))
        elif kind.startswith("unpack:"):
            src = node.value if isinstance(node, ast.Assign) else getattr(node, "iter", None)
            toks.add(f"{kind}:" + (_src(prog, fn, src, depth + 1) if src is not None else "?"))
        elif kind == "with":
            toks.add("with:" + _src(prog, fn, node.context_expr, depth + 1))
        elif kind == "except":
            toks.add("except")
    if len(toks) == 1:
        (only,) = toks
        if only.startswith("<") and only.endswith(">"):
            return only  # a plain alias of another local: same origin, no extra wrapping
    return "<" + "|".join(sorted(toks)) + ">"


def _src(prog: Prog, fn: Fn, e: ast.AST, depth: int) -> str:
    if isinstance(e, ast.NamedExpr):
        return _src(prog, fn, e.value, depth)
    if isinstance(e, ast.Constant):
        return repr(e.value)
    if isinstance(e, ast.Call):
        f = e.func
        nm = f.attr if isinstance(f, ast.Attribute) else f.id if isinstance(f, ast.Name) else "call"
        if nm in ("list", "set", "tuple", "sorted", "enumerate", "iter", "next", "reversed") and e.args:
            return f"{nm}({_src(prog, fn, e.args[0], depth)})"
        if nm in ("get_child", "get_children", "recursive_crawl") and e.args:
            a = prog.try_fold(e.args[0], fn.mod, fn)
            return f"{nm}({a!r})" if isinstance(a, str) else f"{nm}()"
        return f"{nm}()"
    if isinstance(e, ast.Attribute):
        return f".{e.attr}"
    if isinstance(e, ast.Subscript):
        return _src(prog, fn, e.value, depth) + "[]"
    if isinstance(e, ast.Name):
        return origin(prog, fn, e.id, depth)
    if isinstance(e, (ast.List, ast.ListComp)):
        return "[list]" if not (isinstance(e, ast.List) and not e.elts) else "[]"
    if isinstance(e, (ast.Dict, ast.DictComp)):
        return "{dict}"
    if isinstance(e, (ast.Set, ast.SetComp)):
        return "{set}"
    if isinstance(e, ast.Tuple):
        return "(" + ",".join(_src(prog, fn, x, depth) for x in e.elts) + ")"
    if isinstance(e, ast.IfExp):
        return "ifexp"
    if isinstance(e, ast.BinOp):
        return "binop"
    return type(e).__name__


def canon(prog: Prog, fn: Fn, expr: ast.AST, as_ast: bool = False):
    """Text of `expr` with local names replaced by their origin tokens."""

    def predicate_like(e: ast.AST) -> bool:
        if isinstance(e, (ast.Compare, ast.BoolOp)) or (isinstance(e, ast.UnaryOp) and isinstance(e.op, ast.Not)):
            return True
        return isinstance(e, ast.Call) and isinstance(e.func, ast.Name) and e.func.id in ("isinstance", "bool", "hasattr", "callable", "any", "all", "issubclass")

    class R(ast.NodeTransformer):
        depth = 0

        def visit_Name(self, node):
            if node.id in ("self", "cls", "True", "False", "None"):
                return node
            # a flag that names a condition (`is_table = isinstance(x, Table)`) stands for that condition
            defs = prog.local_defs(fn, node.id)
            if len(defs) == 1 and defs[0][0] in ("assign", "walrus") and getattr(defs[0][1], "value", None) is not None and predicate_like(defs[0][1].value) and self.depth < 4:
                self.depth += 1
                try:
                    return self.visit(copy.deepcopy(defs[0][1].value))
                finally:
                    self.depth -= 1
            tok = origin(prog, fn, node.id)
            if tok == node.id:
                return node
            return ast.copy_location(ast.Name(id=tok, ctx=node.ctx), node)

        def visit_NamedExpr(self, node):
            return self.visit(node.value)

    try:
        out = R().visit(copy.deepcopy(expr))
    except Exception:
        out = expr
    return out if as_ast else u(out)


def canon_text(prog: Prog, fn: Fn, text: str) -> str:
    try:
        return canon(prog, fn, ast.parse(text, mode="eval").body)
    except SyntaxError:
        return text


def expr_origin(prog: Prog, fn: Fn, e: ast.AST) -> str:
    """The origin token a local bound to `e` would get (`x = e`): conditional expressions and `or` chains are alternative sources."""
    alts = [e]
    flat = []
    while alts:
        v = alts.pop()
        if isinstance(v, ast.NamedExpr):
            alts.append(v.value)
        elif isinstance(v, ast.IfExp):
            alts += [v.body, v.orelse]
        elif isinstance(v, ast.BoolOp) and isinstance(v.op, ast.Or):
            alts += list(v.values)
        else:
            flat.append(v)
    toks: set[str] = set()
    for v in flat:
        tk = _src(prog, fn, v, 1)
        if tk.startswith("<") and tk.endswith(">") and tk.count("<") == 1:
            toks.update(tk[1:-1].split("|"))
        else:
            toks.add(tk)
    if len(toks) == 1:
        (only,) = toks
        if only.startswith("<") and only.endswith(">"):
            return only
    return "<" + "|".join(sorted(toks)) + ">"
