"""E3 - grammar model read statically from the installed sqlfluff dialect sources (no import of sqlfluff).

  * vocabulary(): every segment type name any installed dialect (or the core parser) can produce,
  * Grammar('ansi'): for one dialect (inheriting from ANSI textually), segment class -> type and the relation
    "a node of type T may have a direct child of type U", with grammar-only names (added with dialect.add)
    made transparent; terminators / exclude sub-trees are skipped.  The relation over-approximates (all
    alternatives are united), so it is used only to *demand* coverage, never to prove absence.
"""

from __future__ import annotations

import ast
import os
import sys
from functools import lru_cache
from typing import Iterable, Optional

from .model import AnalysisError

SKIP_KWARGS = {"terminators", "exclude", "reset_terminators", "replace_terminators", "parse_mode", "optional", "allow_gaps", "min_times",
               "max_times", "delimiter", "bracket_type", "bracket_pairs_set", "allow_trailing", "before", "at", "min_delimiters", "max_times_per_element"}


def sqlfluff_dir() -> str:
    for p in sys.path:
        cand = os.path.join(p, "sqlfluff", "__init__.py")
        if p and os.path.exists(cand):
            return os.path.dirname(cand)
    # the repository's interpreter environment
    for base in ("/venv/lib",):
        if os.path.isdir(base):
            for d in sorted(os.listdir(base)):
                cand = os.path.join(base, d, "site-packages", "sqlfluff")
                if os.path.isdir(cand):
                    return cand
    raise AnalysisError("installed sqlfluff sources not found")


@lru_cache(maxsize=None)
def _parse(path: str) -> ast.Module:
    with open(path, encoding="utf-8") as fh:
        return ast.parse(fh.read(), filename=path)


@lru_cache(maxsize=1)
def vocabulary() -> frozenset:
    root = sqlfluff_dir()
    out: set[str] = set()
    files = []
    for sub in ("dialects", os.path.join("core", "parser")):
        for dirpath, _, fns in os.walk(os.path.join(root, sub)):
            files += [os.path.join(dirpath, f) for f in fns if f.endswith(".py") and not f.endswith("_keywords.py")]
    for path in files:
        tree = _parse(path)
        for n in ast.walk(tree):
            if isinstance(n, ast.ClassDef):
                for st in n.body:
                    tgt = val = None
                    if isinstance(st, ast.Assign) and len(st.targets) == 1 and isinstance(st.targets[0], ast.Name):
                        tgt, val = st.targets[0].id, st.value
                    elif isinstance(st, ast.AnnAssign) and isinstance(st.target, ast.Name):
                        tgt, val = st.target.id, st.value
                    if tgt in ("type", "_surrogate_type") and isinstance(val, ast.Constant) and isinstance(val.value, str):
                        out.add(val.value)
            elif isinstance(n, ast.Call):
                for k in n.keywords:
                    if k.arg in ("type", "instance_types", "segment_kwargs") and k.value is not None:
                        for c in ast.walk(k.value):
                            if isinstance(c, ast.Constant) and isinstance(c.value, str):
                                out.add(c.value)
                # lexer matchers: StringLexer("name", ...), RegexLexer("name", ...) produce segments typed by name
                fn = n.func.id if isinstance(n.func, ast.Name) else n.func.attr if isinstance(n.func, ast.Attribute) else ""
                if fn in ("StringLexer", "RegexLexer") and n.args and isinstance(n.args[0], ast.Constant) and isinstance(n.args[0].value, str):
                    out.add(n.args[0].value)
    if len(out) < 500:
        raise AnalysisError(f"grammar vocabulary suspiciously small ({len(out)} types)")
    return frozenset(out)


class Grammar:
    """Child-type relation of one dialect (default ANSI)."""

    def __init__(self, dialect: str = "ansi"):
        self.dialect = dialect
        root = sqlfluff_dir()
        chain = self._inheritance_chain(root, dialect)
        self.class_type: dict[str, str] = {}  # segment class name -> type
        self.class_grammar: dict[str, ast.AST] = {}  # segment class name / grammar name -> grammar expression
        self.class_bases: dict[str, list[str]] = {}
        self.class_locals: dict[str, dict[str, ast.AST]] = {}
        self.chain = chain
        self.layer_grammar: dict[tuple[str, str], ast.AST] = {}  # (dialect layer, class name) -> the grammar that layer itself defines
        self.layer_locals: dict[tuple[str, str], dict[str, ast.AST]] = {}
        self._layer = "ansi"
        for d in chain:  # base first, so that overrides win
            self._layer = d
            self._load(os.path.join(root, "dialects", f"dialect_{d}.py"))
        self._children_cache: dict[str, frozenset] = {}
        self.type_classes: dict[str, list[str]] = {}
        for c, t in self.class_type.items():
            self.type_classes.setdefault(t, []).append(c)
        if "select_statement" not in self.type_classes:
            raise AnalysisError(f"grammar of dialect {dialect}: select_statement not found")

    @staticmethod
    def _inheritance_chain(root: str, dialect: str) -> list[str]:
        chain = [dialect]
        seen = {dialect}
        cur = dialect
        while cur != "ansi":
            tree = _parse(os.path.join(root, "dialects", f"dialect_{cur}.py"))
            parent = None
            for n in ast.walk(tree):
                if isinstance(n, ast.Call) and isinstance(n.func, ast.Name) and n.func.id == "load_raw_dialect" and n.args and isinstance(n.args[0], ast.Constant):
                    parent = n.args[0].value
                    break
            if parent is None or parent in seen:
                parent = "ansi"
            chain.append(parent)
            seen.add(parent)
            cur = parent
        return list(reversed(chain))

    def _load(self, path: str) -> None:
        tree = _parse(path)
        for st in tree.body:
            if isinstance(st, ast.ClassDef):
                bases = [b.id if isinstance(b, ast.Name) else b.attr if isinstance(b, ast.Attribute) else "" for b in st.bases]
                self.class_bases[st.name] = bases
                typ = gram = None
                locals_: dict[str, ast.AST] = {}
                for s in st.body:
                    if isinstance(s, ast.Assign) and len(s.targets) == 1 and isinstance(s.targets[0], ast.Name) and s.targets[0].id not in ("type", "match_grammar", "parse_grammar"):
                        locals_[s.targets[0].id] = s.value
                    elif isinstance(s, ast.AnnAssign) and isinstance(s.target, ast.Name) and s.value is not None and s.target.id not in ("type", "match_grammar", "parse_grammar"):
                        locals_[s.target.id] = s.value
                self.class_locals[st.name] = {**self.class_locals.get(st.name, {}), **locals_}
                self.layer_locals[(self._layer, st.name)] = locals_
                for s in st.body:
                    if isinstance(s, ast.Assign) and len(s.targets) == 1 and isinstance(s.targets[0], ast.Name):
                        if s.targets[0].id == "type" and isinstance(s.value, ast.Constant):
                            typ = s.value.value
                        elif s.targets[0].id in ("match_grammar", "parse_grammar"):
                            gram = s.value
                    elif isinstance(s, ast.AnnAssign) and isinstance(s.target, ast.Name) and s.value is not None:
                        if s.target.id == "type" and isinstance(s.value, ast.Constant):
                            typ = s.value.value
                        elif s.target.id in ("match_grammar", "parse_grammar"):
                            gram = s.value
                if typ is None:
                    # inherit the type from a (possibly dialect-qualified) base of the same family
                    for b in bases:
                        if b in self.class_type:
                            typ = self.class_type[b]
                            break
                if typ is not None:
                    self.class_type[st.name] = typ
                if gram is not None:
                    self.class_grammar[st.name] = gram
                    self.layer_grammar[(self._layer, st.name)] = gram
                elif st.name not in self.class_grammar:
                    for b in bases:
                        if b in self.class_grammar:
                            self.class_grammar[st.name] = self.class_grammar[b]
                            break
            elif isinstance(st, ast.Expr) and isinstance(st.value, ast.Call) and isinstance(st.value.func, ast.Attribute) and st.value.func.attr in ("add", "replace"):
                for k in st.value.keywords:
                    if k.arg:
                        self.class_grammar[k.arg] = k.value

    # ---- relation ---------------------------------------------------------------------------
    def _refs(self, e: ast.AST, seen: set[str], out: set[str], brack: set[str]) -> None:
        """Collect the segment types that expression `e` can directly produce as children."""
        if isinstance(e, ast.Call):
            fn = e.func.id if isinstance(e.func, ast.Name) else e.func.attr if isinstance(e.func, ast.Attribute) else ""
            if fn == "Ref" and e.args and isinstance(e.args[0], ast.Constant):
                self._name(e.args[0].value, seen, out, brack)
                return
            if isinstance(e.func, ast.Attribute) and e.func.attr == "keyword":
                out.add("keyword")
                return
            if fn in ("Bracketed", "OptionallyBracketed"):
                inner: set[str] = set()
                for a in e.args:
                    self._refs(a, seen, inner, brack)
                if fn == "Bracketed":
                    out.add("bracketed")
                    brack |= inner
                else:
                    out.add("bracketed")
                    brack |= inner
                    out |= inner
                return
            if isinstance(e.func, ast.Attribute) and e.func.attr == "copy":
                # X.match_grammar.copy(insert=[...], remove=[...])
                self._refs(e.func.value, seen, out, brack)
                for k in e.keywords:
                    if k.arg == "insert":
                        self._refs(k.value, seen, out, brack)
                return
            if fn in ("StringParser", "TypedParser", "RegexParser", "MultiStringParser"):
                t = next((k.value.value for k in e.keywords if k.arg == "type" and isinstance(k.value, ast.Constant)), None)
                if t:
                    out.add(t)
                elif len(e.args) >= 2:
                    cls = e.args[1]
                    cname = cls.id if isinstance(cls, ast.Name) else cls.attr if isinstance(cls, ast.Attribute) else None
                    out.add({"KeywordSegment": "keyword", "SymbolSegment": "symbol", "LiteralSegment": "literal", "IdentifierSegment": "identifier",
                             "CodeSegment": "code", "WordSegment": "word", "ComparisonOperatorSegment": "comparison_operator", "BinaryOperatorSegment": "binary_operator"}.get(cname or "", "raw"))
                return
            for a in e.args:
                self._refs(a, seen, out, brack)
            for k in e.keywords:
                if k.arg not in SKIP_KWARGS and k.arg is not None:
                    self._refs(k.value, seen, out, brack)
            return
        if isinstance(e, ast.Attribute) and e.attr in ("match_grammar", "parse_grammar") and isinstance(e.value, (ast.Name, ast.Attribute)):
            cname = e.value.id if isinstance(e.value, ast.Name) else e.value.attr
            g = self.class_grammar.get(cname)
            key = "G:" + cname
            if isinstance(e.value, ast.Attribute) and isinstance(e.value.value, ast.Name) and e.value.value.id in self.chain:
                # `ansi.X.match_grammar` inside a dialect that overrides X: the grammar X has in that parent layer (or below it)
                layer = e.value.value.id
                for d in reversed(self.chain[: self.chain.index(layer) + 1]):
                    if (d, cname) in self.layer_grammar:
                        g = self.layer_grammar[(d, cname)]
                        key = f"G:{d}.{cname}"
                        break
            if g is not None and key not in seen:
                seen.add(key)
                self._refs(g, seen, out, brack)
            return
        if isinstance(e, ast.Attribute) and isinstance(e.value, (ast.Name, ast.Attribute)) and e.attr not in ("match_grammar", "parse_grammar"):
            # `ansi.X._helper_grammar` / `X._helper_grammar`: a class-level grammar fragment of X (in the named layer or below it)
            cname = e.value.id if isinstance(e.value, ast.Name) else e.value.attr
            layers = list(reversed(self.chain))
            if isinstance(e.value, ast.Attribute) and isinstance(e.value.value, ast.Name) and e.value.value.id in self.chain:
                layers = list(reversed(self.chain[: self.chain.index(e.value.value.id) + 1]))
            for d in layers:
                loc_ = self.layer_locals.get((d, cname), {})
                if e.attr in loc_:
                    key = f"L:{d}.{cname}.{e.attr}"
                    if key not in seen:
                        seen.add(key)
                        seen.add(cname)
                        self._refs(loc_[e.attr], seen, out, brack)
                    return
            return
        if isinstance(e, (ast.List, ast.Tuple)):
            for x in e.elts:
                self._refs(x, seen, out, brack)
            return
        if isinstance(e, ast.Constant) and isinstance(e.value, str):
            out.add("keyword")
            return
        if isinstance(e, ast.Starred):
            self._refs(e.value, seen, out, brack)
        if isinstance(e, ast.Name):
            # class-level helper grammar (e.g. _base_from_expression_element) of a class currently being expanded
            for cname in [x for x in seen if not x.startswith("G:")] + [x[2:] for x in seen if x.startswith("G:")]:
                loc_ = self.class_locals.get(cname, {})
                if e.id in loc_ and ("L:" + cname + "." + e.id) not in seen:
                    seen.add("L:" + cname + "." + e.id)
                    self._refs(loc_[e.id], seen, out, brack)
                    return

    def _name(self, name: str, seen: set[str], out: set[str], brack: set[str]) -> None:
        if name in self.class_type:
            out.add(self.class_type[name])
            return
        if name in seen:
            return
        seen.add(name)
        g = self.class_grammar.get(name)
        if g is not None:
            self._refs(g, seen, out, brack)  # grammar-only name: transparent
        elif name.endswith("KeywordSegment"):
            out.add("keyword")

    def children(self, typ: str) -> frozenset:
        if typ in self._children_cache:
            return self._children_cache[typ]
        out: set[str] = set()
        brack: set[str] = set()
        for cname in self.type_classes.get(typ, []):
            g = self.class_grammar.get(cname)
            if g is not None:
                self._refs(g, {cname}, out, brack)
        res = frozenset(out)
        self._children_cache[typ] = res
        self._bracket_children = getattr(self, "_bracket_children", {})
        self._bracket_children[typ] = frozenset(brack)
        return res

    def bracket_children(self, typ: str) -> frozenset:
        """Types that can sit inside a `bracketed` child of a `typ` node."""
        self.children(typ)
        return self._bracket_children.get(typ, frozenset())

    @lru_cache(maxsize=None)
    def reach(self, typ: str) -> frozenset:
        seen: set[str] = set()
        todo = [typ]
        while todo:
            t = todo.pop()
            for c in self.children(t) | self.bracket_children(t):
                if c not in seen:
                    seen.add(c)
                    todo.append(c)
        return frozenset(seen)

    def can_reach(self, typ: str, target: str) -> bool:
        return target in self.reach(typ)

    def can_hold_subquery(self, typ: str, avoid: frozenset = frozenset()) -> bool:
        """Can a `typ` node contain a select_statement - when `avoid` is given: on a path that passes none of those types (a cut)?"""
        if typ == "select_statement":
            return True
        if not avoid:
            return self.can_reach(typ, "select_statement")
        if typ in avoid:
            return False
        seen: set[str] = set()
        todo = [typ]
        while todo:
            t = todo.pop()
            for c in self.children(t) | self.bracket_children(t):
                if c == "select_statement":
                    return True
                if c not in seen and c not in avoid:
                    seen.add(c)
                    todo.append(c)
        return False

    def types(self) -> frozenset:
        return frozenset(self.class_type.values())

    # ---- positional relation: which child types can stand last / first ---------------------------------------------------
    UNKNOWN = "?"

    def _edge(self, e: ast.AST, last: bool, seen: set[str], owner: str, skip: frozenset = frozenset()) -> tuple[set[str], bool]:
        """(types that the last / first code child produced by `e` can have, can `e` produce nothing).  UNKNOWN in the set
        means the expression uses a construct this model does not follow (`.copy(...)`, Anything ...).  Types in `skip` are looked
        through (the caller filters them out before it picks)."""
        ts, nul = self._edge0(e, last, seen, owner, skip)
        if ts & skip:
            return ts - skip, True
        return ts, nul

    def _edge0(self, e: ast.AST, last: bool, seen: set[str], owner: str, skip: frozenset) -> tuple[set[str], bool]:
        if isinstance(e, ast.Constant) and isinstance(e.value, str):
            return {"keyword"}, False
        if isinstance(e, ast.Name):
            if e.id in ("Indent", "Dedent", "ImplicitIndent"):
                return set(), True
            loc_ = self.class_locals.get(owner, {})
            if e.id in loc_ and ("L:" + owner + "." + e.id) not in seen:
                return self._edge(loc_[e.id], last, seen | {"L:" + owner + "." + e.id}, owner, skip)
            return {self.UNKNOWN}, False
        if isinstance(e, ast.Starred):
            return {self.UNKNOWN}, False
        if not isinstance(e, ast.Call):
            return {self.UNKNOWN}, False
        fn = e.func.id if isinstance(e.func, ast.Name) else e.func.attr if isinstance(e.func, ast.Attribute) else ""
        optional = any(k.arg == "optional" and isinstance(k.value, ast.Constant) and k.value.value is True for k in e.keywords)
        if fn == "Ref" and e.args and isinstance(e.args[0], ast.Constant):
            name = e.args[0].value
            if isinstance(e.func, ast.Attribute) and e.func.attr == "keyword":
                return {"keyword"}, optional
            if name in self.class_type:
                return {self.class_type[name]}, optional
            if name in seen:
                return set(), optional
            g = self.class_grammar.get(name)
            if g is None:
                return ({"keyword"}, optional) if name.endswith("KeywordSegment") else ({self.UNKNOWN}, optional)
            ts, nul = self._edge(g, last, seen | {name}, name, skip)
            return ts, nul or optional
        if isinstance(e.func, ast.Attribute) and e.func.attr == "keyword":
            return {"keyword"}, optional
        if fn in ("Conditional", "Indent", "Dedent"):
            return set(), True
        if fn == "SegmentGenerator" and e.args and isinstance(e.args[0], ast.Lambda):
            return self._edge(e.args[0].body, last, seen, owner, skip)
        if fn == "Bracketed":
            return {"bracketed"}, optional
        if fn == "OptionallyBracketed":
            ts, nul = self._edge(ast.Call(func=ast.Name(id="Sequence"), args=list(e.args), keywords=[]), last, seen, owner, skip)
            return ts | {"bracketed"}, nul or optional
        if fn == "Sequence":
            out: set[str] = set()
            for a in (reversed(e.args) if last else e.args):
                ts, nul = self._edge(a, last, seen, owner, skip)
                out |= ts
                if not nul:
                    return out, optional
            return out, True
        if fn in ("OneOf", "AnyNumberOf", "AnySetOf", "Delimited"):
            out = set()
            nullable = optional
            for a in e.args:
                ts, nul = self._edge(a, last, seen, owner, skip)
                out |= ts
                nullable = nullable or nul
            if fn in ("AnyNumberOf", "AnySetOf"):
                mt = next((k.value.value for k in e.keywords if k.arg == "min_times" and isinstance(k.value, ast.Constant)), 0)
                nullable = nullable or mt == 0
            if fn == "Delimited" and last and any(k.arg == "allow_trailing" and isinstance(k.value, ast.Constant) and k.value.value for k in e.keywords):
                out.add("symbol")
            return out, nullable
        if fn in ("StringParser", "TypedParser", "RegexParser", "MultiStringParser"):
            out = set()
            self._refs(e, set(), out, set())
            return out or {self.UNKNOWN}, False
        return {self.UNKNOWN}, optional

    def edge_types(self, typ: str, last: bool = True, skip: frozenset = frozenset()) -> frozenset:
        """Types the last (first) non-meta child of a `typ` node can have, over every class of that type in this dialect."""
        out: set[str] = set()
        for cname in self.type_classes.get(typ, []):
            g = self.class_grammar.get(cname)
            if g is None:
                out.add(self.UNKNOWN)
                continue
            ts, _ = self._edge(g, last, {cname}, cname, frozenset(skip))
            out |= ts
        return frozenset(out)

    def can_be_empty(self, typ: str) -> Optional[bool]:
        """Can a `typ` node have no code child at all?  None = some class of that type has a grammar this model does not follow."""
        verdict: Optional[bool] = False
        for cname in self.type_classes.get(typ, []):
            g = self.class_grammar.get(cname)
            if g is None:
                verdict = None if verdict is False else verdict
                continue
            _, nul = self._edge(g, True, {cname}, cname, frozenset())
            if nul:
                return True
        return verdict


@lru_cache(maxsize=None)
def grammar(dialect: str = "ansi") -> Grammar:
    return Grammar(dialect)


def installed_dialects() -> list[str]:
    root = os.path.join(sqlfluff_dir(), "dialects")
    return sorted(f[len("dialect_"):-3] for f in os.listdir(root) if f.startswith("dialect_") and f.endswith(".py") and not f.endswith("_keywords.py"))
