"""Navigation analysis over sqlfluff segments: which type *paths* a function walks below a context segment.

A step is recorded for `V.get_child("u")`, `V.get_children("u", ...)`, `V.recursive_crawl("u")` (recursive) and for loops over
`V.segments` / `list_child_segments(V)` whose body tests `x.type == "u"` / `x.type in [...]`.  The path of V comes from how V was bound
(result of a typed navigation on a receiver with a known path, loop variable of one), from the guard facts on `V.type` that dominate
the step, or - for parameters - from the call site.
"""

from __future__ import annotations

import ast
from dataclasses import dataclass
from typing import Optional

from .astutil import u
from .cfg import flow
from .model import Fn, Prog

NAV_METHODS = {"get_child", "get_children", "recursive_crawl"}
Path = tuple  # tuple[str, ...]


@dataclass(frozen=True)
class Step:
    path: Path  # full type path including the child reached
    recursive: bool
    fn: str
    lineno: int


def excluded_by_facts(facts, var: str) -> set[str]:
    out: set[str] = set()
    for t, p in facts:
        if p:
            continue
        try:
            e = ast.parse(t, mode="eval").body
        except SyntaxError:
            continue
        if isinstance(e, ast.Compare) and len(e.ops) == 1 and u(e.left) == f"{var}.type":
            if isinstance(e.ops[0], ast.Eq) and isinstance(e.comparators[0], ast.Constant):
                out.add(e.comparators[0].value)
            elif isinstance(e.ops[0], ast.In) and isinstance(e.comparators[0], (ast.List, ast.Tuple, ast.Set)):
                out |= {x.value for x in e.comparators[0].elts if isinstance(x, ast.Constant)}
    return out


def types_from_facts(facts, var: str) -> Optional[set[str]]:
    out: Optional[set[str]] = None
    for t, p in facts:
        if not p:
            continue
        try:
            e = ast.parse(t, mode="eval").body
        except SyntaxError:
            continue
        if isinstance(e, ast.Compare) and len(e.ops) == 1 and u(e.left) == f"{var}.type":
            vals = None
            if isinstance(e.ops[0], ast.Eq) and isinstance(e.comparators[0], ast.Constant):
                vals = {e.comparators[0].value}
            elif isinstance(e.ops[0], ast.In) and isinstance(e.comparators[0], (ast.List, ast.Tuple, ast.Set)):
                vals = {x.value for x in e.comparators[0].elts if isinstance(x, ast.Constant)}
            if vals is not None:
                out = vals if out is None else out & vals
    return out


def crawl_is_exhaustive(prog: Prog, call: ast.Call, fn: Fn) -> bool:
    """`x.recursive_crawl(T)` yields every T below x; with `recurse_into=False` it stops at each match, so a T nested inside a T is skipped."""
    for kw in call.keywords:
        if kw.arg == "recurse_into":
            v = prog.try_fold(kw.value, fn.mod, fn)
            if v is False or (isinstance(kw.value, ast.Constant) and kw.value.value is False):
                return False
            if v is not True and not (isinstance(kw.value, ast.Constant) and kw.value.value is True):
                return False  # computed: cannot be assumed exhaustive
    return True


def _atom_facts(cond: ast.AST):
    from .cfg import atom_facts

    return atom_facts(cond, True)


class Nav:
    def __init__(self, prog: Prog, max_depth: int = 8):
        self.prog = prog
        self.steps: set[Step] = set()
        self._done: set = set()
        self.max_depth = max_depth

    def _str_args(self, call: ast.Call, fn: Fn) -> list[str]:
        out = []
        for a in call.args:
            v = self.prog.try_fold(a, fn.mod, fn)
            if isinstance(v, str):
                out.append(v)
            elif isinstance(v, (list, tuple)):
                out += [x for x in v if isinstance(x, str)]
        return out

    def var_paths(self, fn: Fn, name: str, at: ast.AST, params: dict[str, frozenset], _depth: int = 0) -> set[Path]:
        prog = self.prog
        if _depth > 6:
            return set()
        facts = flow(prog, fn).facts_for(at)
        ft = types_from_facts(facts, name)
        out: set[Path] = set()
        defs = prog.local_defs(fn, name)
        if not defs and name in params:
            paths = set(params[name])
            if ft:
                paths = {p for p in paths if p and p[-1] in ft}
            ex = excluded_by_facts(facts, name)
            if ex:
                paths = {p for p in paths if p and p[-1] not in ex}
            return paths
        cfg = flow(prog, fn).cfg
        use = cfg.node_for(at)
        for kind, node in defs:
            dn = cfg.node_for(node)
            if use is not None and dn is not None and dn != use and not cfg.reach(dn, use):
                continue  # this definition cannot reach the use (exclusive branch)
            src = None
            if kind in ("assign", "walrus"):
                src = node.value
            elif kind in ("for", "comp"):
                src = node.iter
            if src is not None:
                out |= self.expr_paths(fn, src, node, params, ft, _depth)
        return {p for p in out if len(p) <= self.max_depth}

    def expr_paths(self, fn: Fn, src: ast.AST, at: ast.AST, params: dict[str, frozenset], ft: Optional[set], _depth: int) -> set[Path]:
        """Type paths of the segment(s) the expression `src` evaluates to (an element of it, for sequences)."""
        prog = self.prog
        out: set[Path] = set()
        if _depth > 6:
            return out
        if isinstance(src, ast.IfExp):
            return self.expr_paths(fn, src.body, at, params, ft, _depth + 1) | self.expr_paths(fn, src.orelse, at, params, ft, _depth + 1)
        if isinstance(src, ast.NamedExpr):
            return self.expr_paths(fn, src.value, at, params, ft, _depth + 1)
        if isinstance(src, ast.Call) and isinstance(src.func, ast.Name) and src.func.id in ("next", "list", "iter", "reversed", "enumerate") and src.args:
            src = src.args[0]
        if isinstance(src, (ast.ListComp, ast.GeneratorExp)) and len(src.generators) == 1 and isinstance(src.elt, ast.Name) and isinstance(src.generators[0].target, ast.Name) \
                and src.elt.id == src.generators[0].target.id:
            g = src.generators[0]
            gft = types_from_facts({f for c in g.ifs for f in _atom_facts(c)}, src.elt.id)
            return self.expr_paths(fn, g.iter, at, params, gft if gft is not None else ft, _depth + 1)
        if isinstance(src, ast.Call) and isinstance(src.func, ast.Attribute) and src.func.attr in NAV_METHODS and isinstance(src.func.value, ast.Name):
            for rp in self.var_paths(fn, src.func.value.id, at, params, _depth + 1):
                for t in self._str_args(src, fn):
                    if ft is None or t in ft:
                        out.add(rp + (t,))
        elif isinstance(src, ast.Attribute) and src.attr == "segments" and isinstance(src.value, ast.Name) and ft:
            for rp in self.var_paths(fn, src.value.id, at, params, _depth + 1):
                for t in ft:
                    out.add(rp + (t,))
        elif isinstance(src, ast.Call) and isinstance(src.func, ast.Name) and src.func.id == "list_child_segments" and src.args and isinstance(src.args[0], ast.Name) and ft:
            for rp in self.var_paths(fn, src.args[0].id, at, params, _depth + 1):
                for t in ft:
                    out.add(rp + (t,))
        elif isinstance(src, ast.Name):
            out |= self.var_paths(fn, src.id, at, params, _depth + 1)
        elif isinstance(src, ast.Call):
            # a repository function handing back segments it navigated to from its arguments
            for cal in prog.resolve_call(src, fn):
                if not isinstance(cal, Fn) or cal.name == "__init__" or not cal.mod.name.startswith("sqllineage.core.parser.sqlfluff"):
                    continue
                ps = cal.params()
                if cal.cls is not None and cal.kind in ("method", "classmethod") and ps and ps[0] in ("self", "cls"):
                    ps = ps[1:]
                passed: dict[str, frozenset] = {}
                for i, a in enumerate(src.args):
                    if i < len(ps) and isinstance(a, ast.Name):
                        vp = self.var_paths(fn, a.id, at, params, _depth + 1)
                        if vp:
                            passed[ps[i]] = frozenset(vp)
                if not passed:
                    continue
                for r in prog.walk_fn(cal):
                    if isinstance(r, ast.Return) and r.value is not None:
                        for rp in self.expr_paths(cal, r.value, r, passed, None, _depth + 2):
                            if ft is None or (rp and rp[-1] in ft):
                                out.add(rp)
        return out

    def analyse(self, fn: Fn, params: dict[str, frozenset]) -> None:
        prog = self.prog
        key = (fn.qual, tuple(sorted((k, tuple(sorted(v))) for k, v in params.items())))
        if key in self._done or len(self._done) > 400:
            return
        self._done.add(key)
        for n in prog.walk_fn(fn):
            if isinstance(n, ast.Call) and isinstance(n.func, ast.Attribute) and n.func.attr in NAV_METHODS and isinstance(n.func.value, ast.Name):
                for rp in self.var_paths(fn, n.func.value.id, n, params):
                    for ct in self._str_args(n, fn):
                        self.steps.add(Step(rp + (ct,), n.func.attr == "recursive_crawl" and crawl_is_exhaustive(self.prog, n, fn), fn.qual, n.lineno))
            if isinstance(n, (ast.For, ast.comprehension)) and isinstance(n.target, ast.Name):
                src = n.iter
                recv = None
                if isinstance(src, ast.Attribute) and src.attr == "segments" and isinstance(src.value, ast.Name):
                    recv = src.value.id
                elif isinstance(src, ast.Call) and isinstance(src.func, ast.Name) and src.func.id == "list_child_segments" and src.args and isinstance(src.args[0], ast.Name):
                    recv = src.args[0].id
                if recv is not None:
                    owner = n if isinstance(n, ast.For) else prog.parent(n)
                    tested: set[str] = set()
                    for k in ast.walk(owner):
                        if isinstance(k, ast.Compare) and len(k.ops) == 1 and u(k.left) == f"{n.target.id}.type":
                            if isinstance(k.ops[0], ast.Eq) and isinstance(k.comparators[0], ast.Constant):
                                tested.add(k.comparators[0].value)
                            elif isinstance(k.ops[0], ast.In):
                                v = prog.try_fold(k.comparators[0], fn.mod, fn)
                                if isinstance(v, (list, tuple, set)):
                                    tested |= {x for x in v if isinstance(x, str)}
                    for rp in self.var_paths(fn, recv, owner, params):
                        for ct in tested:
                            self.steps.add(Step(rp + (ct,), False, fn.qual, getattr(owner, "lineno", 0)))
            if isinstance(n, ast.Call):
                for cal in prog.resolve_call(n, fn):
                    if not isinstance(cal, Fn) or cal.name == "__init__" or not cal.mod.name.startswith("sqllineage.core.parser.sqlfluff"):
                        continue
                    ps = cal.params()
                    if cal.cls is not None and cal.kind in ("method", "classmethod") and ps and ps[0] in ("self", "cls"):
                        ps = ps[1:]
                    passed: dict[str, frozenset] = {}
                    for i, a in enumerate(n.args):
                        if i < len(ps) and isinstance(a, ast.Name):
                            vp = self.var_paths(fn, a.id, n, params)
                            if vp:
                                passed[ps[i]] = frozenset(vp)
                    if passed:
                        self.analyse(cal, passed)

    def handled_prefixes(self) -> set[Path]:
        out: set[Path] = set()
        for s in self.steps:
            for i in range(1, len(s.path) + 1):
                out.add(s.path[:i])
        return out

    def recursive_roots(self) -> dict[Path, set[str]]:
        """path of the receiver -> types crawled recursively below it."""
        out: dict[Path, set[str]] = {}
        for s in self.steps:
            if s.recursive:
                out.setdefault(s.path[:-1], set()).add(s.path[-1])
        return out
