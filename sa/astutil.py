"""Small AST helpers shared by the rule modules."""

from __future__ import annotations

import ast
from typing import Iterable, Iterator, Optional


def u(node: ast.AST) -> str:
    return ast.unparse(node)


def is_self_attr(node: ast.AST, attr: Optional[str] = None, selfname: str = "self") -> bool:
    return (
        isinstance(node, ast.Attribute)
        and isinstance(node.value, ast.Name)
        and node.value.id == selfname
        and (attr is None or node.attr == attr)
    )


def call_attr(node: ast.AST) -> Optional[str]:
    """Method name of `x.m(...)`."""
    if isinstance(node, ast.Call) and isinstance(node.func, ast.Attribute):
        return node.func.attr
    return None


def call_name(node: ast.AST) -> Optional[str]:
    if isinstance(node, ast.Call):
        if isinstance(node.func, ast.Name):
            return node.func.id
        if isinstance(node.func, ast.Attribute):
            return node.func.attr
    return None


def walk_no_nested(node: ast.AST) -> Iterator[ast.AST]:
    """ast.walk that does not enter nested function / class definitions / lambdas (root excluded from that rule)."""
    todo = list(ast.iter_child_nodes(node))
    while todo:
        n = todo.pop()
        yield n
        if isinstance(n, (ast.FunctionDef, ast.AsyncFunctionDef, ast.ClassDef, ast.Lambda)):
            continue
        todo.extend(ast.iter_child_nodes(n))


def const_str(node: ast.AST) -> Optional[str]:
    if isinstance(node, ast.Constant) and isinstance(node.value, str):
        return node.value
    return None


def strip_keys_call(node: ast.AST) -> ast.AST:
    """`d.keys()` -> `d` (membership through .keys() is a single-key test)."""
    if isinstance(node, ast.Call) and isinstance(node.func, ast.Attribute) and node.func.attr == "keys" and not node.args:
        return node.func.value
    return node


def names(node: ast.AST) -> set[str]:
    return {n.id for n in ast.walk(node) if isinstance(n, ast.Name)}


def contains(node: ast.AST, sub: ast.AST) -> bool:
    return any(n is sub for n in ast.walk(node))


def same(a: ast.AST, b: ast.AST) -> bool:
    return ast.dump(a) == ast.dump(b)


def compare_parts(node: ast.AST):
    """For a single-operator Compare return (left, op, right) else None."""
    if isinstance(node, ast.Compare) and len(node.ops) == 1:
        return node.left, node.ops[0], node.comparators[0]
    return None


def leaf_atoms(e: ast.AST) -> list[ast.AST]:
    """Split a condition at and / or / not into its leaf atoms."""
    if isinstance(e, ast.BoolOp):
        out = []
        for v in e.values:
            out += leaf_atoms(v)
        return out
    if isinstance(e, ast.UnaryOp) and isinstance(e.op, ast.Not):
        return leaf_atoms(e.operand)
    return [e]


def controlling_atoms(parents: dict, node: ast.AST, stop: ast.AST = None) -> list[ast.AST]:
    """Leaf atoms of every condition `node` is (syntactically) control dependent on inside its function:
    tests of enclosing if / elif / while / conditional expressions / comprehension filters and earlier operands of and/or."""
    out: list[ast.AST] = []
    child = node
    par = parents.get(id(child))
    while par is not None and par is not stop and not isinstance(par, (ast.FunctionDef, ast.AsyncFunctionDef, ast.Lambda, ast.ClassDef, ast.Module)):
        if isinstance(par, (ast.If, ast.While)) and child is not par.test:
            out += leaf_atoms(par.test)
        elif isinstance(par, ast.IfExp) and child is not par.test:
            out += leaf_atoms(par.test)
        elif isinstance(par, ast.BoolOp):
            idx = next((i for i, v in enumerate(par.values) if v is child), 0)
            for v in par.values[:idx]:
                out += leaf_atoms(v)
        elif isinstance(par, (ast.ListComp, ast.SetComp, ast.GeneratorExp, ast.DictComp)):
            for g in par.generators:
                if child is not g:
                    for c in g.ifs:
                        out += leaf_atoms(c)
        child = par
        par = parents.get(id(child))
    return out
