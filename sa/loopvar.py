"""Use of a loop variable after its loop (the value left over from the last iteration).

After `for x in xs: ...` without `break`, `x` holds whatever came last - the last element in iteration order (arbitrary for sets, "alphabetically
last candidate" for sorted views) or, when the sequence is empty, nothing at all (NameError / a stale value from before).  A statement after
the loop that reads `x` therefore does not say which element it means.  Loops that `break` are search loops: there the variable is the hit.
"""

from __future__ import annotations

import ast
from typing import Iterator

from .cfg import flow
from .model import Fn, Prog


def leftover_uses(prog: Prog, fn: Fn) -> Iterator[tuple[ast.For, ast.Name]]:
    loops = [n for n in prog.walk_fn(fn) if isinstance(n, (ast.For, ast.AsyncFor))]
    if not loops:
        return
    fl = None
    for L in loops:
        targets = {x.id for x in ast.walk(L.target) if isinstance(x, ast.Name)}
        if not targets:
            continue
        # a break that belongs to this loop makes it a search loop
        def own_break(node: ast.AST) -> bool:
            for ch in ast.iter_child_nodes(node):
                if isinstance(ch, (ast.For, ast.AsyncFor, ast.While, ast.FunctionDef, ast.AsyncFunctionDef, ast.Lambda)):
                    continue
                if isinstance(ch, ast.Break) or own_break(ch):
                    return True
            return False

        if any(own_break(st) or isinstance(st, ast.Break) for st in L.body) or any(isinstance(k, ast.Return) for st in L.body for k in ast.walk(st)):
            continue
        inside = {id(n) for st in L.body + L.orelse for n in ast.walk(st)} | {id(n) for n in ast.walk(L.target)} | {id(n) for n in ast.walk(L.iter)}
        for n in prog.walk_fn(fn):
            if isinstance(n, ast.Name) and isinstance(n.ctx, ast.Load) and n.id in targets and id(n) not in inside:
                # a comprehension (or lambda) that binds the same name has its own variable
                shadowed = False
                for anc in prog.ancestors(n):
                    if isinstance(anc, (ast.ListComp, ast.SetComp, ast.DictComp, ast.GeneratorExp)) and any(n.id in {x.id for x in ast.walk(g.target) if isinstance(x, ast.Name)} for g in anc.generators):
                        shadowed = True
                        break
                    if isinstance(anc, ast.Lambda) and n.id in {a.arg for a in anc.args.args}:
                        shadowed = True
                        break
                    if isinstance(anc, (ast.FunctionDef, ast.AsyncFunctionDef)):
                        break
                if shadowed:
                    continue
                if fl is None:
                    fl = flow(prog, fn)
                rd = fl.reaching_defs(n, n.id)
                if any(node is L for kind, node in rd):
                    yield L, n
