"""C12 - runs are isolated from one another (DESIGN.md C12, rules R12.1-R12.4)."""

from __future__ import annotations

import ast
from typing import Optional

from ..astutil import is_self_attr, u
from ..cfg import MUTATORS, flow
from ..model import AnalysisError, Cls, Fn, Prog, loc
from ..report import Ctx
from . import common

EXPLANATION = (
    "Static analysis of the session mechanism (core/metadata_provider.py), the runner's evaluator (runner.py) and of every "
    "function reachable from it in the call graph. Decides: R12.1 session metadata cannot outlive a run whatever the exit: every "
    "registration outside the provider module is lexically inside `with <provider>.session()`; the context manager's exit calls the "
    "provider's deregistration unconditionally on every CFG path (or, for a generator context manager, in a `finally`), independent of "
    "the exception arguments; deregistration empties the very attribute registration writes; that store holds only strings - Python's "
    "`with` semantics then cover every failure point of every script and provider; R12.2 no other state survives a run: no function "
    "reachable from the evaluator mutates a module-level object, a class-level mutable attribute, a default-argument object or an "
    "imported third-party table, provider fields mutated during a run are exactly those the deregistration clears, the analyzer is a "
    "fresh local object per evaluation, import-time patches of sqlparse run at import only; R12.5 the provider look-up keeps no memory and never mutates in place what the source or the session store returned (= R13.5); R12.4 the evaluated flag is set only as the "
    "last step of a successful evaluation. Does not decide: interference through a provider object the user shares between threads, "
    "sqlfluff/sqlparse internal caches."
    " R12.2 also judges memoising decorators (acceptable only on functions that compute from their arguments alone). R12.6 (= R15.1 / R15.2) scoped overrides live in the calling thread's own entry."
    " R12.2 also covers augmented assignment on class-level containers, setattr, attributes reached through a dependency's module path, mutable default arguments (functions with evaluated-once defaults are not absorbed by the normaliser) and memo tables keyed by equality on functions whose answer depends on an argument's type."
)
RULE_TEXT = (
    "one obligation per registration site, exit path, store, and per mutation site found in the functions reachable from the "
    "evaluator; non-trivial = all but anchor-presence obligations"
)

MUTABLE_CTORS = {"dict", "list", "set", "defaultdict", "OrderedDict", "deque", "Counter"}


def is_mutable_init(e: Optional[ast.AST]) -> bool:
    if e is None:
        return False
    if isinstance(e, (ast.Dict, ast.List, ast.Set, ast.ListComp, ast.DictComp, ast.SetComp)):
        return True
    if isinstance(e, ast.Call) and isinstance(e.func, (ast.Name, ast.Attribute)):
        nm = e.func.id if isinstance(e.func, ast.Name) else e.func.attr
        return nm in MUTABLE_CTORS
    return False


def rules(ctx: Ctx) -> None:
    prog = ctx.prog
    R = common.runner(prog)
    ev = R.evaluator
    P = prog.try_cls("core.metadata_provider.MetaDataProvider")
    if P is None:
        raise AnalysisError("MetaDataProvider not found")
    ctx.touched(ev)

    # ---- anchors: registration / deregistration / store ---------------------------------
    dereg = None
    reg, store_attr = common.session_store(prog)
    for m in P.methods.values():
        if m is reg:
            continue
        for n in ast.walk(m.node):
            if isinstance(n, ast.Call) and isinstance(n.func, ast.Attribute) and n.func.attr == "clear" and is_self_attr(n.func.value, store_attr):
                dereg = m
            if isinstance(n, ast.Assign) and any(is_self_attr(t, store_attr) for t in n.targets) and m.name != "__init__" and is_mutable_init(n.value) and not (getattr(n.value, "keys", None) or getattr(n.value, "elts", None)):
                dereg = m
    ctx.ob("R12.1", "dereg-empties-the-registration-store", dereg is not None, P.loc(),
           f"a provider method empties `self.{store_attr}`, the attribute `{reg.name}` writes")
    if dereg is None:
        return
    ctx.touched(reg, dereg)
    ctx.extra["anchors"] = {"register": reg.qual, "deregister": dereg.qual, "store": store_attr, "evaluator": ev.qual}
    # deregistration is unconditional
    dcfg = flow(prog, dereg).cfg
    clear_nodes = [c.id for c in dcfg.nodes.values() if c.ast is not None and c.kind == "stmt" and store_attr in u(c.ast) and ("clear" in u(c.ast) or isinstance(c.ast, ast.Assign))]
    ctx.ob("R12.1", "dereg-unconditional", bool(clear_nodes) and not dcfg.reach(dcfg.entry, dcfg.exit, avoid=clear_nodes), dereg.loc(),
           f"`{dereg.name}` empties the store on every path")
    # the store is instance state created in __init__ (not class-level shared)
    init = P.methods.get("__init__")
    inst_init = init is not None and any(
        isinstance(n, (ast.Assign, ast.AnnAssign)) and any(is_self_attr(t, store_attr) for t in (n.targets if isinstance(n, ast.Assign) else [n.target]))
        for n in ast.walk(init.node)
    )
    ctx.ob("R12.1", "store-is-per-provider", inst_init and store_attr not in P.consts, P.loc(),
           f"`{store_attr}` is created per provider instance in __init__ (a class-level dict would be shared by all providers)")

    # (d) the store holds only strings
    for n in ast.walk(reg.node):
        if isinstance(n, ast.Subscript) and isinstance(n.ctx, ast.Store) and is_self_attr(n.value, store_attr):
            st = prog.enclosing_stmt(n)
            bad = _stores_objects(prog, reg, st)
            ctx.ob("R12.1", "store-holds-only-strings", not bad, loc(reg.mod, st),
                   f"`{u(st)[:80]}` must keep names (str), not run-local model objects" + (f" (stores `{bad}`)" if bad else ""))

    # (c) session(): returns a context manager bound to self whose exit deregisters on every path
    sess = P.methods.get("session")
    if sess is None:
        raise AnalysisError("MetaDataProvider.session not found")
    ctx.touched(sess)
    is_gen = any(isinstance(n, (ast.Yield, ast.YieldFrom)) for n in prog.walk_fn(sess))
    if is_gen:
        ok = False
        for n in prog.walk_fn(sess):
            if isinstance(n, ast.Try) and n.finalbody and any(isinstance(k, (ast.Yield, ast.YieldFrom)) for b in n.body for k in ast.walk(b)):
                if any(isinstance(k, ast.Call) and dereg in prog.resolve_call(k, sess) for b in n.finalbody for k in ast.walk(b)):
                    ok = True
        ctx.ob("R12.1", "exit-deregisters-on-every-path", ok, sess.loc(),
               "a generator-based session() must yield inside try/finally whose finally deregisters (otherwise a failing run skips the clean-up)")
    else:
        rt = prog.return_type(sess)
        cm = next((prog.classes[a.name] for a in rt.alts() if a.kind == "inst" and a.name in prog.classes), None)
        if cm is None:
            raise AnalysisError("cannot resolve the context manager returned by session()")
        ex = prog.find_method(cm, "__exit__")
        en = prog.find_method(cm, "__enter__")
        if not ctx.ob("R12.1", "session-is-a-context-manager", ex is not None and en is not None, cm.loc(), f"{cm.name} defines __enter__/__exit__"):
            return
        ctx.touched(ex, en)
        # bound to self
        ret = next(n for n in ast.walk(sess.node) if isinstance(n, ast.Return))
        bound = isinstance(ret.value, ast.Call) and any(isinstance(a, ast.Name) and a.id == "self" for a in ret.value.args)
        ctx.ob("R12.1", "session-bound-to-this-provider", bound, sess.loc(), "session() hands the provider itself to the context manager")
        xcfg = flow(prog, ex).cfg
        calls = []
        for c in xcfg.nodes.values():
            if c.ast is not None and c.kind in ("stmt", "cond"):
                for k in ast.walk(c.ast):
                    if isinstance(k, ast.Call) and dereg in prog.resolve_call(k, ex):
                        calls.append(c.id)
        on_all = bool(calls) and not xcfg.reach(xcfg.entry, xcfg.exit, avoid=calls) and not xcfg.reach(xcfg.entry, xcfg.raise_exit, avoid=calls)
        ctx.ob("R12.1", "exit-deregisters-on-every-path", on_all, ex.loc(),
               "__exit__ calls the provider's deregistration on every path, whatever exception arguments it received")
        for r in [n for n in prog.walk_fn(ex) if isinstance(n, ast.Return)]:
            v = r.value
            ctx.ob("R12.1", "exit-does-not-swallow", v is None or (isinstance(v, ast.Constant) and not v.value), loc(ex.mod, r), "__exit__ must not swallow the run's exception")
        # the session object registers on the same provider it deregisters
        sreg = prog.find_method(cm, reg.name)
        if sreg is not None:
            targets = [k for k in ast.walk(sreg.node) if isinstance(k, ast.Call) and reg in prog.resolve_call(k, sreg)]
            ctx.ob("R12.1", "session-registers-on-its-provider", bool(targets) and all(u(k.func.value) == "self.metadata_provider" for k in targets), sreg.loc(),
                   "the session registers on the provider it will deregister")

    # (a) every registration outside the provider module is inside `with <provider>.session()`
    n_reg = 0
    for f in prog.funcs.values():
        if f.mod is P.mod:
            continue
        for n in prog.walk_fn(f):
            if isinstance(n, ast.Call) and isinstance(n.func, ast.Attribute) and n.func.attr == reg.name:
                n_reg += 1
                inside = False
                for a in prog.ancestors(n):
                    if isinstance(a, (ast.With, ast.AsyncWith)):
                        for it in a.items:
                            if isinstance(it.context_expr, ast.Call) and sess in prog.resolve_call(it.context_expr, f):
                                inside = True
                    if a is f.node:
                        break
                ctx.ob("R12.1", f"registration-inside-session:{f.name}", inside, loc(f.mod, n),
                       f"`{u(n)[:70]}` must be inside the body of `with <provider>.session()`")
    ctx.floor("session registrations outside the provider module", n_reg, 1)
    # the statements are analysed inside the session too
    with_nodes = [n for n in prog.walk_fn(ev) if isinstance(n, ast.With) and any(isinstance(it.context_expr, ast.Call) and sess in prog.resolve_call(it.context_expr, ev) for it in n.items)]
    ctx.ob("R12.1", "evaluator-opens-session", len(with_nodes) == 1, ev.loc(), "the evaluator wraps the analysis in exactly one provider session")

    # ---- R12.2 shared state ---------------------------------------------------------------
    roots = [ev.qual] + [a.qual for a in R.accessors]
    reach = prog.reachable_from(roots)
    reach_fns = [prog.funcs[q] for q in sorted(reach) if q in prog.funcs]
    ctx.extra["functions_reachable_from_evaluator"] = len(reach_fns)
    ctx.floor("functions reachable from the evaluator", len(reach_fns), 80)
    # module-level mutable objects
    mod_state: dict[str, str] = {}
    for m in prog.mods.values():
        for st in m.tree.body:
            tgt = val = None
            if isinstance(st, ast.Assign) and len(st.targets) == 1 and isinstance(st.targets[0], ast.Name):
                tgt, val = st.targets[0].id, st.value
            elif isinstance(st, ast.AnnAssign) and isinstance(st.target, ast.Name):
                tgt, val = st.target.id, st.value
            if tgt and is_mutable_init(val):
                mod_state[f"{m.name}.{tgt}"] = "container"
    # class-level mutable attributes not re-created per instance
    cls_state: dict[tuple[str, str], Cls] = {}
    for c in prog.classes.values():
        for nm, val in c.consts.items():
            if is_mutable_init(val):
                cls_state[(c.qual, nm)] = c
    provider_fields_cleared = {store_attr}
    n_sites = 0
    # instance attributes that alias a shared (module-level / class-level) mutable object
    alias_attrs: dict[tuple[str, str], str] = {}
    for f in prog.funcs.values():
        if f.cls is None:
            continue
        for n in prog.walk_fn(f):
            if isinstance(n, ast.Assign) and isinstance(n.value, (ast.Name, ast.Attribute)):
                r = prog.resolve_expr(n.value, f.mod, f) if not (isinstance(n.value, ast.Name) and (prog.local_defs(f, n.value.id) or prog.param_type(f, n.value.id) is not None)) else ("none",)
                shared = None
                if r[0] == "var" and r[1] in mod_state:
                    shared = r[1]
                elif r[0] == "var" and r[1].rsplit(".", 1)[0] in prog.classes and (r[1].rsplit(".", 1)[0], r[1].rsplit(".", 1)[1]) in cls_state:
                    shared = r[1]
                if shared:
                    for t in n.targets:
                        if is_self_attr(t):
                            alias_attrs[(f.cls.qual, t.attr)] = shared
    for f in reach_fns:
        ctx.touched(f)
        declared_global = {nm for n in prog.walk_fn(f) if isinstance(n, ast.Global) for nm in n.names}
        for n in prog.walk_fn(f):
            target = None
            how = None
            if isinstance(n, ast.Attribute) and isinstance(n.ctx, ast.Store) and isinstance(prog.parent(n), ast.AugAssign) and prog.parent(n).target is n:
                target, how = n, "augmented assignment"  # `x.a += [..]` extends the object x.a holds in place (and re-binds x.a to it)
            elif isinstance(n, (ast.Subscript, ast.Attribute)) and isinstance(n.ctx, (ast.Store, ast.Del)):
                target, how = n.value, "store"
            elif isinstance(n, ast.Call) and isinstance(n.func, ast.Name) and n.func.id in ("setattr", "delattr") and n.args and isinstance(n.args[0], (ast.Name, ast.Attribute)):
                target, how = n.args[0], f"{n.func.id}()"
            elif isinstance(n, ast.Call) and isinstance(n.func, ast.Attribute) and n.func.attr in MUTATORS:
                target, how = n.func.value, f".{n.func.attr}()"
            elif isinstance(n, ast.Name) and isinstance(n.ctx, ast.Store) and n.id in declared_global:
                n_sites += 1
                ctx.ob("R12.2", f"global-rebind:{f.name}:{n.id}", False, loc(f.mod, n), f"`global {n.id}` re-bound inside a function reachable from the evaluator")
                continue
            if target is None:
                continue
            root = target
            while isinstance(root, (ast.Attribute, ast.Subscript)):
                root = root.value
            if not isinstance(root, ast.Name):
                continue
            where = loc(f.mod, n)
            # (1)/(2) module-level object of this package or of a dependency
            is_local = bool(prog.local_defs(f, root.id)) or prog.param_type(f, root.id) is not None or (f.parent is not None and (prog.local_defs(f.parent, root.id) or prog.param_type(f.parent, root.id) is not None))
            if not is_local:
                r = prog.resolve(f.mod.name, root.id, f)
                if r[0] == "var" and r[1] in mod_state and isinstance(target, ast.Name):
                    n_sites += 1
                    ctx.ob("R12.2", f"module-state:{r[1]}:{f.name}", False, where,
                           f"`{u(prog.enclosing_stmt(n))[:80]}` mutates module-level `{r[1]}` during a run: it survives into the next run")
                    continue
                if r[0] == "ext" and how is not None and (isinstance(target, ast.Name) or (isinstance(n, ast.Attribute) and all(isinstance(x, (ast.Attribute, ast.Name)) for x in ast.walk(target) if isinstance(x, ast.expr) and not isinstance(x, ast.expr_context)))):
                    n_sites += 1
                    ctx.ob("R12.2", f"foreign-state:{r[1]}:{f.name}", False, where,
                           f"`{u(prog.enclosing_stmt(n))[:80]}` mutates the dependency's shared object `{r[1]}` during a run")
                    continue
                if r[0] == "class":
                    n_sites += 1
                    ctx.ob("R12.2", f"class-state:{r[1]}:{f.name}", False, where,
                           f"`{u(prog.enclosing_stmt(n))[:80]}` writes a class attribute during a run (shared by all instances)")
                    continue
            # (2b) instance attribute aliasing a shared object
            if root.id == "self" and f.cls is not None and isinstance(target, ast.Attribute) and isinstance(target.value, ast.Name):
                shared = next((alias_attrs[(k.qual, target.attr)] for k in prog.mro(f.cls) if (k.qual, target.attr) in alias_attrs), None)
                if shared is not None:
                    n_sites += 1
                    ctx.ob("R12.2", f"aliased-shared-state:{shared}:{f.name}", False, where,
                           f"`{u(prog.enclosing_stmt(n))[:80]}` mutates `self.{target.attr}`, which aliases the shared object `{shared}`")
                    continue
            # (3) class-level mutable attribute through self / cls
            if root.id in ("self", "cls") and f.cls is not None and isinstance(target, ast.Attribute) and isinstance(target.value, ast.Name):
                attr = target.attr
                owner = next((k for k in prog.mro(f.cls) if (k.qual, attr) in cls_state), None)
                if owner is not None and how != "store-rebind":
                    reinit = any(
                        isinstance(k, (ast.Assign, ast.AnnAssign)) and any(is_self_attr(t, attr) for t in (k.targets if isinstance(k, ast.Assign) else [k.target]))
                        for kk in prog.mro(f.cls) if "__init__" in kk.methods for k in ast.walk(kk.methods["__init__"].node)
                    )
                    if not reinit:
                        n_sites += 1
                        ctx.ob("R12.2", f"class-level-mutable:{owner.name}.{attr}:{f.name}", False, where,
                               f"`{u(prog.enclosing_stmt(n))[:80]}` mutates `{owner.name}.{attr}`, a class-level object shared by every instance")
                        continue
            # (4) provider fields mutated during a run must be cleared by deregistration
            if root.id == "self" and f.cls is not None and (prog.is_subclass(f.cls, P)) and f.name != "__init__":
                fld = target.attr if isinstance(target, ast.Attribute) and isinstance(target.value, ast.Name) else (n.attr if isinstance(n, ast.Attribute) and isinstance(n.value, ast.Name) else None)
                if fld is None and isinstance(n, ast.Attribute):
                    fld = n.attr
                if fld is not None:
                    n_sites += 1
                    cleared = fld in provider_fields_cleared or _cleared_in(prog, dereg, fld)
                    ctx.ob("R12.2", f"provider-field:{fld}:{f.name}", cleared or f is dereg, where,
                           f"`{u(prog.enclosing_stmt(n))[:80]}` mutates provider field `{fld}` during a run: the provider outlives the run (shared default instance), "
                           f"so the field must be emptied by `{dereg.name}`")
    ctx.extra["mutation_sites_judged"] = n_sites
    ctx.ob("R12.2", "no-shared-state-written", True, ev.loc(), f"{len(reach_fns)} functions reachable from the evaluator scanned for writes to shared objects", trivial=True)

    # memoising decorators: the memo is one process-wide table shared by every run, thread and configuration; acceptable only on a function
    # that computes from its arguments alone (no package function below it, no configuration read)
    _MEMO = ("lru_cache", "cache", "cached", "memoize", "memoized")
    for f in prog.funcs.values():
        memo = [d for d in f.decorators if d.split("(")[0].split(".")[-1] in _MEMO]
        if not memo:
            continue
        below = prog.reachable_from([f.qual]) - {f.qual}
        reads_cfg = [n for q in [f.qual] + sorted(below) if q in prog.funcs for n in prog.walk_fn(prog.funcs[q])
                     if isinstance(n, ast.Attribute) and isinstance(n.value, ast.Name) and n.value.id == "SQLLineageConfig"]
        pure = not [q for q in below if q in prog.funcs] and not reads_cfg
        ctx.ob("R12.2", f"memoised:{f.owner}", pure, f.loc(),
               f"`@{memo[0]}` keeps the results of {f.name} for the life of the process: "
               + ("it computes from its arguments alone" if pure else f"it runs {len([q for q in below if q in prog.funcs])} package function(s) below it"
                  + (" and reads the configuration" if reads_cfg else "") + " - a later run (other default schema, other metadata, other thread) gets the answer of the first"))

        # the memo is keyed by equality and hash of the arguments: 1, True and 1.0 are one key.  Unless the decorator is told `typed=True`, a function
        # whose answer depends on the TYPE of an argument (tests it, prints it, hands it to a conversion) answers for True what it computed for 1
        typed = any("typed=True" in d.replace(" ", "") for d in memo)
        params = [a.arg for a in f.node.args.args + f.node.args.kwonlyargs if a.arg not in ("self", "cls")]
        type_dep = []
        for n in prog.walk_fn(f):
            if isinstance(n, ast.Call) and isinstance(n.func, ast.Name) and n.args and isinstance(n.args[0], ast.Name) and n.args[0].id in params:
                if n.func.id in ("isinstance", "type", "str", "repr", "format", "bool", "int", "float") or n.func.id in params:
                    type_dep.append(n)
            elif isinstance(n, ast.FormattedValue) and isinstance(n.value, ast.Name) and n.value.id in params:
                type_dep.append(n)
            elif isinstance(n, ast.Compare) and any(isinstance(op, (ast.Is, ast.IsNot)) for op in n.ops) and any(isinstance(x, ast.Name) and x.id in params for x in [n.left] + n.comparators) \
                    and not all(isinstance(x, ast.Constant) and x.value is None or isinstance(x, ast.Name) and x.id in params for x in [n.left] + n.comparators):
                type_dep.append(n)
        if params:
            ctx.ob("R12.2", f"memoised-by-equality:{f.owner}", typed or not type_dep, f.loc(),
                   f"`@{memo[0]}` keys {f.name}'s memo by equality of the arguments" + ("" if typed or not type_dep else
                   f"; `{u(type_dep[0])[:50]}` makes the answer depend on an argument's type, so equal arguments of different types (1 / True / 1.0) get each other's answers - whichever came first in the process"))

    # analyzer is a fresh local per evaluation
    an_defs = [node for kind, node in prog.local_defs(ev, "analyzer")] if prog.local_defs(ev, "analyzer") else []
    ctors = []
    for n in prog.walk_fn(ev):
        if isinstance(n, ast.Call):
            t = prog.infer(n, ev)
            if any(a.kind == "inst" and "Analyzer" in a.name for a in t.alts()) and isinstance(n.func, ast.Name):
                ctors.append(n)
    ctx.ob("R12.2", "analyzer-fresh-per-evaluation", len(ctors) >= 1 and all(_bound_to_local_only(prog, ev, c) for c in ctors), ev.loc(),
           "the analyzer (with its T-SQL split cache) is constructed inside the evaluator and kept in a local only")
    for c in prog.classes.values():
        if "Analyzer" in c.name:
            for nm, val in c.consts.items():
                ctx.ob("R12.2", f"analyzer-class-state:{c.name}.{nm}", not is_mutable_init(val) or nm in ("SUPPORTED_DIALECTS",), c.loc(),
                       f"{c.name}.{nm} is not a mutable class-level cache", trivial=True)
    # default-argument objects of repo classes: immutable after construction
    for f in prog.funcs.values():
        a = f.node.args if hasattr(f.node, "args") else None
        if a is None:
            continue
        for d in list(a.defaults) + [x for x in a.kw_defaults if x is not None]:
            if is_mutable_init(d):
                ctx.ob("R12.2", f"default-arg-mutable:{f.name}", False, f.loc(), f"mutable default argument `{u(d)}` is one object shared by all calls, runs and threads")
            elif isinstance(d, ast.Call):
                t = prog.infer(d, None, mod=f.mod)
                for alt in t.alts():
                    if alt.kind == "inst" and alt.name in prog.classes:
                        k = prog.classes[alt.name]
                        if prog.is_subclass(k, P):
                            ctx.ob("R12.2", f"default-arg-object:{f.name}:{k.name}", True, f.loc(),
                                   f"default `{u(d)}` is one shared provider instance: its run-time writes are judged by the provider-field rule above")
                        else:
                            writes = [m.name for m in k.methods.values() if m.name != "__init__" and any(
                                isinstance(n, ast.Attribute) and isinstance(n.ctx, ast.Store) and isinstance(n.value, ast.Name) and n.value.id == "self" for n in ast.walk(m.node))]
                            ctx.ob("R12.2", f"default-arg-object:{f.name}:{k.name}", not writes, f.loc(),
                                   f"default `{u(d)}` is shared by all calls: class {k.name} must be immutable after construction" + (f" (written in {writes})" if writes else ""))
    # import-time patches of sqlparse tables run at import only
    for f in prog.funcs.values():
        if f.qual in reach:
            continue
        writes_foreign = False
        for n in prog.walk_fn(f):
            if isinstance(n, ast.Subscript) and isinstance(n.ctx, ast.Store) and isinstance(n.value, ast.Name) and not prog.local_defs(f, n.value.id) and prog.resolve(f.mod.name, n.value.id, f)[0] == "ext":
                writes_foreign = True
        if writes_foreign:
            ctx.ob("R12.2", f"import-time-patch:{f.name}", True, f.loc(), f"{f.name} patches a sqlparse table and is not reachable from the evaluator (import-time only)")

    # ---- R12.4 -------------------------------------------------------------------------------
    common.flag_rule(ctx, R, "R12.4")
    # ---- R12.5 the provider look-up keeps no memory and does not change what its source handed out (= R13.5) ------------------------
    common.import_rules(ctx, "C13", {"R13.5": "R12.5"})

    # ---- R12.6 (= R15.1 / R15.2): the scoped overrides live in the calling thread's own entry and are removed on exit - parked in one shared
    # slot between call and enter, two threads opening scopes at the same time run under each other's settings
    from .common import import_rules as _imp12

    _imp12(ctx, "C15", {"R15.1": "R12.6", "R15.2": "R12.6"})


def _stores_objects(prog: Prog, fn: Fn, st: ast.stmt) -> Optional[str]:
    """Return the text of a sub-expression that stores a parameter object (or its elements) unprojected."""
    params = {p for p in fn.params() if p != "self"}
    elem_of: dict[str, str] = {}
    for n in ast.walk(st):
        if isinstance(n, ast.comprehension) and isinstance(n.target, ast.Name) and isinstance(n.iter, ast.Name) and n.iter.id in params:
            elem_of[n.target.id] = n.iter.id
    for n in ast.walk(st):
        if isinstance(n, ast.Name) and isinstance(n.ctx, ast.Load) and (n.id in params or n.id in elem_of):
            par = prog.parent(n)
            if isinstance(par, ast.Attribute) and par.value is n:
                continue  # projected: x.attr
            if isinstance(par, ast.Call) and isinstance(par.func, ast.Name) and par.func.id in ("str", "repr", "len") and n in par.args:
                continue
            if isinstance(par, ast.comprehension) and par.iter is n:
                continue
            if isinstance(par, ast.FormattedValue):
                continue
            return u(par) if par is not None else n.id
    return None


def _cleared_in(prog: Prog, dereg: Fn, fld: str) -> bool:
    for n in ast.walk(dereg.node):
        if isinstance(n, ast.Call) and isinstance(n.func, ast.Attribute) and n.func.attr == "clear" and is_self_attr(n.func.value, fld):
            return True
        if isinstance(n, ast.Assign) and any(is_self_attr(t, fld) for t in n.targets):
            return True
    return False


def _bound_to_local_only(prog: Prog, fn: Fn, call: ast.Call) -> bool:
    st = prog.enclosing_stmt(call)
    if isinstance(st, ast.Assign):
        return all(isinstance(t, ast.Name) for t in st.targets)
    return False
