"""C17 - the visualisation server only discloses files under its roots (DESIGN.md C17, rules R17.1-R17.3).

Taint analysis: request-derived paths (PATH_INFO, every value read out of the decoded JSON body) must reach a
file-system sink only through a sound containment guard on the value that is actually used.
"""

from __future__ import annotations

import ast
from dataclasses import dataclass
from typing import Optional

from ..astutil import is_self_attr, u
from ..cfg import flow
from ..model import AnalysisError, Cls, Fn, Prog, loc
from ..report import Ctx

EXPLANATION = (
    "Static taint analysis of sqllineage/drawing.py and the helper it calls in utils/helpers.py. Sources: environ['PATH_INFO'] and "
    "every value read from the decoded JSON body (payload[k], payload.get(k), Namespace(**payload).k, through helper parameters). "
    "Sinks: open(), Path.open/read_*/iterdir/glob/exists/is_dir/is_file/stat, os.listdir/scandir/stat. Decides: R17.1 every flow "
    "from a source to a sink is covered by a sound guard on the value actually used - (G1) a containment predicate that normalises "
    "the same raw value with resolve()/realpath and compares by path components (is_relative_to / relative_to / commonpath) against "
    "the normalised root, refusing on failure, or (G2) for GET: '..' rejected, all leading separators stripped, joined under the "
    "static folder; values derived by operations that do not preserve containment (.parent, joins) need their own guard; str.startswith "
    "and absolute() without resolution are not accepted; R17.2 the set of body keys that reach a sink in any registered route handler "
    "is covered by the keys the dispatcher guards before dispatch, unconditionally; R17.3 (observation) roots used by guard and "
    "default listing. Does not decide: symlink races in the file system, MIME handling."
    " R17.3 the guard's root is assigned only the configured directory or the folder that holds the given file (one step up from a given path), never a computed ancestor."
    " R17.4 a request's data stays in locals: nothing is written to the application object or the module while a request is served."
)
RULE_TEXT = (
    "one obligation per (source label, sink) flow, per guard site and per containment predicate; non-trivial = flows and guards "
    "(anchor-presence obligations are trivial)"
)

FS_METHOD_SINKS = {"open", "read_text", "read_bytes", "iterdir", "glob", "rglob", "exists", "is_dir", "is_file", "stat", "lstat", "touch", "unlink", "write_text", "write_bytes"}
OS_SINKS = {"os.listdir", "os.scandir", "os.stat", "os.path.exists", "os.path.isdir", "os.path.isfile", "os.walk", "os.open", "io.open", "os.remove", "shutil.copy"}
PRESERVING_CALLS = {"Path", "PurePath", "str", "os.fspath", "pathlib.Path"}
PRESERVING_METHODS = {"resolve", "absolute"}
NORMALISERS = {"resolve"}
NORMALISER_FUNCS = {"os.path.realpath"}


@dataclass(frozen=True)
class Label:
    key: str  # body key, '*' for any key, 'PATH_INFO'
    form: str  # raw | derived | stripped | contained | other


class Taint:
    """Per-function, flow-insensitive (per definition) taint with inter-procedural descent into repo callees."""

    def __init__(self, prog: Prog, ctx: Ctx):
        self.prog, self.ctx = prog, ctx
        self.sinks: list[tuple[Fn, ast.AST, ast.AST, frozenset]] = []  # (fn, sink call, path expr, labels)
        self._memo: dict = {}
        self._stack: list = []

    # payload-like objects: name -> kind ('dict' | 'ns')
    def analyse(self, fn: Fn, params: dict[str, object]) -> None:
        key = (fn.qual, tuple(sorted((k, repr(v)) for k, v in params.items())))
        if key in self._memo or key in self._stack:
            return
        self._stack.append(key)
        self._memo[key] = True
        self.ctx.touched(fn)
        env = dict(params)  # name -> 'DICT' | 'NS' | frozenset[Label]
        # iterate to fixpoint over local definitions
        for _ in range(6):
            changed = False
            for name_, defs in list(self._defs(fn).items()):
                cur = env.get(name_)
                for kind, node in defs:
                    val = None
                    if kind in ("assign", "walrus", "annassign") and getattr(node, "value", None) is not None:
                        val = self.eval(node.value, fn, env)
                    elif kind == "with" and isinstance(node, ast.withitem):
                        val = None
                    elif kind in ("for", "comp"):
                        it = self.eval(node.iter, fn, env)
                        if isinstance(it, frozenset) and it:
                            itxt = u(node.iter)
                            if ".iterdir()" in itxt or ".glob(" in itxt or ".rglob(" in itxt:
                                val = it  # entries of a contained directory are contained (symlinks aside)
                            else:
                                val = frozenset(Label(l.key, "derived" if l.form in ("raw", "derived") else l.form) for l in it)
                    if val is None:
                        continue
                    if isinstance(val, str):
                        if cur != val:
                            env[name_] = val
                            cur = val
                            changed = True
                    elif isinstance(val, frozenset):
                        new = (cur if isinstance(cur, frozenset) else frozenset()) | val
                        if new != cur:
                            env[name_] = new
                            cur = new
                            changed = True
            if not changed:
                break
        self.env_of = getattr(self, "env_of", {})
        self.env_of[fn.qual] = env
        # sinks and calls
        for n in self.prog.walk_fn(fn):
            if not isinstance(n, ast.Call):
                continue
            fname = self._dotted(n.func, fn)
            if fname in ("open", "io.open") or fname in OS_SINKS:
                if n.args:
                    t = self.eval(n.args[0], fn, env)
                    if isinstance(t, frozenset) and t:
                        self.sinks.append((fn, n, n.args[0], t))
            elif isinstance(n.func, ast.Attribute) and n.func.attr in FS_METHOD_SINKS:
                t = self.eval(n.func.value, fn, env)
                if isinstance(t, frozenset) and t:
                    self.sinks.append((fn, n, n.func.value, t))
            # descend
            callees = [c for c in self.prog.resolve_call(n, fn) if isinstance(c, Fn)]
            for cal in callees:
                if cal.mod.name.split(".")[0] != "sqllineage" or cal.name == "__init__":
                    continue
                ps = [p for p in cal.params() if p not in ("self", "cls")] if cal.cls is not None and cal.kind in ("method", "classmethod") else cal.params()
                passed: dict[str, object] = {}
                for i, a in enumerate(n.args):
                    if i < len(ps):
                        v = self.eval(a, fn, env)
                        if v:
                            passed[ps[i]] = v
                for kw in n.keywords:
                    if kw.arg:
                        v = self.eval(kw.value, fn, env)
                        if v:
                            passed[kw.arg] = v
                if passed:
                    self.analyse(cal, passed)
        self._stack.pop()

    def _defs(self, fn: Fn):
        if fn.qual not in self.prog._defs_cache:
            self.prog.local_defs(fn, "")
        return self.prog._defs_cache[fn.qual]

    def _dotted(self, e: ast.AST, fn: Fn) -> str:
        if isinstance(e, ast.Name):
            r = self.prog.resolve(fn.mod.name, e.id, fn)
            if r[0] == "ext":
                return r[1]
            return e.id
        if isinstance(e, ast.Attribute):
            r = self.prog.resolve_expr(e, fn.mod, fn)
            if r[0] == "ext":
                return r[1]
            return u(e)
        return ""

    def eval(self, e: ast.AST, fn: Fn, env: dict):
        """-> 'DICT' | 'NS' | frozenset[Label] | None"""
        if e is None:
            return None
        if isinstance(e, ast.Name):
            return env.get(e.id)
        if isinstance(e, ast.NamedExpr):
            return self.eval(e.value, fn, env)
        if isinstance(e, ast.Constant):
            return None
        if isinstance(e, ast.Subscript):
            base = self.eval(e.value, fn, env)
            if base == "DICT":
                k = self.prog.try_fold(e.slice, fn.mod, fn)
                if not isinstance(k, str):
                    k = self._loop_keys(e.slice, fn) or "*"
                if isinstance(k, (list, tuple)):
                    return frozenset(Label(x, "raw") for x in k)
                return frozenset({Label(k, "raw")})
            if isinstance(base, frozenset):
                return frozenset(Label(l.key, "other" if l.key == "PATH_INFO" else "derived") for l in base)
            return None
        if isinstance(e, ast.Attribute):
            base = self.eval(e.value, fn, env)
            if base == "NS":
                return frozenset({Label(e.attr, "raw")})
            if isinstance(base, frozenset):
                return frozenset(Label(l.key, "other" if l.key == "PATH_INFO" else "derived") for l in base)
            return None
        if isinstance(e, ast.Call):
            fname = self._dotted(e.func, fn)
            short = fname.split(".")[-1]
            if fname in ("json.loads", "json.load"):
                return "DICT"
            if short == "Namespace" and any(k.arg is None and self.eval(k.value, fn, env) == "DICT" for k in e.keywords):
                return "NS"
            if short == "getattr" and len(e.args) >= 2:
                base = self.eval(e.args[0], fn, env)
                k = self.prog.try_fold(e.args[1], fn.mod, fn)
                if base == "NS":
                    return frozenset({Label(k if isinstance(k, str) else "*", "raw")})
            if isinstance(e.func, ast.Attribute):
                base = self.eval(e.func.value, fn, env)
                meth = e.func.attr
                if base == "DICT" and meth in ("get", "pop", "setdefault") and e.args:
                    k = self.prog.try_fold(e.args[0], fn.mod, fn)
                    if not isinstance(k, str):
                        k = self._loop_keys(e.args[0], fn) or "*"
                    if isinstance(k, (list, tuple)):
                        return frozenset(Label(x, "raw") for x in k)
                    return frozenset({Label(k, "raw")})
                if base == "DICT" and meth in ("values", "items"):
                    return frozenset({Label("*", "derived")})
                if isinstance(base, frozenset) and base:
                    if meth in PRESERVING_METHODS or meth in ("iterdir", "glob", "rglob"):
                        return base
                    if meth in ("strip", "lstrip") and e.args:
                        chars = self.prog.try_fold(e.args[0], fn.mod, fn)
                        ok = isinstance(chars, str) and "/" in chars
                        return frozenset(Label(l.key, ("stripped" if ok and l.form == "raw" else "other") if l.key == "PATH_INFO" else "derived") for l in base)
                    return frozenset(Label(l.key, "other" if l.key == "PATH_INFO" else "derived") for l in base)
                # untainted receiver joining a tainted operand: ROOT.joinpath(x)
                if meth == "joinpath" and e.args:
                    ops = [self.eval(a, fn, env) for a in e.args]
                    labs = frozenset().union(*[o for o in ops if isinstance(o, frozenset)]) if any(isinstance(o, frozenset) for o in ops) else frozenset()
                    if labs:
                        return frozenset(Label(l.key, ("contained" if l.form == "stripped" else "other") if l.key == "PATH_INFO" else "derived") for l in labs)
            if fname in PRESERVING_CALLS or short in ("Path", "str", "PurePath", "sorted", "list", "reversed", "tuple"):
                if e.args:
                    return self.eval(e.args[0], fn, env)
                return None
            # any other call: union of argument taints, derived
            labs = frozenset()
            for a in list(e.args) + [k.value for k in e.keywords]:
                t = self.eval(a, fn, env)
                if isinstance(t, frozenset):
                    labs |= t
            if labs and short not in ("len", "int", "bool", "isinstance", "print"):
                return frozenset(Label(l.key, "other" if l.key == "PATH_INFO" else "derived") for l in labs)
            return None
        if isinstance(e, ast.BinOp):
            lt, rt = self.eval(e.left, fn, env), self.eval(e.right, fn, env)
            labs = (lt if isinstance(lt, frozenset) else frozenset()) | (rt if isinstance(rt, frozenset) else frozenset())
            if labs:
                if isinstance(e.op, ast.Div) and not isinstance(lt, frozenset):
                    return frozenset(Label(l.key, ("contained" if l.form == "stripped" else "other") if l.key == "PATH_INFO" else "derived") for l in labs)
                return frozenset(Label(l.key, "other" if l.key == "PATH_INFO" else "derived") for l in labs)
            return None
        if isinstance(e, (ast.IfExp,)):
            a, b = self.eval(e.body, fn, env), self.eval(e.orelse, fn, env)
            labs = (a if isinstance(a, frozenset) else frozenset()) | (b if isinstance(b, frozenset) else frozenset())
            return labs or None
        if isinstance(e, ast.BoolOp):
            labs = frozenset()
            for v in e.values:
                t = self.eval(v, fn, env)
                if isinstance(t, frozenset):
                    labs |= t
            return labs or None
        if isinstance(e, ast.JoinedStr):
            labs = frozenset()
            for v in e.values:
                if isinstance(v, ast.FormattedValue):
                    t = self.eval(v.value, fn, env)
                    if isinstance(t, frozenset):
                        labs |= t
            return frozenset(Label(l.key, "other" if l.key == "PATH_INFO" else "derived") for l in labs) or None
        if isinstance(e, ast.Starred):
            return self.eval(e.value, fn, env)
        return None

    def _loop_keys(self, e: ast.AST, fn: Fn):
        """`payload[param]` with `for param in ["d", "f"]` -> ['d', 'f']."""
        if isinstance(e, ast.Name):
            defs = self.prog.local_defs(fn, e.id)
            if len(defs) == 1 and defs[0][0] == "for":
                v = self.prog.try_fold(defs[0][1].iter, fn.mod, fn)
                if isinstance(v, (list, tuple)) and all(isinstance(x, str) for x in v):
                    return list(v)
        return None


def is_sound_containment_expr(prog: Prog, e: ast.AST, fn: Fn, value_is) -> tuple[bool, str]:
    """`Path(v).resolve().is_relative_to(Path(root).resolve())` with v satisfying value_is; returns (ok, why)."""
    if not (isinstance(e, ast.Call) and isinstance(e.func, ast.Attribute)):
        return False, "not a method call"
    if e.func.attr == "startswith":
        return False, "string prefix is not path containment (root_sibling/...) and '..' is not resolved"
    if e.func.attr not in ("is_relative_to",):
        return False, f"comparison `{e.func.attr}` is not a component-wise containment test"
    recv, args = e.func.value, e.args
    if len(args) != 1:
        return False, "arity"

    def normalised(x: ast.AST) -> Optional[ast.AST]:
        if isinstance(x, ast.Call) and isinstance(x.func, ast.Attribute) and x.func.attr in NORMALISERS and not x.args:
            return x.func.value
        if isinstance(x, ast.Call) and u(x.func) in ("os.path.realpath",) and x.args:
            return x.args[0]
        return None

    v = normalised(recv)
    if v is None:
        return False, f"`{u(recv)[:50]}` is not normalised with resolve()/realpath ('..' and symlinks stay)"
    r = normalised(args[0])
    if r is None:
        return False, f"root `{u(args[0])[:50]}` is not normalised with resolve()/realpath"
    # v must be Path(<value>) of the raw value itself - not joined onto anything
    inner = v
    while isinstance(inner, ast.Call) and (u(inner.func) in ("Path", "pathlib.Path", "str", "PurePath")) and len(inner.args) == 1:
        inner = inner.args[0]
    if not value_is(inner):
        return False, f"the value normalised by the guard is `{u(v)[:50]}`, not the request value itself (the sink would use a different path)"
    return True, ""


def rules(ctx: Ctx) -> None:
    prog = ctx.prog
    mod = prog.mods.get("sqllineage.drawing")
    if mod is None:
        raise AnalysisError("module sqllineage.drawing not found")
    # the WSGI callable: class with __call__(self, environ, start_response) instantiated at module level
    app_cls = app_name = None
    for st in mod.tree.body:
        if isinstance(st, ast.Assign) and isinstance(st.value, ast.Call) and isinstance(st.value.func, ast.Name):
            r = prog.resolve(mod.name, st.value.func.id)
            if r[0] == "class" and "__call__" in prog.classes[r[1]].methods and len(prog.classes[r[1]].methods["__call__"].params()) >= 3:
                app_cls, app_name = prog.classes[r[1]], st.targets[0].id
    if app_cls is None:
        raise AnalysisError("WSGI application object not found in sqllineage.drawing")
    disp = app_cls.methods["__call__"]
    environ = disp.params()[1]
    # registered route handlers
    handlers: list[Fn] = []
    for f in prog.funcs.values():
        if f.mod is mod and any(d.startswith(f"{app_name}.route(") for d in f.decorators):
            handlers.append(f)
    ctx.floor("route handlers registered through the route decorator", len(handlers), 1)
    ctx.extra["anchors"] = {"app": app_cls.qual, "dispatcher": disp.qual, "handlers": [h.qual for h in handlers]}

    # ---- containment predicates (G1) --------------------------------------------------
    predicates: dict[str, Fn] = {}
    for m in app_cls.methods.values():
        rets = [n for n in ast.walk(m.node) if isinstance(n, ast.Return) and n.value is not None]
        ps = [p for p in m.params() if p != "self"]
        if len(rets) == 1 and len(ps) == 1 and "root_path" in u(rets[0].value):
            ok, why = is_sound_containment_expr(prog, rets[0].value, m, lambda x, p=ps[0]: isinstance(x, ast.Name) and x.id == p)
            ctx.ob("R17.1", f"predicate:{m.name}:sound", ok, m.loc(),
                   f"`{u(rets[0].value)[:90]}` must normalise the value itself and the root, then compare by components" + (f" - {why}" if not ok else ""))
            ctx.touched(m)
            if ok:
                predicates[m.name] = m

    def guard_call_on(e: ast.AST, fn: Fn) -> Optional[ast.AST]:
        """If e is a call of a sound predicate (or a sound inline containment expression) return its argument."""
        if isinstance(e, ast.Call) and isinstance(e.func, ast.Attribute) and e.func.attr in predicates and len(e.args) == 1:
            if any(c is predicates[e.func.attr] for c in prog.resolve_call(e, fn)) or u(e.func.value) in ("self", app_name):
                return e.args[0]
        if isinstance(e, ast.Call) and isinstance(e.func, ast.Attribute) and e.func.attr == "is_relative_to":
            holder: list = []
            ok, _ = is_sound_containment_expr(prog, e, fn, lambda x: holder.append(x) or True)
            if ok and holder:
                return holder[0]
        return None

    # ---- taint ------------------------------------------------------------------------
    taint = Taint(prog, ctx)
    # dispatcher: PATH_INFO and body
    denv: dict[str, object] = {}
    for name_, defs in (prog.local_defs(disp, "") or prog._defs_cache[disp.qual]).items():
        for kind, node in defs:
            if kind == "assign" and isinstance(node.value, ast.Subscript) and u(node.value.value) == environ and prog.try_fold(node.value.slice, disp.mod, disp) == "PATH_INFO":
                denv[name_] = frozenset({Label("PATH_INFO", "raw")})
    ctx.ob("R17.1", "source:PATH_INFO", bool(denv), disp.loc(), "the request path is read from environ['PATH_INFO']", trivial=True)
    taint.analyse(disp, denv)
    for h in handlers:
        ps = h.params()
        if not ps:
            continue
        taint.analyse(h, {ps[0]: "DICT"})
    ctx.floor("request-derived flows into file-system sinks", len(taint.sinks), 3)

    # ---- dispatcher guard (R17.2) -------------------------------------------------------
    dcfg = flow(prog, disp).cfg
    dispatch_nodes = []
    for c in dcfg.nodes.values():
        if c.ast is None or c.kind not in ("stmt", "cond"):
            continue
        for k in ast.walk(c.ast):
            if isinstance(k, ast.Call) and isinstance(k.func, ast.Subscript) and is_self_attr(k.func.value, "routes"):
                dispatch_nodes.append((c.id, k))
    ctx.ob("R17.2", "dispatch-site", len(dispatch_nodes) == 1, disp.loc(), "exactly one place dispatches to the registered route handlers", trivial=True)
    guarded_keys: set[str] = set()
    if dispatch_nodes:
        H, hcall = dispatch_nodes[0]
        payload_name = u(hcall.args[0]) if hcall.args else None
        for c in dcfg.nodes.values():
            if c.kind != "cond":
                continue
            arg = guard_call_on(c.ast, disp)
            if arg is None:
                continue
            # which keys does the argument denote?
            env = taint.env_of.get(disp.qual, {})
            labs = taint.eval(arg, disp, env)
            keys = sorted({l.key for l in labs if l.form == "raw"}) if isinstance(labs, frozenset) else []
            exact = isinstance(arg, ast.Subscript) or (isinstance(arg, ast.Call) and isinstance(arg.func, ast.Attribute) and arg.func.attr == "get")
            where = f"{disp.mod.path}:{c.lineno}"
            if not (keys and exact):
                ctx.ob("R17.2", "guard:argument-is-one-body-value", False, where,
                       f"`{u(c.ast)[:80]}`: the guard must test one body value `payload[k]` per key (an `or`/derived argument leaves a key unchecked)")
                continue
            # refusal: the not-allowed edge must never reach the dispatch
            bad_succ = [b for b in dcfg.g.successors(c.id) if dcfg.g[c.id][b].get("label") and dcfg.g[c.id][b]["label"][1] is False]
            refuses = bool(bad_succ) and not any(b == H or dcfg.reach(b, H) for b in bad_succ)
            ctx.ob("R17.2", f"guard:refuses:{'+'.join(keys)}", refuses, where, "when the value is outside the root the request is refused and never dispatched")
            dominates = dcfg.dominates(c.id, H) or _loop_dominates(dcfg, c.id, H) or _covers_when_present(dcfg, c.id, H, keys, payload_name)
            ctx.ob("R17.2", f"guard:before-dispatch:{'+'.join(keys)}", dominates, where, "the guard is evaluated on every path to the dispatch")
            # unconditional apart from key presence and request routing
            facts = dcfg.facts_at(c.id)
            routing_names = {nm for nm in {x.id for x in ast.walk(disp.node) if isinstance(x, ast.Name)}
                             if any(kind == "assign" and isinstance(node.value, ast.Subscript) and u(node.value.value) == environ for kind, node in prog.local_defs(disp, nm))}
            foreign = [t for t, p in facts if not _routing_or_presence_fact(t, payload_name, routing_names)]
            ctx.ob("R17.2", f"guard:unconditional:{'+'.join(keys)}", not foreign, where,
                   "the guard is evaluated for every present key" + (f" (skipped depending on `{foreign[0]}`)" if foreign else ""))
            if refuses and dominates and not foreign:
                guarded_keys |= set(keys)
    ctx.extra["dispatcher_guarded_keys"] = sorted(guarded_keys)

    # ---- flows (R17.1 + R17.2) -----------------------------------------------------------
    sink_keys: set[str] = set()
    for fn, call, pexpr, labels in taint.sinks:
        fcfg = flow(prog, fn).cfg
        where = loc(fn.mod, call)
        for lab in sorted(labels, key=lambda l: (l.key, l.form)):
            key = f"{fn.name}:{_sink_name(call)}:{lab.key}:{lab.form}"
            if lab.key == "PATH_INFO":
                if lab.form != "contained":
                    ctx.ob("R17.1", key, False, where,
                           f"`{u(call)[:70]}` uses the request path in form '{lab.form}': it must be stripped of all leading separators and joined under the static folder")
                    continue
                # '..' rejected where the contained value is created
                ok = _dotdot_rejected_at_creation(prog, fn, fcfg, pexpr, taint)
                ctx.ob("R17.1", key, ok, where, f"`{u(call)[:70]}`: the joined request path is created only after `'..' in path` was refuted")
                continue
            sink_keys.add(lab.key)
            if lab.form == "raw":
                ok = lab.key in guarded_keys or lab.key == "*" and False
                if not ok:
                    # a local guard in the function also discharges it
                    ok = _locally_guarded(prog, fn, fcfg, pexpr, call, guard_call_on, key=lab.key)
                ctx.ob("R17.2", key, ok, where,
                       f"`{u(call)[:70]}` reads body key {lab.key!r}: the dispatcher (or the function itself) must guard that key before the sink"
                       + ("" if ok else f" (dispatcher guards {sorted(guarded_keys)})"))
            else:
                ok = _locally_guarded(prog, fn, fcfg, pexpr, call, guard_call_on)
                ctx.ob("R17.1", key, ok, where,
                       f"`{u(call)[:70]}` uses a path derived from body key {lab.key!r} by an operation that does not preserve containment "
                       f"(.parent / join / ...): the derived value itself must pass a containment guard on every path to the sink")
    ctx.extra["body_keys_reaching_sinks"] = sorted(sink_keys)

    # ---- R17.3 who sets the root, and to what: the guard is only as narrow as the root it compares against.  The root is the configured SQL
    # directory, or the directory that holds the file the server was started for - never an ancestor computed from them
    root_attr = None
    for m in app_cls.methods.values():
        if any(isinstance(n, ast.Call) and isinstance(n.func, ast.Attribute) and n.func.attr in ("is_relative_to", "relative_to", "commonpath", "startswith") for n in prog.walk_fn(m)):
            attrs_ = [n.attr for n in prog.walk_fn(m) if is_self_attr_any(n)]
            if attrs_:
                root_attr = attrs_[0]
    if root_attr is None:
        raise AnalysisError("attribute holding the guard's root not found (self attribute read by the containment predicate)")
    n_root = 0
    for f in prog.funcs.values():
        if f.mod is not app_cls.mod:
            continue
        for n in prog.walk_fn(f):
            if not (isinstance(n, ast.Attribute) and isinstance(n.ctx, ast.Store) and n.attr == root_attr):
                continue
            st = prog.enclosing_stmt(n)
            val = getattr(st, "value", None)
            n_root += 1
            ok, why = _root_value_ok(prog, f, val)
            ctx.ob("R17.3", f"root-is-the-configured-directory-or-the-file's-folder:{f.owner}", ok, loc(f.mod, st),
                   f"`{u(st)[:80]}`: {why}")
    ctx.floor("assignments of the guard's root", n_root, 2)
    # ---- R17.4 a request's data lives in the locals of the request: the application object (and the module) is shared by every request the
    # threaded server handles at the same time, so nothing is written to it while a request is served (a path checked for one request and
    # read back for another; a result built for one script and returned for another)
    served = {disp.qual} | {h.qual for h in handlers}
    served |= {q for q in prog.reachable_from(sorted(served)) if q in prog.funcs and prog.funcs[q].mod is app_cls.mod}
    n_srv = 0
    for q in sorted(served):
        f = prog.funcs[q]
        globs = {nm for n in prog.walk_fn(f) if isinstance(n, ast.Global) for nm in n.names}
        for n in prog.walk_fn(f):
            tgt = None
            if isinstance(n, (ast.Attribute, ast.Subscript)) and isinstance(n.ctx, (ast.Store, ast.Del)):
                tgt = n
            elif isinstance(n, ast.Name) and isinstance(n.ctx, ast.Store) and n.id in globs:
                tgt = n
            elif isinstance(n, ast.Call) and isinstance(n.func, ast.Name) and n.func.id == "setattr" and n.args:
                tgt = n.args[0]
            if tgt is None:
                continue
            root = tgt
            while isinstance(root, (ast.Attribute, ast.Subscript)):
                root = root.value
            if not isinstance(root, ast.Name):
                continue
            shared = (root.id == "self" and f.cls is app_cls) or root.id in globs or (
                not prog.local_defs(f, root.id) and root.id not in f.params() and prog.resolve(f.mod.name, root.id, f)[0] in ("var", "class"))
            if shared:
                n_srv += 1
                ctx.ob("R17.4", f"request-data-stays-in-locals:{f.owner}:{u(tgt)[:40]}", False, loc(f.mod, n),
                       f"`{u(prog.enclosing_stmt(n))[:70]}` writes to an object shared by all requests while one request is served")
    ctx.ob("R17.4", "request-data-stays-in-locals:scanned", True, app_cls.loc(), f"{len(served)} functions that serve requests scanned, {n_srv} write(s) to shared objects", trivial=True)
    ctx.floor("functions that serve requests", len(served), 3)

    # ---- R17.3 observation -------------------------------------------------------------
    init = app_cls.methods.get("__init__")
    if init is not None:
        ctx.note("R17.3 observation: the guard root is app.root_path (set at import from SQLLineageConfig.DIRECTORY and by draw_lineage_graph); "
                 "the directory handler's default listing reads SQLLineageConfig.DIRECTORY at request time")


def is_self_attr_any(n: ast.AST) -> bool:
    return isinstance(n, ast.Attribute) and isinstance(n.value, ast.Name) and n.value.id == "self" and isinstance(n.ctx, ast.Load)


def _root_value_ok(prog: Prog, f: Fn, val: Optional[ast.AST]) -> tuple[bool, str]:
    """configured directory | folder of a given file: Path(...), .resolve(), .absolute(), str() and os.path.abspath / dirname keep the meaning;
    exactly one step up (`.parent` / dirname) is allowed, and only from a value that is not itself computed from several paths."""
    if val is None:
        return False, "no value"
    ups = 0
    e = val
    for _ in range(12):
        if isinstance(e, ast.Call) and isinstance(e.func, ast.Attribute) and e.func.attr in ("resolve", "absolute", "expanduser") and not e.args:
            e = e.func.value
        elif isinstance(e, ast.Call) and u(e.func) in ("Path", "str", "os.path.abspath", "os.path.realpath", "abspath", "realpath", "pathlib.Path") and len(e.args) == 1:
            e = e.args[0]
        elif isinstance(e, ast.Call) and u(e.func) in ("os.path.dirname", "dirname") and len(e.args) == 1:
            ups += 1
            e = e.args[0]
        elif isinstance(e, ast.Attribute) and e.attr == "parent":
            ups += 1
            e = e.value
        elif isinstance(e, ast.Name):
            srcs = [v for v in prog.value_sources(f, e) if not (isinstance(v, ast.Name) and v.id == e.id)]
            if len(srcs) == 1:
                e = srcs[0]
            else:
                break
        else:
            break
    if isinstance(e, ast.Attribute) and isinstance(e.value, ast.Name) and e.value.id == "SQLLineageConfig":
        return (ups == 0, "the configured directory" if ups == 0 else f"{ups} level(s) above the configured directory")
    is_given = isinstance(e, ast.Name) or (isinstance(e, ast.Call) and isinstance(e.func, ast.Attribute) and e.func.attr in ("get", "pop")) or isinstance(e, ast.Subscript)
    if is_given and ups == 1:
        return True, "the folder that holds the given file"
    if is_given and ups == 0:
        return True, "the given directory"
    return False, f"the root is computed (`{u(e)[:50]}`, {ups} level(s) up): it may be an ancestor of both the configured directory and the file's folder, and everything below it becomes readable"


def _sink_name(call: ast.Call) -> str:
    return call.func.attr if isinstance(call.func, ast.Attribute) else u(call.func)


def _covers_when_present(cfg, guard: int, H: int, keys: list[str], payload: Optional[str]) -> bool:
    """Every path to the dispatch that does not evaluate the guard leaves a presence test of the guarded key by its "absent" edge
    (`'k' in payload` false): the guard is skipped only for requests that do not carry the key."""
    if not payload or not keys:
        return False
    g = cfg.g

    def absent(a: int, b: int) -> bool:
        lab = g[a][b].get("label")
        if not lab:
            return False
        t = u(lab[0])
        return any((t == f"{k!r} in {payload}" and lab[1] is False) or (t == f"{k!r} not in {payload}" and lab[1] is True) for k in keys)

    seen, todo = {cfg.entry}, [cfg.entry]
    while todo:
        n = todo.pop()
        for s_ in g.successors(n):
            if s_ == guard or s_ in seen or absent(n, s_):
                continue
            if s_ == H:
                return False
            seen.add(s_)
            todo.append(s_)
    return True


def _loop_dominates(cfg, guard: int, H: int) -> bool:
    """The guard sits in a loop whose header dominates H and H is only reachable after the loop is exhausted."""
    for c in cfg.nodes.values():
        if c.kind == "for" and cfg.reach(c.id, guard) and cfg.reach(guard, c.id) and cfg.dominates(c.id, H):
            # every iteration passes the guard or skips it only by key absence (checked by 'unconditional')
            return True
    return False


def _routing_or_presence_fact(txt: str, payload_name: Optional[str], routing_names: set = frozenset()) -> bool:
    try:
        e = ast.parse(txt, mode="eval").body
    except SyntaxError:
        return False
    names = {n.id for n in ast.walk(e) if isinstance(n, ast.Name)}
    if names <= (set(routing_names) | {"self"}):
        return True
    if isinstance(e, ast.Compare) and len(e.ops) == 1 and isinstance(e.ops[0], (ast.In, ast.NotIn)) and payload_name and u(e.comparators[0]) == payload_name:
        return True
    return False


def _dotdot_rejected_at_creation(prog: Prog, fn: Fn, cfg, pexpr: ast.AST, taint: Taint) -> bool:
    """Every definition that makes `pexpr` a contained PATH_INFO value is created under the fact ('..' in raw) == False."""
    env = taint.env_of.get(fn.qual, {})
    raw_names = [n for n, v in env.items() if isinstance(v, frozenset) and Label("PATH_INFO", "raw") in v]
    todo, seen, ok_any = [pexpr], set(), False
    while todo:
        e = todo.pop()
        if isinstance(e, ast.Name):
            for kind, node in prog.local_defs(fn, e.id):
                if id(node) in seen or getattr(node, "value", None) is None:
                    continue
                seen.add(id(node))
                t = taint.eval(node.value, fn, env)
                if not (isinstance(t, frozenset) and any(l.key == "PATH_INFO" for l in t)):
                    continue
                joins = [k for k in ast.walk(node.value) if isinstance(k, ast.Call) and isinstance(k.func, ast.Attribute) and k.func.attr == "joinpath" or isinstance(k, ast.BinOp) and isinstance(k.op, ast.Div)]
                if joins:
                    nid = cfg.node_for(node)
                    facts = cfg.facts_at(nid) if nid is not None else frozenset()
                    if not any((t2 == f"'..' in {rn}" and p is False) or (t2 == f"'..' not in {rn}" and p is True) for t2, p in facts for rn in raw_names):
                        return False
                    ok_any = True
                else:
                    todo.extend(n for n in ast.walk(node.value) if isinstance(n, ast.Name))
    return ok_any


def _locally_guarded(prog: Prog, fn: Fn, cfg, pexpr: ast.AST, sink_call: ast.AST, guard_call_on, key: Optional[str] = None) -> bool:
    """Every path from a tainted definition of the sink's variable to the sink crosses the True edge of a sound guard on that variable."""
    var = pexpr
    while isinstance(var, (ast.Attribute, ast.Call)):
        var = var.func.value if isinstance(var, ast.Call) and isinstance(var.func, ast.Attribute) else (var.value if isinstance(var, ast.Attribute) else None)
        if var is None:
            return False
    if not isinstance(var, ast.Name):
        return False
    # entries obtained by iterating a directory: the guard that matters is the one on the directory variable
    it_defs = [node for kind, node in prog.local_defs(fn, var.id) if kind in ("for", "comp")]
    if it_defs and not any(kind in ("assign", "walrus", "annassign") for kind, _ in prog.local_defs(fn, var.id)):
        outs = []
        for node in it_defs:
            srcs = [k.func.value for k in ast.walk(node.iter) if isinstance(k, ast.Call) and isinstance(k.func, ast.Attribute) and k.func.attr in ("iterdir", "glob", "rglob")]
            if not srcs:
                return False
            outs.append(all(_locally_guarded(prog, fn, cfg, sx, sink_call, guard_call_on, key=key) for sx in srcs))
        return all(outs)
    sink = cfg.node_for(sink_call)
    if sink is None:
        return False
    # the variable and the locals it is a plain copy of (`root = parent`): a guard on any of them is a guard on the same value, and the
    # definitions of all of them are the definitions to be covered
    names = {var.id}
    for _ in range(3):
        for nm in list(names):
            for kind, node in prog.local_defs(fn, nm):
                v_ = getattr(node, "value", None)
                if kind in ("assign", "walrus", "annassign") and isinstance(v_, ast.Name):
                    names.add(v_.id)
    guard_true_edges = []
    for c in cfg.nodes.values():
        if c.kind == "cond":
            arg = guard_call_on(c.ast, fn)
            if arg is not None and isinstance(arg, ast.Name) and arg.id in names:
                for b in cfg.g.successors(c.id):
                    lab = cfg.g[c.id][b].get("label")
                    if lab and lab[1] is True:
                        guard_true_edges.append((c.id, b))
    if not guard_true_edges:
        return False
    g = cfg.g.copy()
    g.remove_edges_from(guard_true_edges)
    import networkx as nx
    defs = [node for nm in sorted(names) for kind, node in prog.local_defs(fn, nm) if kind in ("assign", "walrus", "annassign")]
    for d in defs:
        # only tainted, non-preserving definitions need the guard; judge all definitions conservatively except constants
        did = cfg.node_for(d)
        if did is None:
            continue
        if not _mentions_request_value(d):
            continue
        if key is None:
            if not _is_derived_def(d):
                continue  # derived labels: only the non-preserving definitions need their own guard
        elif f"'{key}'" not in u(d) and f'"{key}"' not in u(d) and f".{key}" not in u(d):
            continue  # raw label of another body key
        if nx.has_path(g, did, sink):
            return False
    return True


def _mentions_request_value(node: ast.AST) -> bool:
    txt = u(node)
    return "payload" in txt or "args." in txt or "req_args" in txt


def _is_derived_def(node: ast.AST) -> bool:
    v = getattr(node, "value", None)
    if v is None:
        return False
    for k in ast.walk(v):
        if isinstance(k, ast.Attribute) and k.attr in ("parent", "parents", "name", "stem") or isinstance(k, ast.Call) and isinstance(k.func, ast.Attribute) and k.func.attr in ("joinpath", "with_name", "with_suffix") or isinstance(k, ast.BinOp):
            return True
    return False
