"""C01 - single-statement table lineage is exact (DESIGN.md C01, rules R01.1-R01.8)."""

from __future__ import annotations

import ast
from typing import Optional

from ..astutil import u
from ..cfg import flow
from ..grammar import grammar, installed_dialects, vocabulary
from ..model import AnalysisError, Cls, Fn, Prog, loc
from ..report import Ctx
from ..segnav import Nav

EXPLANATION = (
    "Static analysis of the sqlfluff extractors against a grammar model read from the installed sqlfluff dialect sources (never "
    "imported). Decides: R01.1 dispatch is a total function on what is claimed - statement-type lists of the extractors are pairwise "
    "disjoint, every listed type exists in some dialect grammar, every statement kind the property names has an extractor, the "
    "'moves no data' kinds go to an extractor with an empty effect summary, dispatch is by membership of the parsed statement's type; "
    "R01.2 every segment-type literal the package compares with `.type` or navigates by is in the grammar's vocabulary (a literal "
    "outside it makes its branch dead); R01.3 caller/callee type-guard agreement for the traversal helpers; R01.4 FROM traversal: on "
    "every CFG path that turns a FROM item into a dataset its JOIN clauses are traversed too, and JOIN traversal is recursive (the "
    "grammar allows joins inside brackets); R01.5 sub-query discovery is exhaustive against the grammar, at clause level (children of "
    "select_statement that can hold a sub-query) and along every type path the discovery code walks (each child type that can hold a "
    "sub-query must be navigated or be covered by a recursive crawl) - misses are known findings with a demonstrating statement each; "
    "R01.6 only Table/Path objects reach the public read/write/role sets; R01.7 the two passes over set-operation branches agree on "
    "the branch types they visit; R01.8 every CTE name is registered before any CTE body is extracted. Does not decide: that the tables "
    "found are the right ones once a path exists (alias extraction, target detection by keyword scan per dialect)."
    ' R01.10-R01.12 are shared clauses: parts of a dotted name are normalised one by one (= R07.3), CTE candidates are decided on the text (= R08.3), no cache or memo shared between analyzers is keyed by the text alone (= R12.2).'
    ' R01.12 also covers evaluated-once default arguments, module-level state and (= R05.3) extractors kept across statements; R01.14 nothing discovered is dropped because it shares a label (no iteration over the values of a dictionary keyed by a part of its values).'
)
RULE_TEXT = (
    "R01.1: per extractor and per listed statement type; R01.2: per distinct segment-type literal; R01.5: per (context clause, parent type, "
    "child type) demanded by the grammar; others: per site. Non-trivial = everything except vocabulary membership of literals"
)

REQUIRED_KINDS = {
    "insert_statement", "create_table_statement", "create_table_as_statement", "create_view_statement", "select_statement", "set_expression",
    "with_compound_statement", "update_statement", "merge_statement", "copy_statement",
}
NO_DATA_KINDS = {"delete_statement", "truncate_table", "show_statement", "use_statement"}
HOLDER_EFFECTS = {"add_read", "add_write", "add_cte", "add_drop", "add_rename", "add_write_column", "add_column_lineage", "add_edge", "add_node"}
TYPE_ARG_METHODS = {"get_child", "get_children", "recursive_crawl", "is_type", "select_children"}


def type_literals(prog: Prog) -> dict[str, list[tuple[Fn, ast.AST]]]:
    """Every string used as a segment type in the sqlfluff parser package: literal -> sites."""
    out: dict[str, list] = {}

    def add(v, f, n):
        if isinstance(v, str):
            out.setdefault(v, []).append((f, n))
        elif isinstance(v, (list, tuple, set)):
            for x in v:
                if isinstance(x, str):
                    out.setdefault(x, []).append((f, n))

    for f in prog.funcs.values():
        if not f.mod.name.startswith("sqllineage.core.parser.sqlfluff"):
            continue
        for n in prog.walk_fn(f):
            if isinstance(n, ast.Compare) and len(n.ops) == 1:
                sides = [n.left, n.comparators[0]]
                if any(isinstance(s, ast.Attribute) and s.attr == "type" for s in sides) and isinstance(n.ops[0], (ast.Eq, ast.NotEq, ast.In, ast.NotIn)):
                    for s in sides:
                        if not (isinstance(s, ast.Attribute) and s.attr == "type"):
                            add(prog.try_fold(s, f.mod, f), f, n)
                # statement_type in self.SUPPORTED_STMT_TYPES is judged by R01.1
            elif isinstance(n, ast.Call) and isinstance(n.func, ast.Attribute) and n.func.attr in TYPE_ARG_METHODS:
                for a in n.args:
                    add(prog.try_fold(a, f.mod, f), f, n)
                for k in n.keywords:
                    if k.arg in ("no_recursive_seg_type", "expanding"):
                        add(prog.try_fold(k.value, f.mod, f), f, n)
            elif isinstance(n, ast.Call) and isinstance(n.func, ast.Attribute) and n.func.attr == "iter_segments":
                for k in n.keywords:
                    if k.arg == "expanding":
                        add(prog.try_fold(k.value, f.mod, f), f, n)
    return out


# grammar positions the discovery code does not walk, with the reason they are outside what the property quantifies over
ALLOW_UNWALKED = {
    ("from_expression", "ml_table_expression"): "ML.PREDICT(MODEL m, (SELECT ...)) is a BigQuery-ML table function that the ANSI grammar inherits; the property quantifies over "
                                                 "tables, derived tables, joins, CTEs and set operations, not over table functions (rule R01.2 lists function-call FROM items as unsupported)",
}


def norm_path(P: tuple, rec: dict) -> tuple:
    """A recursive crawl from P0 for type T reaches T at any depth below P0: the path P0/../T/rest names nodes the code reaches as P0/T/rest."""
    changed = True
    while changed:
        changed = False
        for P0, Ts in rec.items():
            n0 = len(P0)
            if P[:n0] != P0:
                continue
            for T in Ts:
                tail = P[n0 + 1:]
                if T in tail:
                    idx = n0 + 1 + tail.index(T)
                    P = P0 + P[idx:]
                    changed = True
                    break
            if changed:
                break
    return P


def rules(ctx: Ctx) -> None:
    prog = ctx.prog
    vocab = vocabulary()
    g = grammar("ansi")
    ctx.extra["grammar"] = {"vocabulary_types": len(vocab), "ansi_segment_types": len(g.types()), "dialects_installed": len(installed_dialects())}
    BE = prog.try_cls("extractors.base.BaseExtractor")
    if BE is None:
        raise AnalysisError("BaseExtractor not found")
    extractors = prog.direct_subclasses(BE)
    ctx.floor("direct subclasses of BaseExtractor (the dispatch registry)", len(extractors), 5)

    # ---- R01.1 ----------------------------------------------------------------------------
    lists: dict[str, list[str]] = {}
    for e in extractors:
        v = None
        for k in prog.mro(e):
            if "SUPPORTED_STMT_TYPES" in k.consts:
                v = prog.try_fold(k.consts["SUPPORTED_STMT_TYPES"], k.mod, None, k)
                break
        if not isinstance(v, (list, tuple)):
            raise AnalysisError(f"{e.name}.SUPPORTED_STMT_TYPES does not fold to a list of strings")
        lists[e.name] = list(v)
    owner_of: dict[str, str] = {}
    for name, ts in lists.items():
        for t in ts:
            ctx.ob("R01.1", f"type-in-grammar:{t}", t in vocab, prog.cls(name).loc(), f"{name} claims statement type {t!r}: some installed dialect grammar must define it", trivial=True)
            if t in owner_of and owner_of[t] != name:
                ctx.ob("R01.1", f"disjoint:{t}", False, prog.cls(name).loc(),
                       f"statement type {t!r} is claimed by both {owner_of[t]} and {name}: the answer depends on __subclasses__() (import) order")
            owner_of.setdefault(t, name)
    ctx.ob("R01.1", "extractor-type-lists-pairwise-disjoint", True, BE.loc(), f"{sum(len(v) for v in lists.values())} statement types over {len(lists)} extractors", trivial=True)
    for t in sorted(REQUIRED_KINDS):
        ctx.ob("R01.1", f"kind-has-extractor:{t}", t in owner_of, BE.loc(), f"data-moving statement kind {t!r} must be dispatched to an extractor")
    for t in sorted(NO_DATA_KINDS):
        own = owner_of.get(t)
        ok = False
        why = "no extractor"
        if own is not None:
            ex = prog.find_method(prog.cls(own), "extract")
            effects = [k for k in prog.walk_fn(ex) if isinstance(k, ast.Call) and isinstance(k.func, ast.Attribute) and k.func.attr in HOLDER_EFFECTS]
            calls_out = [k for k in prog.walk_fn(ex) if isinstance(k, ast.Call) and any(isinstance(c, Fn) and c.name not in ("__init__",) for c in prog.resolve_call(k, ex))]
            ok = not effects and not calls_out
            why = f"{own}.extract performs {u(effects[0])[:40] if effects else u(calls_out[0])[:40] if calls_out else ''}"
            ctx.touched(ex)
        ctx.ob("R01.1", f"no-data-kind-has-empty-effect:{t}", ok, BE.loc(), f"{t!r} moves no data: its extractor must return a fresh holder with an empty effect summary" + ("" if ok else f" ({why})"))
    # dispatch by membership of the parsed statement type
    ce = BE.methods.get("can_extract")
    ok_ce = False
    if ce is not None:
        rets = [n for n in prog.walk_fn(ce) if isinstance(n, ast.Return) and n.value is not None]
        ok_ce = len(rets) == 1 and isinstance(rets[0].value, ast.Compare) and isinstance(rets[0].value.ops[0], ast.In) and u(rets[0].value.comparators[0]).endswith("SUPPORTED_STMT_TYPES") and u(rets[0].value.left) == ce.params()[1]
        overridden = [k.name for k in prog.subclasses(BE) if "can_extract" in k.methods]
        ok_ce = ok_ce and not overridden
    ctx.ob("R01.1", "dispatch-by-type-membership", ok_ce, ce.loc() if ce else BE.loc(), "can_extract is `statement_type in SUPPORTED_STMT_TYPES`, not overridden")
    an = prog.fn("SqlFluffLineageAnalyzer.analyze")
    ctx.touched(an)
    disp = [n for n in prog.walk_fn(an) if isinstance(n, ast.Call) and isinstance(n.func, ast.Attribute) and n.func.attr == "can_extract"]
    ok_d = len(disp) == 1 and u(disp[0].args[0]).endswith(".type") and any("__subclasses__" in u(k) for k in prog.walk_fn(an) if isinstance(k, ast.Call))
    ctx.ob("R01.1", "dispatch-over-registry-on-statement-type", ok_d, an.loc(), "analyze() asks every registered extractor with the parsed statement's own type")

    # ---- R01.2 ----------------------------------------------------------------------------
    lits = type_literals(prog)
    ctx.floor("distinct segment-type literals", len(lits), 34)
    for lit, sites in sorted(lits.items()):
        f, n = sites[0]
        ctx.ob("R01.2", f"literal-in-vocabulary:{lit}", lit in vocab, loc(f.mod, n),
               f"segment type literal {lit!r} ({len(sites)} site(s)) must be a type some installed sqlfluff grammar produces (otherwise the branch is dead)", trivial=True)

    # ---- R01.3 caller / callee type-guard agreement ------------------------------------------
    helpers: dict[str, set[str]] = {}
    for f in prog.funcs.values():
        if not f.mod.name.startswith("sqllineage.core.parser.sqlfluff"):
            continue
        body = [s for s in f.node.body if not (isinstance(s, ast.Expr) and isinstance(s.value, ast.Constant))]
        ps = [p for p in f.params() if p not in ("self", "cls")]
        if not ps or not body:
            continue
        # shape: (assignments)* if <p>.type in [...]: ... ; return <empty>
        ifs = [s for s in body if isinstance(s, ast.If)]
        if len(ifs) == 1 and not ifs[0].orelse and isinstance(ifs[0].test, ast.Compare) and u(ifs[0].test.left) == f"{ps[0]}.type":
            others = [s for s in body if s is not ifs[0]]
            if all(isinstance(s, (ast.Assign, ast.AnnAssign, ast.Return)) for s in others):
                v = prog.try_fold(ifs[0].test.comparators[0], f.mod, f)
                acc = {v} if isinstance(v, str) else set(v) if isinstance(v, (list, tuple, set)) else None
                if acc:
                    helpers[f.qual] = acc
    ctx.floor("traversal helpers with a leading segment-type guard", len(helpers), 2)
    from ..segnav import types_from_facts
    n_calls = 0
    for f in prog.funcs.values():
        for n in prog.walk_fn(f):
            if not isinstance(n, ast.Call) or not n.args:
                continue
            for cal in prog.resolve_call(n, f):
                if isinstance(cal, Fn) and cal.qual in helpers:
                    a0 = n.args[0]
                    if not isinstance(a0, ast.Name):
                        continue
                    bound = types_from_facts(flow(prog, f).facts_for(n), a0.id)
                    if bound is None:
                        nav = Nav(prog)
                        vp = nav.var_paths(f, a0.id, n, {})
                        bound = {p[-1] for p in vp} or None
                    if bound is None:
                        continue
                    n_calls += 1
                    ok = bool(bound & helpers[cal.qual])
                    owner = f"{f.cls.name}.{f.name}" if f.cls else f.name
                    ctx.ob("R01.3", f"guard-agreement:{owner}->{cal.name}", ok, loc(f.mod, n),
                           f"`{u(n)[:50]}` passes a segment of type {sorted(bound)} but {cal.name} only accepts {sorted(helpers[cal.qual])}: the call is silently blind")
    ctx.extra["guarded_helper_calls_with_known_argument_type"] = n_calls

    # ---- R01.4 FROM traversal -----------------------------------------------------------------
    def picks_from_item(k: ast.AST) -> bool:
        return isinstance(k, ast.Call) and isinstance(k.func, ast.Name) and k.func.id == "find_from_expression_element"

    ft = next((m for m in BE.methods.values() if any(picks_from_item(k) for k in prog.walk_fn(m))), None)
    if ft is None:
        raise AnalysisError("FROM traversal method (the one that picks the from_expression_element of a FROM item) not found on BaseExtractor")
    ctx.touched(ft)
    cfg = flow(prog, ft).cfg

    def is_join_traversal(c) -> bool:
        root = c.ast.iter if c.kind == "for" else c.ast
        for k in ast.walk(root):
            if isinstance(k, ast.Call):
                if isinstance(k.func, ast.Name) and k.func.id == "list_join_clause":
                    return True
                if isinstance(k.func, ast.Attribute) and k.func.attr in ("get_children", "recursive_crawl") and any(prog.try_fold(a, ft.mod, ft) == "join_clause" for a in k.args):
                    return True
        return False

    J = [c.id for c in cfg.nodes.values() if c.ast is not None and c.kind in ("for", "stmt", "cond") and is_join_traversal(c)]
    A = [c for c in cfg.nodes.values() if c.ast is not None and c.kind in ("stmt", "cond") and any(picks_from_item(k) for k in ast.walk(c.ast))]
    ctx.floor("sites turning a FROM item into a dataset", len(A), 1)
    for a in A:
        # the innermost loop (other than a join traversal) that syntactically encloses the site: one iteration handles one FROM item
        encl = [anc for anc in prog.ancestors(a.ast) if isinstance(anc, ast.For)]
        loops = [cid for cid in (cfg.node_for(anc) for anc in encl) if cid is not None and cid not in J]
        end = loops[0] if loops else cfg.exit
        ok = any(cfg.dominates(j, a.id) for j in J) or not cfg.reach(a.id, end, avoid=J)
        branch = "sql89" if loops else "single"
        ctx.ob("R01.4", f"from-item-and-its-joins-consumed-together:{branch}", ok, f"{ft.mod.path}:{a.lineno}",
               "on every path that turns a FROM item into a dataset, the JOIN clauses of that item are traversed too (the grammar puts join_clause next to from_expression_element)")
    # join traversal must be recursive: the grammar allows join_clause inside a bracketed from_expression_element
    needs_recursive = "join_clause" in g.bracket_children("from_expression_element") or g.can_reach("from_expression_element", "join_clause")
    ctx.extra["grammar_allows_bracketed_join"] = needs_recursive
    ljc = prog.try_fn("sqlfluff.utils.list_join_clause")
    if ljc is None:
        raise AnalysisError("list_join_clause not found")
    ctx.touched(ljc)
    for r in [n for n in prog.walk_fn(ljc) if isinstance(n, ast.Return) and n.value is not None]:
        if isinstance(r.value, ast.List) and not r.value.elts:
            facts = flow(prog, ljc).facts_for(r)
            accepted = any(p and ".type in" in t or p and ".type ==" in t for t, p in facts)
            if accepted:
                ctx.ob("R01.4", "join-traversal:no-empty-answer-for-an-accepted-segment", False, loc(ljc.mod, r),
                       "list_join_clause answers `[]` for a segment type it accepts, on a heuristic (no top-level join and a SELECT somewhere inside): joins that exist below are dropped")
            continue
        rec = any(isinstance(k, ast.Call) and isinstance(k.func, ast.Attribute) and k.func.attr == "recursive_crawl" and any(prog.try_fold(a, ljc.mod, ljc) == "join_clause" for a in k.args) for k in ast.walk(r.value))
        ctx.ob("R01.4", "join-traversal-is-recursive:list_join_clause", rec or not needs_recursive, loc(ljc.mod, r),
               f"`{u(r)[:70]}`: joins can sit inside brackets (from_expression_element > bracketed > join_clause), so the join list must come from a recursive crawl")
    for j in J:
        c = cfg.nodes[j]
        root = c.ast.iter if c.kind == "for" else c.ast
        direct = [k for k in ast.walk(root) if isinstance(k, ast.Call) and isinstance(k.func, ast.Attribute) and k.func.attr == "get_children" and any(prog.try_fold(a, ft.mod, ft) == "join_clause" for a in k.args)]
        ctx.ob("R01.4", "join-traversal-is-recursive:from-traversal", not direct or not needs_recursive, f"{ft.mod.path}:{c.lineno}",
               f"`{c.text()[:70]}`: direct children only - a parenthesised join inside the item is missed")

    # ---- R01.5 sub-query discovery vs grammar ----------------------------------------------------
    ls = BE.methods.get("list_subquery")
    lsq = prog.try_fn("sqlfluff.utils.list_subqueries")
    if ls is None or lsq is None:
        raise AnalysisError("sub-query discovery functions not found")
    ctx.touched(ls, lsq)
    handled_clauses: set[str] = set()
    for n in prog.walk_fn(ls):
        if isinstance(n, ast.Compare) and u(n.left).endswith(".type") and isinstance(n.ops[0], (ast.In, ast.Eq)):
            v = prog.try_fold(n.comparators[0], ls.mod, ls)
            handled_clauses |= {v} if isinstance(v, str) else set(v or [])
    ctx.floor("clause types with sub-query discovery", len(handled_clauses), 3)
    demanded_clauses = {c for c in g.children("select_statement") if g.can_hold_subquery(c)}
    ctx.extra["select_statement_clauses_that_can_hold_a_subquery"] = sorted(demanded_clauses)
    for c in sorted(demanded_clauses):
        ctx.ob("R01.5", f"clause:{c}", c in handled_clauses, ls.loc(),
               f"the grammar lets a {c} hold a sub-query: list_subquery must discover sub-queries there (handled clauses: {sorted(handled_clauses)})")
    # child level, per context clause the code handles
    contexts = sorted(c for c in handled_clauses if c in g.types())
    STOP = {"from_expression_element"}
    for c in contexts:
        nav = Nav(prog)
        nav.analyse(lsq, {lsq.params()[0]: frozenset({(c,)})})
        handled = nav.handled_prefixes()
        rec = nav.recursive_roots()
        ctx.ob("R01.5", f"context:{c}:walked", any(len(p) > 1 for p in handled), lsq.loc(), f"list_subqueries walks {len(handled)} type path(s) below {c}", trivial=True)
        demanded_here: set[tuple[str, str]] = set()
        for P in sorted(handled):
            if len(P) > 1 and (P[-1] in STOP or (P[-1] == "select_clause")):
                continue
            if any(P[:i] in rec and ("bracketed" in rec[P[:i]]) for i in range(1, len(P) + 1)):
                continue  # everything below is reached by a recursive crawl for brackets
            T = P[-1]
            for U in sorted(g.children(T)):
                if U == "bracketed":
                    holds = any(x == "select_statement" or g.can_hold_subquery(x) for x in g.bracket_children(T))
                else:
                    holds = g.can_hold_subquery(U) or U == "select_statement"
                if not holds or U in ("keyword",):
                    continue
                covered = P + (U,) in handled or norm_path(P, rec) + (U,) in handled or any(P[:i] in rec and U in rec[P[:i]] for i in range(1, len(P) + 1))
                if not covered:
                    # recursive crawls from a prefix of P pick up their target types at any depth: U is covered when every way from U down
                    # to a SELECT passes one of those types (they form a cut)
                    crawled = frozenset(t for i in range(1, len(P) + 1) for t in rec.get(P[:i], ())) | frozenset(u_ for _, u_ in ALLOW_UNWALKED)
                    if crawled and U != "bracketed" and not g.can_hold_subquery(U, avoid=crawled):
                        covered = True
                if not covered and (T, U) in ALLOW_UNWALKED:
                    ctx.allow("R01.5", f"path:{c}:{T}>{U}", lsq.loc(), f"{T} > {U} is not walked", ALLOW_UNWALKED[(T, U)])
                    continue
                if (T, U) in demanded_here and covered:
                    continue
                demanded_here.add((T, U))
                ctx.ob("R01.5", f"path:{c}:{T}>{U}", covered, lsq.loc(),
                       f"below {c} the discovery code reaches a {T} (path {'/'.join(P)}); the grammar lets its child {U} hold a sub-query, so that child must be walked too")

    # ---- R01.6 only datasets reach the public sets ---------------------------------------------
    from .c03 import _class_names
    SH = prog.cls("core.holders.StatementLineageHolder")
    H = prog.cls("core.holders.SQLLineageHolder")
    sites = [(SH, "read"), (SH, "write")] + [(H, m) for m in H.methods if "retrieve_tag_tables" in m] + [(H, "table_lineage_graph")]
    for k, mname in sites:
        m = k.methods.get(mname)
        if m is None:
            raise AnalysisError(f"{k.name}.{mname} not found")
        ctx.touched(m)
        flt = None
        for n in prog.walk_fn(m):
            if isinstance(n, ast.Call) and isinstance(n.func, ast.Name) and n.func.id == "isinstance" and len(n.args) == 2:
                par = prog.parent(n)
                in_filter = any(isinstance(a, ast.comprehension) for a in [par] + list(prog.ancestors(n))[:3])
                if in_filter:
                    flt = _class_names(prog, n.args[1], m)
        ctx.ob("R01.6", f"dataset-filter:{k.name}.{mname}", flt == {"Path", "Table"}, m.loc(),
               f"{k.name}.{mname} keeps only Table/Path objects (CTE names, sub-query and table aliases never become tables)" + (f"; filter is {sorted(flt) if flt else 'absent'}" if flt != {'Path', 'Table'} else ""))

    # ---- R01.7 sibling passes over set-operation branches ----------------------------------------
    SE = prog.cls("extractors.select.SelectExtractor")
    ex = SE.methods["extract"]
    ctx.touched(ex)
    passes = []
    for n in prog.walk_fn(ex):
        if isinstance(n, ast.Call) and isinstance(n.func, ast.Attribute) and n.func.attr == "get_children":
            facts = flow(prog, ex).facts_for(n)
            # a pass over the branches: get_children on the very segment that was tested to be a set expression
            if any(p and t == f"is_set_expression({u(n.func.value)})" for t, p in facts):
                passes.append((n, tuple(sorted(x for a in n.args for x in [prog.try_fold(a, ex.mod, ex)] if isinstance(x, str)))))
    ctx.floor("passes over set-operation branches in SelectExtractor.extract", len(passes), 1)
    kinds = {p[1] for p in passes}
    ctx.ob("R01.7", "set-branch-passes-agree", len(kinds) == 1, loc(ex.mod, passes[0][0]),
           f"the sub-query collection pass and the handling pass must visit the same branch types of a set expression; they use {sorted(kinds)}")
    branch_types = {c for c in g.children("set_expression") if c in ("select_statement", "bracketed", "values_clause") and (c != "values_clause")}
    for n, ts in passes:
        ctx.ob("R01.7", "set-branch-types-cover-grammar", set(ts) >= branch_types, loc(ex.mod, n),
               f"`{u(n)}`: a set expression's branches are {sorted(branch_types)} in the grammar")

    # ---- R01.8 CTE names registered before bodies are extracted -----------------------------------
    CE = prog.cls("extractors.cte.CteExtractor")
    cex = CE.methods["extract"]
    ctx.touched(cex)
    ccfg = flow(prog, cex).cfg
    def _registers(k: ast.AST) -> bool:
        """the call registers a CTE on the holder: `.add_cte(..)` itself, or a helper of the same class / module that is handed the holder and calls it"""
        if not isinstance(k, ast.Call):
            return False
        if isinstance(k.func, ast.Attribute) and k.func.attr == "add_cte":
            return True
        for cal in prog.resolve_call(k, cex):
            if isinstance(cal, Fn) and cal is not cex and (cal.cls is CE or (cal.cls is None and cal.mod is cex.mod)) and cal.name != "extract_subquery":
                if any(isinstance(x, ast.Call) and isinstance(x.func, ast.Attribute) and x.func.attr == "add_cte" for x in prog.walk_fn(cal)):
                    ctx.touched(cal)
                    return True
        return False

    adds = [c.id for c in ccfg.nodes.values() if c.ast is not None and c.kind in ("stmt", "cond") and any(_registers(k) for k in ast.walk(c.ast))]
    exts = [c.id for c in ccfg.nodes.values() if c.ast is not None and c.kind in ("stmt", "cond") and any(isinstance(k, ast.Call) and isinstance(k.func, ast.Attribute) and k.func.attr == "extract_subquery" for k in ast.walk(c.ast))]
    ok = bool(adds) and bool(exts) and not any(ccfg.reach(e, a) for e in exts for a in adds)
    ctx.ob("R01.8", "cte-names-registered-before-bodies-extracted", ok, cex.loc(),
           "no CTE body is extracted while a CTE of the same WITH is still unregistered (a recursive or forward reference would be reported as a table)")
    # ---- R01.9 node attributes are set for named nodes only --------------------------------------------------------------------
    # nx.set_node_attributes(G, <scalar>, name) sets the attribute on *every* node of G: clearing the WRITE tag "of the sub-query" that way also
    # clears it on the statement's real target when the sub-query reads that table
    n_sna = 0
    for f in prog.funcs.values():
        for k in prog.walk_fn(f):
            if isinstance(k, ast.Call) and isinstance(k.func, ast.Attribute) and k.func.attr == "set_node_attributes" and len(k.args) >= 2:
                n_sna += 1
                vals = prog.value_sources(f, k.args[1])
                named = all(isinstance(v, (ast.Dict, ast.DictComp)) or (isinstance(v, ast.Call) and isinstance(v.func, ast.Name) and v.func.id == "dict") for v in vals) and bool(vals)
                ctx.ob("R01.9", f"node-attributes-set-for-named-nodes:{f.owner}", named, loc(f.mod, k),
                       f"`{u(k)[:70]}`: the values must be a mapping node -> value; a scalar is applied to every node of the graph")
    ctx.floor("set_node_attributes call sites", n_sna, 3)

    # ---- R01.10 / R01.11 shared clauses: each part of a dotted name is normalised on its own (= R07.3: a name mangled by joining raw parts is a
    # table the statement does not read); whether an undotted name may denote a CTE is decided on the text (= R08.3: decided on the schema
    # object instead, a configured default schema turns every CTE name into a reported table)
    from .common import import_rules as _imp01

    _imp01(ctx, "C07", {"R07.3": "R01.10"})
    _imp01(ctx, "C08", {"R08.3": "R01.11"})

    # ---- R01.12 (= R12.2, shared caches): what is reported for a statement is a function of the statement, the dialect and the configuration -
    # a parse cache or memo shared by all analyzers and keyed by the text alone answers with another dialect's tree
    _imp01(ctx, "C12", {"R12.2": "R01.12"}, key_filter=lambda o: o.key.startswith(("class-level-mutable", "analyzer-class-state", "memoised", "default-arg-mutable", "module-state")))
    # (= R05.3) nothing written while one statement (or one query of it) is analysed is carried into the next: extractors kept across statements
    # report the tables of an earlier SELECT for a later one
    _imp01(ctx, "C05", {"R05.3": "R01.12"}, key_filter=lambda o: o.key.startswith(("analyzer-state", "per-query-object")))

    # ---- R01.14 nothing that was discovered is dropped because it shares a label with something else: iterating the `.values()` of a dictionary keyed
    # by a PART of its values (`{sq.alias: sq for sq in subqueries}.values()`) keeps one element per key - derived tables with the same alias in
    # different UNION branches are then one sub-query and the tables of the others are lost.  (A dictionary used for look-up by name is fine.)
    n_proj = 0
    for f in prog.funcs.values():
        if not f.mod.name.startswith("sqllineage.core"):
            continue
        for k in prog.walk_fn(f):
            if not (isinstance(k, ast.Call) and isinstance(k.func, ast.Attribute) and k.func.attr == "values" and not k.args):
                continue
            for v in [k.func.value] + list(prog.value_sources(f, k.func.value)):
                if isinstance(v, ast.DictComp) and len(v.generators) == 1 and isinstance(v.generators[0].target, ast.Name) and isinstance(v.value, ast.Name) and v.value.id == v.generators[0].target.id \
                        and any(isinstance(x, ast.Attribute) and isinstance(x.value, ast.Name) and x.value.id == v.value.id for x in ast.walk(v.key)) and not (isinstance(v.key, ast.Name)):
                    n_proj += 1
                    ctx.ob("R01.14", f"no-dedupe-by-a-part-of-the-element:{f.owner}:{u(v.key)[:30]}", False, loc(f.mod, v),
                           f"`{u(v)[:70]}`.values(): elements that agree on `{u(v.key)}` collapse into the last one")
    ctx.ob("R01.14", "no-dedupe-by-a-part-of-the-element:scanned", True, "sqllineage/core", f"{n_proj} projection-keyed dictionaries iterated by value", trivial=True)

    # ---- R01.13 what the discovery routines find is registered as found: a loop over the tables of a FROM / JOIN clause calls add_read on every
    # path through its body (a filter between discovery and registration - "the target listed again is not a source" - loses a table the
    # statement reads)
    n_reg = 0
    for f in prog.funcs.values():
        if not f.mod.name.startswith("sqllineage.core.parser"):
            continue
        for L_ in [n for n in prog.walk_fn(f) if isinstance(n, ast.For) and isinstance(n.target, ast.Name)]:
            srcs_ = prog.value_sources(f, L_.iter)
            basis = [v.value if isinstance(v, ast.Subscript) else v for v in ([L_.iter] + list(srcs_))]
            if not any(isinstance(v, ast.Call) and isinstance(v.func, ast.Attribute) and v.func.attr == "_list_table_from_from_clause_or_join_clause" for b_ in basis for v in ast.walk(b_) if isinstance(b_, ast.AST)):
                continue
            regs = [k for k in ast.walk(L_) if isinstance(k, ast.Call) and isinstance(k.func, ast.Attribute) and k.func.attr == "add_read" and k.args and u(k.args[0]) == L_.target.id]
            if not regs:
                continue
            n_reg += 1
            fcfg = flow(prog, f).cfg
            hdr = fcfg.node_for(L_)
            rnodes = {fcfg.node_for(k) for k in regs}
            starts = [b_ for b_ in fcfg.g.successors(hdr) if fcfg.g[hdr][b_].get("label") and fcfg.g[hdr][b_]["label"][1] is True] if hdr is not None else []
            every = hdr is not None and None not in rnodes and bool(starts) and not any(b_ not in rnodes and fcfg.reach(b_, hdr, avoid=rnodes) for b_ in starts)
            ctx.touched(f)
            ctx.ob("R01.13", f"discovered-tables-registered-unconditionally:{f.owner}", every, loc(f.mod, L_),
                   f"`for {L_.target.id} in {u(L_.iter)[:50]}`: " + ("every table found is add_read" if every else "some path through the loop body skips add_read for a table that was found in the clause"))
    ctx.floor("loops that register the tables of a FROM / JOIN clause", n_reg, 1)
