"""C02 - single-statement column lineage is exact (DESIGN.md C02, rules R02.1-R02.5)."""

from __future__ import annotations

import ast
from dataclasses import replace

from ..astutil import is_self_attr, u
from ..cfg import MUTATORS, flow
from ..grammar import grammar, vocabulary
from ..model import AnalysisError, Fn, Prog, loc
from ..report import Ctx
from . import scope

EXPLANATION = (
    "Static analysis of the column-level machinery. Decides: R02.1 precedence of target-column names: an explicit column list wins over "
    "metadata (write-column registration replaces earlier, still unwired columns - shared with C13), write columns name the positions only "
    "when their number matches the select list, an alias wins over the column's own name; R02.2 the qualifier scope map offers alias, bare "
    "and qualified keys in FROM order, is a pure function of the table group (no memo), and an alias must shadow a bare table name (merge "
    "priority and implicit-alias obligations: known findings); R02.3 the expression forms the property names (functions, CASE, CAST, "
    "arithmetic, window specifications) are descended into: every segment type on a grammar chain between a select item and a column "
    "reference is in the type table the source-column extractor tests membership against, or is reached by one of its crawl idioms; "
    "R02.4 the branches of a set operation are wired independently: no container that is filled while wiring one branch is shared with the "
    "next branch; sub-queries' source columns are attributed within the branch's own table group; R02.5 the late resolution of an unqualified column over several relations keeps every "
    "candidate that defines it (no first-match selection; = R13.4); R02.7 positions: the write-column list is ordered by the recorded position alone, and a list read by position inside one iteration of a loop is rebuilt in that iteration; R02.6 qualifier and column of a reference are read from the parse tree, not by splitting its text at '.' (= R16.5). Does not decide: positional wiring across "
    "set-operation branches as values, qualifier resolution beyond precedence, naming of un-aliased expressions."
    ' R02.8 (= R06.4) column identity compares the owner object. The scope-map clauses also require every qualifier resolution (to_source_columns) to use the map of the one builder.'
    ' R02.13 (= R05.3) per-query collections of an extractor are not carried to the next statement; R02.14 (= R16.2) an alias is normalised once; R02.15 (= R12.1) session entries of a failed run are removed on every exit.'
)
RULE_TEXT = "one obligation per type-table member demanded by the grammar, per scope-map operand, per container used in the per-branch loop, per precedence site"

REQUIRED_FORMS = {
    "expression": "arithmetic / comparison expressions",
    "function": "function calls",
    "case_expression": "CASE",
    "when_clause": "CASE WHEN ... THEN",
    "else_clause": "CASE ... ELSE",
    "cast_expression": "CAST / ::",
    "select_clause_element": "the select item itself",
    "partitionby_clause": "window PARTITION BY",
    "orderby_clause": "window ORDER BY",
    "column_reference": "column references",
    "identifier": "bare identifiers",
}


def canon_name(prog: Prog, f: Fn, name: str) -> str:
    from ..canon import origin

    return origin(prog, f, name)


def rules(ctx: Ctx) -> None:
    prog = ctx.prog
    g = grammar("ansi")
    vocab = vocabulary()

    # ---- R02.3 -----------------------------------------------------------------------------
    esc = prog.try_fn("SqlFluffColumn._extract_source_columns")
    if esc is None:
        raise AnalysisError("source-column extractor not found")
    ctx.touched(esc)
    table: set[str] = set()
    for n in prog.walk_fn(esc):
        if isinstance(n, ast.Compare) and len(n.ops) == 1 and isinstance(n.ops[0], ast.In) and u(n.left).endswith(".type"):
            v = prog.try_fold(n.comparators[0], esc.mod, esc)
            if isinstance(v, (list, tuple, set)):
                table |= {x for x in v if isinstance(x, str)}
    ctx.floor("members of the source-column segment type table", len(table), 6)
    ctx.extra["source_column_type_table"] = sorted(table)
    for t, what in sorted(REQUIRED_FORMS.items()):
        in_grammar = t in vocab
        reaches = t in ("column_reference", "identifier") or g.can_reach(t, "column_reference") or t not in g.types()
        ctx.ob("R02.3", f"form-descended:{t}", t in table, esc.loc(),
               f"{what}: segment type {t!r} lies between a select item and a column reference in the grammar (in vocabulary: {in_grammar}, reaches column_reference: {reaches}); "
               f"it must be in the type table, otherwise every column under that construct is silently dropped")
    crawls = {(k.func.attr, tuple(x for a in k.args for x in [prog.try_fold(a, esc.mod, esc)] if isinstance(x, str))) for f in [esc, prog.try_fn("SqlFluffColumn._get_column_from_parenthesis")] if f is not None
              for k in prog.walk_fn(f) if isinstance(k, ast.Call) and isinstance(k.func, ast.Attribute) and k.func.attr in ("recursive_crawl", "get_child")}
    from ..segnav import crawl_is_exhaustive

    shallow = [k for k in prog.walk_fn(esc) if isinstance(k, ast.Call) and isinstance(k.func, ast.Attribute) and k.func.attr == "recursive_crawl"
               and any(prog.try_fold(a, esc.mod, esc) == "bracketed" for a in k.args) and not crawl_is_exhaustive(prog, k, esc)]
    ctx.ob("R02.3", "crawl:function-brackets", ("recursive_crawl", ("bracketed",)) in crawls and not shallow, loc(esc.mod, shallow[0]) if shallow else esc.loc(),
           "function arguments and OVER(...) are reached by crawling all of the function's brackets (brackets nest: a crawl that does not recurse into its matches skips "
           "the parentheses inside ORDER BY / INTERVAL / subscript arguments)")
    ctx.ob("R02.3", "crawl:window-specification", ("get_child", ("window_specification",)) in crawls, esc.loc(), "the window specification inside OVER(...) is unwrapped")
    for t in sorted(table):
        ctx.ob("R02.3", f"type-in-vocabulary:{t}", t in vocab, esc.loc(), f"type table member {t!r} exists in the grammar", trivial=True)
    # recursion: the extractor descends into sub-segments of the table types
    rec = any(isinstance(k, ast.Call) and esc in prog.resolve_call(k, esc) for k in prog.walk_fn(esc))
    ctx.ob("R02.3", "extractor-recurses", rec, esc.loc(), "the extractor recurses into the children of composite expression segments")

    # ---- R02.2 -----------------------------------------------------------------------------
    scope.scope_map_rules(ctx, "R02.2")
    scope.alias_precedence_rules(ctx, "R02.2")
    b = scope.find_scope_map_builder(prog)
    stores = []
    for n in prog.walk_fn(b):
        if isinstance(n, (ast.Attribute, ast.Subscript)) and isinstance(n.ctx, (ast.Store, ast.Del)):
            root = n
            while isinstance(root, (ast.Attribute, ast.Subscript)):
                root = root.value
            if isinstance(root, ast.Name) and root.id == "self":
                stores.append(n)
        if isinstance(n, ast.Call) and isinstance(n.func, ast.Attribute) and n.func.attr in MUTATORS and is_self_attr(n.func.value):
            stores.append(n)
    reads_memo = [n for n in prog.walk_fn(b) if isinstance(n, ast.Attribute) and isinstance(n.value, ast.Name) and n.value.id == "self" and n.attr not in ("graph",) and isinstance(n.ctx, ast.Load) and "cache" in n.attr.lower()]
    ctx.ob("R02.2", "scope-map:pure-function-of-the-table-group", not stores and not reads_memo and not any("cache" in d for d in b.decorators), b.loc(),
           "the scope map is recomputed from the table group and the graph on every call (a memo keyed by printed names confuses distinct sub-queries sharing an alias)"
           + (f"; `{u(prog.enclosing_stmt(stores[0]))[:60]}` keeps state" if stores else ""))

    # ---- R02.4 per-branch independence -------------------------------------------------------
    eoq = prog.try_fn("SourceHandlerMixin.end_of_query_cleanup")
    if eoq is None:
        raise AnalysisError("end_of_query_cleanup not found")
    ctx.touched(eoq)
    bl = [n for n in prog.walk_fn(eoq) if isinstance(n, ast.For) and "union_barriers" in u(n.iter)]
    if len(bl) != 1:
        raise AnalysisError("per-branch loop over union barriers not found")
    BL = bl[0]
    mutated: dict[str, ast.AST] = {}
    for st in BL.body:
        for n in ast.walk(st):
            if isinstance(n, ast.Subscript) and isinstance(n.ctx, ast.Store) and isinstance(n.value, ast.Name):
                mutated.setdefault(n.value.id, n)
            if isinstance(n, ast.Call) and isinstance(n.func, ast.Attribute) and n.func.attr in MUTATORS and isinstance(n.func.value, ast.Name):
                mutated.setdefault(n.func.value.id, n)
    ctx.floor("containers filled while wiring a branch", len(mutated), 1)
    for name, site in sorted(mutated.items()):
        defs = [node for kind, node in prog.local_defs(eoq, name) if kind in ("assign", "annassign")]
        if not defs:
            continue  # parameter / attribute (holder): not a local container
        inside = [d for d in defs if any(a is BL for a in prog.ancestors(d))]
        outside = [d for d in defs if d not in inside]
        ctx.ob("R02.4", f"branch-local-container:{name}", bool(inside) and not outside, loc(eoq.mod, site),
               f"`{name}` is filled while one set-operation branch is wired: it must be created inside the per-branch loop, so that nothing collected in one branch is visible in the next"
               + (f" (created at line {outside[0].lineno}, outside the loop)" if outside else ""))
    # the table group and column group of a branch are slices between consecutive barriers
    def _is_list_of(e: ast.AST, attr: str) -> bool:
        """the value is the handler's own `columns` / `tables` list (directly or through a local)"""
        return any(isinstance(v, ast.Attribute) and v.attr == attr and u(v.value) == "self" for v in prog.value_sources(eoq, e))

    tnames = {x.id for x in ast.walk(BL.target) if isinstance(x, ast.Name)}
    slices = [n for n in ast.walk(BL) if isinstance(n, ast.Subscript) and isinstance(n.slice, ast.Slice) and (_is_list_of(n.value, "columns") or _is_list_of(n.value, "tables"))]
    ok_slices = len(slices) == 2 and all(n.slice.lower is not None and n.slice.upper is not None and n.slice.step is None
                                         and any(isinstance(x, ast.Name) and x.id in tnames for x in prog.influences(eoq, n.slice.upper)) for n in slices) \
        and sorted(("columns" if _is_list_of(n.value, "columns") else "tables") for n in slices) == ["columns", "tables"]
    ctx.ob("R02.4", "branch-groups-are-barrier-slices", ok_slices, loc(eoq.mod, BL), "each branch wires columns[prev:cur] against tables[prev:cur] of the same barrier pair")
    # source columns resolved against this branch's table group
    tsc = [n for n in ast.walk(BL) if isinstance(n, ast.Call) and isinstance(n.func, ast.Attribute) and n.func.attr == "to_source_columns"]
    ok_grp = bool(tsc) and all(isinstance(c.args[0], ast.Call) and c.args[0].args and any(
        isinstance(v, ast.Subscript) and isinstance(v.slice, ast.Slice) and _is_list_of(v.value, "tables") for v in prog.value_sources(eoq, c.args[0].args[0])) for c in tsc)
    ctx.ob("R02.4", "sources-resolved-in-the-branch-scope", ok_grp, loc(eoq.mod, BL), "source columns of a branch are resolved against that branch's own table group")

    # ---- R02.1 precedence ------------------------------------------------------------------------
    from .common import import_rules

    # R13.4: an unqualified reference over several relations is attributed to every candidate that defines it, never to a guessed first one
    import_rules(ctx, "C13", {"R13.3": "R02.1", "R13.4": "R02.5"})
    fl = flow(prog, eoq)
    # positional use of the write-column list: a subscript on a local bound from `<holder>.write_columns`
    def _from_write_columns(name: str) -> bool:
        return any(kind in ("assign", "walrus") and isinstance(getattr(node, "value", None), ast.Attribute) and node.value.attr == "write_columns" for kind, node in prog.local_defs(eoq, name))

    pos = [n for n in prog.walk_fn(eoq) if isinstance(n, ast.Subscript) and isinstance(n.ctx, ast.Load) and isinstance(n.value, ast.Name) and _from_write_columns(n.value.id) and not isinstance(n.slice, ast.Slice)]

    def _len_eq_enumerated(n: ast.Subscript) -> bool:
        base = n.value.id
        iv = n.slice.id if isinstance(n.slice, ast.Name) else None
        if iv is None:
            return False
        over = [u(node.iter.args[0]) for kind, node in prog.local_defs(eoq, iv) if hasattr(node, "iter") and isinstance(node.iter, ast.Call) and u(node.iter.func) == "enumerate" and node.iter.args]
        return any(p and t.replace(" ", "") == f"len({base})==len({o})" for t, p in fl.facts_for(n) for o in over)

    ok_pos = bool(pos) and all(_len_eq_enumerated(n) for n in pos)
    ctx.ob("R02.1", "write-columns-name-positions-only-when-counts-match", ok_pos, loc(eoq.mod, pos[0]) if pos else eoq.loc(),
           "the explicit / metadata column list names the select positions only when its length equals the number of select items")
    of = prog.try_fn("SqlFluffColumn.of")
    ctx.touched(of)
    alias_first = False
    # the alias is what extract_identifier() gives for the select item's alias_expression child; when present it names the column and the
    # column is marked from_alias, before the column's own name is considered
    oflow = flow(prog, of)

    def _is_alias_value(name: str) -> bool:
        for src in prog.value_sources(of, ast.Name(id=name, ctx=ast.Load())):
            if isinstance(src, ast.Call) and isinstance(src.func, ast.Name) and src.func.id == "extract_identifier":
                if any(p and "alias_expression" in t and ".type" in t for t, p in oflow.facts_for(src)):
                    return True
        return False

    for n in prog.walk_fn(of):
        if isinstance(n, ast.If) and isinstance(n.test, ast.Name) and _is_alias_value(n.test.id) and any(isinstance(k, ast.Return) and isinstance(k.value, ast.Call) and k.value.args and u(k.value.args[0]) == n.test.id for k in n.body):
            alias_first = True
    ctx.ob("R02.1", "alias-names-the-target-column", alias_first, of.loc(), "a select alias, when present, names the target column before the column's own name is considered")
    # explicit list site and metadata site both exist in the INSERT extractor
    ci = prog.try_fn("CreateInsertExtractor.extract")
    ctx.touched(ci)
    sites = [n for n in prog.walk_fn(ci) if isinstance(n, ast.Call) and isinstance(n.func, ast.Attribute) and n.func.attr == "add_write_column"]
    meta = [n for n in sites if "get_table_columns" in u(n)]
    expl = [n for n in sites if n not in meta]
    ctx.ob("R02.1", "explicit-and-metadata-column-sites", bool(meta) and bool(expl), ci.loc(), f"{len(expl)} explicit and {len(meta)} metadata write-column site(s) in the INSERT/CREATE extractor")
    # ---- R02.7 positions -----------------------------------------------------------------------------------------------------------
    # (a) the write-column list is ordered by the recorded position alone: columns without a position keep their insertion order (the order
    #     of the first branch's select items), so nothing else - a name, a hash - may take part in the sort key
    H2 = prog.cls("core.holders.SubQueryLineageHolder")
    wc = H2.methods.get("write_columns")
    if wc is None:
        raise AnalysisError("SubQueryLineageHolder.write_columns not found")
    ctx.touched(wc)
    sorts = [k for k in prog.walk_fn(wc) if isinstance(k, ast.Call) and (isinstance(k.func, ast.Name) and k.func.id == "sorted" or isinstance(k.func, ast.Attribute) and k.func.attr == "sort")]
    ctx.floor("orderings in write_columns", len(sorts), 1)
    for k in sorts:
        key = next((kw.value for kw in k.keywords if kw.arg == "key"), None)
        ok_key = False
        why = "no key"
        if isinstance(key, ast.Lambda) and len(key.args.args) == 1:
            pn = key.args.args[0].arg
            body = key.body
            # the sorted elements are tuples (column, position): the key is exactly the position component
            what = k.args[0] if k.args and isinstance(k.func, ast.Name) else k.func.value if isinstance(k.func, ast.Attribute) else None  # sorted(X, ..) / X.sort(..)
            elts = [v for v in prog.value_sources(wc, what)] if what is not None else []
            comp = next((v for v in elts if isinstance(v, (ast.ListComp, ast.GeneratorExp)) and isinstance(v.elt, ast.Tuple)), None)
            pos_idx = None
            if comp is not None:
                for i_, e_ in enumerate(comp.elt.elts):
                    if any(isinstance(x, ast.Attribute) and x.attr == "INDEX" for x in ast.walk(e_)):
                        pos_idx = i_
            ok_key = isinstance(body, ast.Subscript) and isinstance(body.value, ast.Name) and body.value.id == pn and pos_idx is not None and prog.try_fold(body.slice, wc.mod, wc) == pos_idx
            why = f"key is `{u(body)}`" + ("" if pos_idx is not None else "; the position component of the sorted tuples was not found")
        elif key is not None:
            why = f"key is `{u(key)}`"
        ctx.ob("R02.7", "write-columns-ordered-by-position-only", ok_key, loc(wc.mod, k),
               f"`{u(k)[:60]}`: the write columns are sorted by their recorded position and by nothing else ({why}); ties keep insertion order")
    # (b) a list that is read by position inside one iteration of a loop is (re)built inside that iteration: carried over from the previous
    #     iteration (clause, branch) the positions belong to the earlier clause
    n_pos = 0
    for f in prog.funcs.values():
        if not f.mod.name.startswith("sqllineage.core.parser.sqlfluff.extractors"):
            continue
        cfgf = None
        for sub_ in prog.walk_fn(f):
            if not (isinstance(sub_, ast.Subscript) and isinstance(sub_.ctx, ast.Load) and isinstance(sub_.value, ast.Name) and isinstance(sub_.slice, ast.Name)):
                continue
            C, j = sub_.value.id, sub_.slice.id
            # j counts positions of another sequence in an enclosing loop
            if not any(kind in ("unpack:0",) and isinstance(node, ast.For) and isinstance(node.iter, ast.Call) and u(node.iter.func) == "enumerate" for kind, node in prog.local_defs(f, j)):
                continue
            appends = [k for k in prog.walk_fn(f) if isinstance(k, ast.Call) and isinstance(k.func, ast.Attribute) and k.func.attr in ("append", "extend") and isinstance(k.func.value, ast.Name) and k.func.value.id == C]
            if not appends:
                continue
            loops_of = lambda node: [a for a in prog.ancestors(node) if isinstance(a, ast.For)]
            common_loops = [L for L in loops_of(sub_) if all(any(L is x for x in loops_of(a)) for a in appends)]
            if not common_loops:
                continue
            L1 = common_loops[-1]  # the outermost loop holding the read and every append
            n_pos += 1
            if cfgf is None:
                cfgf = flow(prog, f).cfg
            inits = [cfgf.node_for(node) for kind, node in prog.local_defs(f, C) if kind == "assign" and any(L1 is x for x in prog.ancestors(node))]
            inits = [i_ for i_ in inits if i_ is not None]
            hdr = cfgf.node_for(L1)
            fresh = bool(inits) and all(not cfgf.reach(hdr, cfgf.node_for(a), avoid=inits) for a in appends if cfgf.node_for(a) is not None)
            ctx.ob("R02.7", f"positional-list-rebuilt-per-iteration:{f.owner}:{canon_name(prog, f, C)}", fresh, loc(f.mod, sub_),
                   f"`{u(sub_)}` reads `{C}` by position inside `for {u(L1.target)} in {u(L1.iter)[:40]}`; `{C}` is filled inside that loop and must be re-created in each "
                   f"iteration before it is filled, otherwise the positions of an earlier {u(L1.target)} are used")
    ctx.extra["positional_reads_of_per_iteration_lists"] = n_pos

    # ---- R02.6 qualifier / column split of a reference follows the parse tree (= R16.5) -------------------------------------------
    from .c16 import reference_parts_rule

    reference_parts_rule(ctx, "R02.6")

    # ---- R02.8 (= R06.4): two columns are the same node only if their owners are the same object - compared by printed name alone, columns of two
    # derived tables that share an alias collapse and each target picks up the other scope's source
    from .common import import_rules as _imp02

    _imp02(ctx, "C06", {"R06.4": "R02.8"})
    # ---- R02.13 (= R05.3): the select items, tables and set-operation barriers an extractor collects belong to one query - an extractor kept across
    # statements pairs a later statement's targets with an earlier statement's items
    _imp02(ctx, "C05", {"R05.3": "R02.13"}, key_filter=lambda o: o.key.startswith(("analyzer-state", "per-query-object")))
    # ---- R02.15 (= R12.1): the columns a statement's target is given by name come from this run's statements and the provider's source - session entries
    # of a run that failed part-way are removed on every exit of the session, or the next run names an INSERT's targets after a stale table
    _imp02(ctx, "C12", {"R12.1": "R02.15"})
    # ---- R02.14 (= R16.2 at alias sites): an alias is normalised once - normalised twice, a quoted mixed-case CTE / derived-table name no longer matches
    # the qualifier of its columns and they are attributed to a made-up table
    _imp02(ctx, "C16", {"R16.2": "R02.14"}, key_filter=lambda o: o.key.startswith("SubQuery(alias)"))

    # ---- R02.9 select items are collected one for one: target columns are paired with them by position, so nothing may stand between the
    # select clause elements and the list they are collected in (an item without source columns still occupies its position)
    n_items = 0
    for f in prog.funcs.values():
        if not f.mod.name.startswith("sqllineage.core.parser.sqlfluff"):
            continue
        for n in prog.walk_fn(f):
            it = None
            if isinstance(n, (ast.ListComp, ast.GeneratorExp)) and len(n.generators) == 1:
                it, filt, where_ = n.generators[0].iter, list(n.generators[0].ifs), n
            elif isinstance(n, ast.For):
                it, filt, where_ = n.iter, None, n
            if it is None or not (isinstance(it, ast.Call) and isinstance(it.func, ast.Attribute) and it.func.attr == "get_children" and it.args and prog.try_fold(it.args[0], f.mod, f) == "select_clause_element"):
                continue
            # does the result go into the collected column list?
            if isinstance(n, ast.For):
                sinks = [k for k in ast.walk(n) if isinstance(k, ast.Call) and isinstance(k.func, ast.Attribute) and k.func.attr in ("append", "extend") and u(k.func.value).endswith(".columns")]
                if not sinks:
                    continue
                fcfg = flow(prog, f).cfg
                hdr = fcfg.node_for(n)
                snodes = {fcfg.node_for(k) for k in sinks}
                starts = [b_ for b_ in fcfg.g.successors(hdr) if fcfg.g[hdr][b_].get("label") and fcfg.g[hdr][b_]["label"][1] is True] if hdr is not None else []
                ok = hdr is not None and None not in snodes and bool(starts) and not any(b_ not in snodes and fcfg.reach(b_, hdr, avoid=snodes) for b_ in starts)
            else:
                par = prog.parent(n)
                if not (isinstance(par, ast.Call) and isinstance(par.func, ast.Attribute) and par.func.attr in ("extend",) and u(par.func.value).endswith(".columns")) and not (
                        isinstance(par, (ast.Assign, ast.AugAssign)) and any(u(t).endswith(".columns") for t in (par.targets if isinstance(par, ast.Assign) else [par.target]))):
                    continue
                ok = not filt
            n_items += 1
            ctx.touched(f)
            ctx.ob("R02.9", f"select-items-collected-one-for-one:{f.owner}", ok, loc(f.mod, where_),
                   "every select clause element contributes exactly one entry, in order" if ok else "a condition decides whether a select clause element is collected: the items after a skipped one are paired with the wrong target columns")
    ctx.floor("collections of select clause elements", n_items, 1)

    # ---- R02.10 a query handed to an extractor is handed over once: the crawl that finds the top-level query of a parenthesised DML source stops at
    # the first SELECT / set expression it meets (recurse_into=False) - nested SELECTs belong to the extractor it delegates to, and delegating
    # them as well wires their columns straight into the target
    n_deleg = 0
    for f in prog.funcs.values():
        if not f.mod.name.startswith("sqllineage.core.parser.sqlfluff.extractors"):
            continue
        for k in prog.walk_fn(f):
            if not (isinstance(k, ast.Call) and isinstance(k.func, ast.Attribute) and k.func.attr == "recursive_crawl"):
                continue
            types_ = {prog.try_fold(a, f.mod, f) for a in k.args}
            if not ({"select_statement", "set_expression"} & types_):
                continue
            # is what it finds delegated?  (a loop / name fed by the crawl whose element reaches a delegate_to* call)
            deleg = [c for c in prog.walk_fn(f) if isinstance(c, ast.Call) and isinstance(c.func, ast.Attribute) and c.func.attr.startswith("delegate_to")
                     and any(any(x is k for x in ast.walk(v)) if isinstance(v, ast.AST) else False for a in c.args for v in list(prog.influences(f, a)))]
            if not deleg:
                continue
            n_deleg += 1
            stops = any(kw.arg == "recurse_into" and isinstance(kw.value, ast.Constant) and kw.value.value is False for kw in k.keywords)
            ctx.touched(f)
            ctx.ob("R02.10", f"delegated-query-found-without-descending:{f.owner}", stops, loc(f.mod, k),
                   f"`{u(k)[:70]}`: " + ("stops at the first query" if stops else "also yields the SELECTs nested inside the query that is delegated"))
    ctx.floor("crawls whose findings are delegated to an extractor", n_deleg, 1)

    # ---- R02.11 the qualifier of a dotted column reference is the part next to the column (`s.t.c`: column c of t) - taken from the same list of
    # parts by the neighbouring index; the first part, or the whole prefix, names a relation the scope map does not know
    ecq = prog.try_fn("sqlfluff.utils.extract_column_qualifier")
    if ecq is None:
        raise AnalysisError("extract_column_qualifier not found")
    ctx.touched(ecq)
    n_q = 0

    qfl = flow(prog, ecq)

    def _alts(e: ast.AST, site: ast.AST, depth: int = 0) -> list:
        """the expressions `e` can stand for at `site`: reaching definitions of a local, both arms of a conditional expression"""
        if depth > 4:
            return [e]
        if isinstance(e, ast.IfExp):
            return _alts(e.body, site, depth + 1) + _alts(e.orelse, site, depth + 1)
        if isinstance(e, ast.Name):
            defs = [d for kind_, d in qfl.reaching_defs(site, e.id) if kind_ in ("assign", "annassign", "walrus") and getattr(d, "value", None) is not None]
            if defs:
                return [a_ for d in defs for a_ in _alts(d.value, d, depth + 1)]
        return [e]

    def _part(v: ast.AST):
        if isinstance(v, ast.Attribute) and v.attr == "raw":
            v = v.value
        if isinstance(v, ast.Subscript) and not isinstance(v.slice, ast.Slice):
            k_ = prog.try_fold(v.slice, ecq.mod, ecq)
            if isinstance(k_, int):
                return (u(v.value), k_)
        return None

    for k in prog.walk_fn(ecq):
        if not (isinstance(k, ast.Call) and u(k.func).endswith("ColumnQualifierTuple") and len(k.args) == 2):
            continue
        cols = [p_ for p_ in map(_part, _alts(k.args[0], k)) if p_ is not None and p_[1] == -1]
        qalts = [a_ for a_ in _alts(k.args[1], k) if not (isinstance(a_, ast.Constant) and a_.value is None)]
        if not cols or not qalts:
            continue  # not built from a list of parts / no qualifier
        n_q += 1
        quals = [_part(a_) for a_ in qalts]
        ok = all(q_ is not None and q_[1] == -2 and q_[0] in {c_[0] for c_ in cols} for q_ in quals)
        ctx.ob("R02.11", "qualifier-is-the-part-next-to-the-column", ok, loc(ecq.mod, k),
               f"`{u(k)[:70]}`: " + ("column = parts[-1], qualifier = parts[-2] of the same parts" if ok else f"the qualifier `{u(qalts[0])[:50]}` is not the neighbouring part of the column (column is `{cols[0][0]}[-1]`)"))
    ctx.floor("qualified column references built from a list of parts", n_q, 1)
