"""Anchors shared by several rule modules (located by role, see DESIGN.md appendix C)."""

from __future__ import annotations

import ast
from dataclasses import dataclass, field
from typing import Optional

from ..astutil import is_self_attr, u
from ..cfg import flow
from ..normalise import is_marker
from ..model import AnalysisError, Cls, Fn, Prog, loc
from ..report import Ctx


@dataclass
class Runner:
    cls: Cls
    evaluator: Fn
    flag: str
    lazy: Fn  # the decorator
    wrapper: Fn  # its inner function
    accessors: list[Fn] = field(default_factory=list)  # methods/properties wrapped by the lazy decorator
    public: list[Fn] = field(default_factory=list)  # every public method / property of the runner


_cache: dict = {}


def runner(prog: Prog) -> Runner:
    if id(prog) in _cache:
        return _cache[id(prog)]
    cls = prog.try_cls("runner.LineageRunner")
    if cls is None:
        raise AnalysisError("class LineageRunner not found in sqllineage.runner")
    # lazy decorator: module-level function whose inner function tests a flag on args[0]/self and calls a method
    lazy = wrapper = None
    flag = evname = None
    # (the decorators may live in any module of the package; what identifies them is their shape and that runner methods carry them)
    deco_names = {d.split(".")[-1] for m in cls.methods.values() for d in m.decorators}
    for f in prog.funcs.values():
        if f.parent is not None and f.parent.cls is None and f.parent.parent is None and (f.mod is cls.mod or f.parent.name in deco_names):
            tests = [n for n in ast.walk(f.node) if isinstance(n, ast.If)]
            for t in tests:
                attrs = [a for a in ast.walk(t.test) if isinstance(a, ast.Attribute)]
                calls = [c for b in t.body for c in ast.walk(b) if isinstance(c, ast.Call) and isinstance(c.func, ast.Attribute)]
                if attrs and calls:
                    lazy, wrapper, flag, evname = f.parent, f, attrs[0].attr, calls[0].func.attr
    if lazy is None:
        raise AnalysisError("lazy-evaluation decorator of the runner's accessors not found")
    ev = cls.methods.get(evname)
    if ev is None:
        raise AnalysisError(f"evaluator {evname} not found on LineageRunner")
    R = Runner(cls, ev, flag, lazy, wrapper)
    lazy_names = {lazy.name}
    # decorators defined in terms of the lazy one (lazy_property = property(lazy_method(func)))
    for f in prog.funcs.values():
        if f.mod is lazy.mod and f.cls is None and f.parent is None and f is not lazy:
            if any(isinstance(c, ast.Call) and isinstance(c.func, ast.Name) and c.func.id == lazy.name for c in ast.walk(f.node)):
                lazy_names.add(f.name)
    for m in cls.methods.values():
        if any(d in lazy_names for d in m.decorators):
            R.accessors.append(m)
        if not m.name.startswith("_") or m.name in ("__str__",):
            R.public.append(m)
    R.lazy_names = lazy_names  # type: ignore[attr-defined]
    _cache[id(prog)] = R
    return R


def flag_rule(ctx: Ctx, R: Runner, rule: str) -> None:
    """The evaluated flag is False after construction, set True only as the last step of a successful evaluation."""
    prog = ctx.prog
    ev = R.evaluator
    stores = []
    for f in prog.funcs.values():
        for n in prog.walk_fn(f):
            if isinstance(n, ast.Attribute) and isinstance(n.ctx, ast.Store) and n.attr == R.flag:
                stores.append((f, n))
    init_ok = False
    for f, n in stores:
        st = prog.enclosing_stmt(n)
        val = st.value if isinstance(st, ast.Assign) else None
        truthy = not (isinstance(val, ast.Constant) and not val.value)
        if f.cls is R.cls and f.name == "__init__":
            init_ok = init_ok or not truthy
            ctx.ob(rule, "flag:false-after-construction", not truthy, loc(f.mod, n), f"`{u(st)}` in __init__ must leave the runner un-evaluated")
            continue
        if f is not ev:
            ctx.ob(rule, f"flag:set-outside-evaluator:{f.name}", not truthy, loc(f.mod, n), f"`{u(st)}`: only the evaluator may mark the runner evaluated")
            continue
        cfg = flow(prog, ev).cfg
        nid = cfg.node_for(n)
        # last step: its only successor is the normal exit, and it is not inside try/finally/with/loop
        succ = list(cfg.g.successors(nid)) if nid is not None else []
        nested = any(isinstance(a, (ast.Try, ast.With, ast.For, ast.While, ast.If)) and not is_marker(a) for a in prog.ancestors(n) if a is not ev.node and not isinstance(a, (ast.FunctionDef, ast.ClassDef, ast.Module)))
        ctx.ob(rule, "flag:set-last-on-success-only", truthy and succ == [cfg.exit] and not nested, loc(f.mod, n),
               f"`{u(st)}` must be the last, unconditional statement of the evaluator, so that a failed evaluation is retried rather than half-visible")
    ctx.ob(rule, "flag:initialised", init_ok, R.cls.loc(), "the flag is initialised to False in __init__", trivial=True)
    ctx.ob(rule, "flag:set-by-evaluator", any(f is ev for f, _ in stores), ev.loc(), "the evaluator sets the flag", trivial=True)


def session_store(prog: Prog):
    """(registration method, name of the provider attribute it stores into): the session-level metadata map, found through the public
    registration method rather than through the attribute's (private) name."""
    P = prog.try_cls("core.metadata_provider.MetaDataProvider")
    if P is None:
        raise AnalysisError("MetaDataProvider not found")
    reg = P.methods.get("register_session_metadata")
    if reg is None:
        raise AnalysisError("MetaDataProvider.register_session_metadata not found")
    for n in ast.walk(reg.node):
        if isinstance(n, ast.Subscript) and isinstance(n.ctx, ast.Store) and is_self_attr(n.value):
            return reg, n.value.attr
    raise AnalysisError("register_session_metadata does not store into a map held by the provider")


_import_cache: dict = {}
_importing: set = set()


def import_rules(ctx: Ctx, pid: str, mapping: dict[str, str], key_filter=None, key_map=None) -> None:
    """Clauses shared between properties: run property `pid`'s rules on the same program and take over the obligations of the rules in
    `mapping` (their rule id -> the id under which this property reports them).  Results are cached per program.  Imports are one level
    deep: while a property's rules run *as an import* its own imports are skipped (they contribute nothing to the rules being taken over,
    and two properties may import from each other)."""
    import importlib
    from dataclasses import replace

    if getattr(ctx, "imported_run", False):
        return
    key = (id(ctx.prog), pid)
    if key not in _import_cache:
        mod = importlib.import_module(f"sa.rules.{pid.lower()}")
        sub = Ctx(pid, ctx.tier, ctx.prog, ctx.repo)
        sub.imported_run = True  # type: ignore[attr-defined]
        failure = None
        try:
            mod.rules(sub)
        except AnalysisError as e:  # keep what was judged before the anchor was lost; the importing check reports the error after its own rules
            failure = f"shared clauses of {pid}: {e}"
        _import_cache[key] = (sub.obligations, set(sub.analysed_functions), failure)
    obs, touched, failure = _import_cache[key]
    if failure:
        if not hasattr(ctx, "deferred_errors"):
            ctx.deferred_errors = []  # type: ignore[attr-defined]
        if failure not in ctx.deferred_errors:
            ctx.deferred_errors.append(failure)
    for o in obs:
        if o.rule in mapping and (key_filter is None or key_filter(o)):
            ctx.obligations.append(replace(o, rule=mapping[o.rule], key=key_map(o) if key_map else o.key))
    ctx.analysed_functions |= touched


def strips_comments(prog: Prog, fn: Fn, call: ast.AST, _depth: int = 0) -> bool:
    """`call` removes the comments from SQL text: sqlparse.format(..., strip_comments=True), directly or through a package function that
    returns the result of such a call (the repository's comment trimmer, whatever it is called)."""
    if not isinstance(call, ast.Call):
        return False
    if any(kw.arg == "strip_comments" and isinstance(kw.value, ast.Constant) and kw.value.value is True for kw in call.keywords):
        return True
    if isinstance(call.func, ast.Name) and call.func.id == "str" and len(call.args) == 1:
        return strips_comments(prog, fn, call.args[0], _depth)
    if _depth > 2:
        return False
    for cal in prog.resolve_call(call, fn):
        if isinstance(cal, Fn):
            rets = [r for r in prog.walk_fn(cal) if isinstance(r, ast.Return) and r.value is not None]
            # every way out of the function goes through the stripper (a fast path that hands the text back untouched strips nothing)
            if rets and all(all(strips_comments(prog, cal, v, _depth + 1) for v in prog.value_sources(cal, r.value)) for r in rets):
                return True
    return False
