"""C13 - metadata only refines column attribution (DESIGN.md C13, rules R13.1-R13.5)."""

from __future__ import annotations

import ast
from typing import Optional

from ..astutil import controlling_atoms, is_self_attr, u
from ..cfg import flow
from ..model import AnalysisError, Cls, Fn, Prog, loc
from ..report import Ctx

EXPLANATION = (
    "Static information-flow analysis of every use of a metadata provider. Decides: R13.1 non-interference - no table-level sink "
    "(add_read/add_write/add_cte/add_drop/add_rename, graph edges or tags or removals whose operands are datasets) is control- or "
    "data-dependent on a provider look-up or on provider truthiness; R13.2 every provider look-up is dominated by a truthiness test of "
    "that provider (which makes 'no provider', 'empty provider' and 'provider that knows nothing' coincide) and by nothing else that is "
    "not part of the property (whitelisted guard atoms per site); R13.3 an explicit column list wins: write-column registration replaces "
    "earlier, still unwired columns; R13.4 the late repair of multi-candidate columns collects every matching candidate - no first-match "
    "selection (break / next() / accumulator tested inside the loop) and only tables with a known schema are asked; R13.5 the provider's "
    "public look-up is a function of the session store and the provider's own source only (no memo across calls or instances). "
    "R13.6 session entries are dropped on every exit of a run (= R12.1), so a table unknown to the provider is not answered from a previous run. Does not decide: that expansion yields exactly the table's columns, nor the attribution of unqualified columns as values."
    " R13.5 also requires that the provider's own source is asked only on paths that tested what the session store holds (precedence, not only presence)."
)
RULE_TEXT = "one obligation per provider look-up, per table-level sink and per loop of the late repair; anchors are trivial"

TABLE_HOLDER_SINKS = {"add_read", "add_write", "add_cte", "add_drop", "add_rename"}
GRAPH_SINKS = {"add_edge", "add_node", "remove_node", "remove_edge", "relabel_nodes", "set_node_attributes", "add_edges_from", "remove_nodes_from", "remove_edges_from"}


def provider_typed(prog: Prog, e: ast.AST, fn: Fn, P: Cls) -> bool:
    t = prog.infer(e, fn)
    for a in t.alts():
        if a.kind == "inst" and a.name in prog.classes and prog.is_subclass(prog.classes[a.name], P):
            return True
    # by role: the names the repo uses for the provider when it is untyped (getattr(self, ...))
    return u(e).endswith("metadata_provider") and not any(a.kind in ("str", "int", "list", "dict", "set") for a in t.alts())


def rules(ctx: Ctx) -> None:
    prog = ctx.prog
    P = prog.try_cls("core.metadata_provider.MetaDataProvider")
    if P is None:
        raise AnalysisError("MetaDataProvider not found")
    lookup = P.methods.get("get_table_columns")
    if lookup is None:
        raise AnalysisError("MetaDataProvider.get_table_columns not found")
    Column = prog.cls("core.models.Column")
    ctx.touched(lookup)

    # ---- provider look-ups --------------------------------------------------------------
    lookups: list[tuple[Fn, ast.Call]] = []
    for f in prog.funcs.values():
        if f.cls is not None and prog.is_subclass(f.cls, P):
            continue
        for n in prog.walk_fn(f):
            if isinstance(n, ast.Call) and isinstance(n.func, ast.Attribute) and n.func.attr == lookup.name and provider_typed(prog, n.func.value, f, P):
                lookups.append((f, n))
    ctx.floor("provider look-ups outside the provider classes", len(lookups), 2)

    # whitelisted guard atoms per look-up site, in canonical (rename-invariant) form: local names are replaced by their origin
    from ..canon import canon, canon_text

    ALLOWED = {
        "SubQueryLineageHolder.expand_wildcard": {
            "<.parent>", "<None|next(iter(<difference()>))>", "<loop:.write_columns>.raw_name == '*'", "<loop:get_source_columns()>.parent",
            "isinstance(<.parent>, SubQuery)", "isinstance(<.parent>, Table)",
        },
        "SQLLineageHolder._build_digraph": {
            "isinstance(<loop:.parent_candidates>, Table)", "str(<loop:.parent_candidates>.schema) != Schema.unknown", "len(<[]>) == 0",
        },
        "SourceHandlerMixin.end_of_query_cleanup": {
            "<getattr()>", "getattr(self, 'metadata_provider', None)", "SQLLineageConfig.LATERAL_COLUMN_ALIAS_REFERENCE", "isinstance(<loop:.parent_candidates>, Table)",
            "len(<param:1>.write) > 1", "<param:1>.write",
        },
        "CreateInsertExtractor.extract": {
            "<False|True>", "<loop:list_child_segments()>.type in ['table_reference', 'object_reference']", "<param:1>.type == 'insert_statement'", "isinstance(<of()>, Table)",
        },
    }

    def allowed_fact(fn: Fn, txt: str, recv: str) -> bool:
        """every leaf atom of the (canonical, flag-expanded) condition is a whitelisted atom, in either polarity"""
        if txt in (recv, f"bool({recv})"):
            return True
        owner = f"{fn.cls.name}.{fn.name}" if fn.cls else fn.name
        crecv = canon_text(prog, fn, recv)
        try:
            raw_tree = ast.parse(txt, mode="eval").body
            tree = canon(prog, fn, raw_tree, as_ast=True)
        except SyntaxError:
            return False
        # a condition that is the value a whitelisted local is bound from (`if (t := a if c else b)` states `a if c else b` as well as `t`)
        from ..canon import expr_origin

        if not isinstance(raw_tree, ast.Name) and expr_origin(prog, fn, raw_tree) in ALLOWED.get(owner, set()):
            return True
        from ..astutil import leaf_atoms

        for leaf in leaf_atoms(tree):
            c = u(leaf)
            if c in (crecv, f"bool({crecv})") or c in ALLOWED.get(owner, set()):
                continue
            if _complement_in(leaf, ALLOWED.get(owner, set()) | {crecv}):
                continue
            return False
        return True

    tainted_names: dict[str, set[str]] = {}
    for f, call in lookups:
        ctx.touched(f)
        fl = flow(prog, f)
        recv = u(call.func.value)
        facts = fl.facts_for(call)
        where = loc(f.mod, call)
        owner = f"{f.cls.name}.{f.name}" if f.cls else f.name
        gated = any(p and t in (recv, f"bool({recv})") for t, p in facts)
        ctx.ob("R13.2", f"lookup-gated-by-truthiness:{owner}", gated, where,
               f"`{u(call)[:60]}` must be dominated by a truthiness test of `{recv}` (`is not None` is not enough: an empty provider is falsy)")
        foreign = sorted({t for t, p in facts if not allowed_fact(f, t, recv) and not _complement_of_allowed(f, t, recv, allowed_fact)})
        # syntactic control dependence too: a disjunctive guard leaves no must-fact but still decides
        for a in controlling_atoms(prog.parents, call):
            t = u(a)
            if not allowed_fact(f, t, recv) and not _complement_of_allowed(f, t, recv, allowed_fact) and t not in foreign:
                foreign.append(t)
        ctx.ob("R13.2", f"lookup-guards-whitelisted:{owner}", not foreign, where,
               f"`{u(call)[:60]}` is conditioned only on what the property allows" + (f"; extra condition `{foreign[0]}` changes when metadata is consulted" if foreign else ""))
        # names bound from the result
        st = prog.enclosing_stmt(call)
        names = tainted_names.setdefault(f.qual, set())
        if isinstance(st, ast.Assign):
            for t in st.targets:
                names |= {x.id for x in ast.walk(t) if isinstance(x, ast.Name)}
        for par in prog.ancestors(call):
            if isinstance(par, ast.NamedExpr):
                names.add(u(par.target))
            if isinstance(par, (ast.For, ast.comprehension)) and any(x is call for x in ast.walk(par.iter)):
                names |= {x.id for x in ast.walk(par.target) if isinstance(x, ast.Name)}
            if isinstance(par, ast.stmt):
                break
        # propagate one step: loop variables over tainted names
        for n in prog.walk_fn(f):
            if isinstance(n, (ast.For, ast.comprehension)) and isinstance(n.iter, ast.Name) and n.iter.id in names:
                names |= {x.id for x in ast.walk(n.target) if isinstance(x, ast.Name)}

    # ---- R13.1 table-level sinks -----------------------------------------------------------
    n_sinks = 0
    for f in prog.funcs.values():
        fl = None
        for n in prog.walk_fn(f):
            if not (isinstance(n, ast.Call) and isinstance(n.func, ast.Attribute)):
                continue
            m = n.func.attr
            level = None
            if m in TABLE_HOLDER_SINKS:
                level = "table"
            elif m in GRAPH_SINKS:
                args = list(n.args) + [k.value for k in n.keywords]
                arg_types = [prog.infer(a, f) for a in n.args[:2]]
                if any(any(al.kind == "inst" and al.name == Column.qual for al in t.alts()) for t in arg_types):
                    level = "column"
                elif m == "set_node_attributes":
                    tag = prog.try_fold(n.args[2], f.mod, f) if len(n.args) >= 3 else None
                    level = "table" if tag in ("source_only", "target_only", "selfloop", "read", "write", "cte", "drop") else None
                elif m in ("add_edge",):
                    et = next((prog.try_fold(k.value, f.mod, f) for k in n.keywords if k.arg == "type"), None)
                    level = "table" if et in ("lineage", "rename") and not _column_named(n) else "column" if et in ("has_column",) or _column_named(n) else None
                elif m in ("remove_node", "relabel_nodes", "remove_nodes_from"):
                    level = "column" if _column_named(n) else "table"
            if level != "table":
                continue
            n_sinks += 1
            fl = fl or flow(prog, f)
            facts = fl.facts_for(n)
            owner = f"{f.cls.name}.{f.name}" if f.cls else f.name
            ctrl = sorted({t for t, p in facts if "metadata_provider" in t or any(nm in _names_of(t) for nm in tainted_names.get(f.qual, ()))})
            ctx.ob("R13.1", f"table-sink-control:{owner}:{m}", not ctrl, loc(f.mod, n),
                   f"`{u(n)[:60]}` is a table-level effect and must not be conditioned on the provider" + (f" (guard `{ctrl[0]}`)" if ctrl else ""))
            data = sorted({x.id for a in list(n.args) + [k.value for k in n.keywords] for x in ast.walk(a) if isinstance(x, ast.Name) and x.id in tainted_names.get(f.qual, ())})
            ctx.ob("R13.1", f"table-sink-data:{owner}:{m}", not data, loc(f.mod, n),
                   f"`{u(n)[:60]}` is a table-level effect and must not use provider data" + (f" (uses `{data[0]}` bound from a provider look-up)" if data else ""))
    ctx.floor("table-level sinks in the package", n_sinks, 25)

    # ---- R13.3 explicit column list wins ---------------------------------------------------
    holder = prog.cls("core.holders.SubQueryLineageHolder")
    awc = holder.methods.get("add_write_column")
    if awc is None:
        raise AnalysisError("add_write_column not found")
    ctx.touched(awc)
    acfg = flow(prog, awc).cfg
    removal = [c.id for c in acfg.nodes.values() if c.ast is not None and c.kind == "stmt" and any(
        isinstance(k, ast.Call) and isinstance(k.func, ast.Attribute) and k.func.attr in ("remove_nodes_from", "remove_node", "remove_edges_from", "remove_edge") for k in ast.walk(c.ast))]
    adds = [c.id for c in acfg.nodes.values() if c.ast is not None and c.kind in ("stmt",) and any(
        isinstance(k, ast.Call) and isinstance(k.func, ast.Attribute) and k.func.attr == "add_edge" for k in ast.walk(c.ast))]
    replaces = bool(removal) and bool(adds) and all(any(acfg.dominates(r, a) for r in removal) for a in adds)
    if replaces:
        rtxt = u(acfg.nodes[removal[0]].ast)
        replaces = "HAS_COLUMN" in rtxt or "has_column" in rtxt
    ctx.ob("R13.3", "later-column-specification-replaces-earlier", replaces, awc.loc(),
           "add_write_column removes the target's earlier, still unwired HAS_COLUMN entries before registering the new list, so an explicit column list "
           "registered after the metadata columns wins")

    # ---- R13.4 late repair collects every matching candidate ---------------------------------
    H = prog.cls("core.holders.SQLLineageHolder")
    fold = H.methods.get("_build_digraph") or next((m for m in H.methods.values() if any(isinstance(k, ast.Attribute) and k.attr == "parent_candidates" for k in ast.walk(m.node))), None)
    if fold is None:
        raise AnalysisError("late-repair function not found")
    ctx.touched(fold)
    cand = {"parent_candidates"}
    for n in prog.walk_fn(fold):
        if isinstance(n, ast.Assign) and isinstance(n.value, (ast.ListComp, ast.GeneratorExp)) and any("parent_candidates" in u(g.iter) for g in n.value.generators):
            cand |= {t.id for t in n.targets if isinstance(t, ast.Name)}
    def over_candidates(it: ast.AST) -> bool:
        return any((isinstance(x, ast.Attribute) and x.attr in cand) or (isinstance(x, ast.Name) and x.id in cand) for x in ast.walk(it))
    loops = [n for n in prog.walk_fn(fold) if isinstance(n, ast.For) and over_candidates(n.iter)]
    comps = [n for n in prog.walk_fn(fold) if isinstance(n, (ast.GeneratorExp, ast.ListComp)) and any(over_candidates(g.iter) for g in n.generators)]
    ctx.floor("iterations over the owner candidates of an unresolved column", len(loops) + len(comps), 1)
    # ... nor the last one: a dictionary built over the candidates and keyed by a part of what they list (`{col.raw_name: col for parent in candidates for
    # col in lookup(parent)}`) keeps one column per name - the candidate visited last wins
    for dc in [n for n in prog.walk_fn(fold) if isinstance(n, ast.DictComp) and any(over_candidates(g.iter) for g in n.generators)]:
        tnames = {t.id for g in dc.generators for t in ast.walk(g.target) if isinstance(t, ast.Name)}
        lossy = isinstance(dc.value, ast.Name) and dc.value.id in tnames and not (isinstance(dc.key, ast.Name) and dc.key.id == dc.value.id)
        ctx.ob("R13.4", "repair:no-first-match", not lossy, loc(fold.mod, dc),
               f"`{u(dc)[:70]}`: " + ("one entry per key - of several candidate owners that list the column only the last one visited is kept" if lossy else "keeps every element"))
    for c in comps:
        par = prog.parent(c)
        first = isinstance(par, ast.Call) and isinstance(par.func, ast.Name) and par.func.id == "next"
        ctx.ob("R13.4", "repair:no-first-match", not first, loc(fold.mod, c), f"`{u(par)[:70] if first else u(c)[:70]}`: every candidate owner that lists the column must be kept, not the first one")
    for lp in loops:
        appended = set()
        for k in ast.walk(lp):
            if isinstance(k, ast.Call) and isinstance(k.func, ast.Attribute) and k.func.attr in ("append", "add", "extend") and isinstance(k.func.value, ast.Name):
                appended.add(k.func.value.id)
        early = [k for k in ast.walk(lp) if isinstance(k, (ast.Break, ast.Return))]
        nexts = [k for k in ast.walk(lp) if isinstance(k, ast.Call) and isinstance(k.func, ast.Name) and k.func.id == "next"]
        tests = []
        for k in ast.walk(lp):
            if isinstance(k, (ast.If, ast.IfExp, ast.While)):
                outer_acc = {a for a in appended if any(not any(anc is lp for anc in prog.ancestors(node)) for _, node in prog.local_defs(fold, a))}
                if {x.id for x in ast.walk(k.test) if isinstance(x, ast.Name)} & outer_acc:
                    tests.append(k)
        where = loc(fold.mod, lp)
        ctx.ob("R13.4", "repair:no-first-match", not early and not nexts and not tests, where,
               f"`for {u(lp.target)} in {u(lp.iter)}` collects every matching candidate"
               + (f"; `{u(tests[0].test)[:50]}` tests the accumulator inside the loop: candidates after the first match are skipped" if tests else "")
               + ("; break/return/next() selects the first match" if early or nexts else ""))
    # only tables with a known schema are asked (the property: 'never to one whose known metadata lacks it'; unknown-schema tables are not asked)
    for f, call in lookups:
        if f is fold:
            facts = flow(prog, f).facts_for(call)
            known = any("Schema.unknown" in t and ((("!=" in t) and p) or (("==" in t) and not p)) for t, p in facts)
            if not known:
                # the filter may live in the comprehension that builds the list of candidates being iterated
                for n in prog.walk_fn(f):
                    if isinstance(n, ast.Assign) and isinstance(n.value, (ast.ListComp, ast.GeneratorExp)) and any(t.id in cand for t in n.targets if isinstance(t, ast.Name)):
                        if any("Schema.unknown" in u(c) and "!=" in u(c) for g in n.value.generators for c in g.ifs):
                            known = True
            ctx.ob("R13.4", "repair:only-known-schema-tables-are-asked", known, loc(f.mod, call), "the provider is asked only about candidate tables whose schema is known")

    # ---- R13.5 provider look-up has no memory -------------------------------------------------
    for k in [P] + prog.subclasses(P):
        for mname in ("get_table_columns", "_get_table_columns"):
            m = k.methods.get(mname)
            if m is None:
                continue
            ctx.touched(m)
            stores = []
            for n in prog.walk_fn(m):
                if isinstance(n, (ast.Attribute, ast.Subscript)) and isinstance(n.ctx, (ast.Store, ast.Del)):
                    root = n
                    while isinstance(root, (ast.Attribute, ast.Subscript)):
                        root = root.value
                    if isinstance(root, ast.Name) and root.id in ("self", "cls", k.name):
                        stores.append(n)
                if isinstance(n, ast.Call) and isinstance(n.func, ast.Attribute) and n.func.attr in ("setdefault", "update", "append", "add") and is_self_attr(n.func.value):
                    stores.append(n)
            # ... nor may it change in place what the source or the session store handed out (the list may be the provider's own catalogue entry)
            for n in prog.walk_fn(m):
                tgt = None
                if isinstance(n, ast.AugAssign) and isinstance(n.target, ast.Name):
                    tgt = n.target
                elif isinstance(n, ast.Call) and isinstance(n.func, ast.Attribute) and n.func.attr in ("append", "extend", "insert", "remove", "pop", "clear", "sort", "reverse", "update", "add") and isinstance(n.func.value, ast.Name):
                    tgt = n.func.value
                if tgt is None:
                    continue
                shared = [v for v in prog.value_sources(m, ast.Name(id=tgt.id, ctx=ast.Load()))
                          if (isinstance(v, ast.Call) and is_self_attr(v.func)) or (isinstance(v, ast.Subscript) and is_self_attr(v.value)) or (isinstance(v, ast.Call) and isinstance(v.func, ast.Attribute) and v.func.attr == "get" and is_self_attr(v.func.value))]
                if shared:
                    stores.append(n)
            ctx.ob("R13.5", f"lookup-has-no-memory:{k.name}.{mname}", not stores and not any("cache" in d for d in m.decorators), m.loc(),
                   f"{k.name}.{mname} must answer from the session store and the provider's source only" + (f" (`{u(prog.enclosing_stmt(stores[0]))[:60]}` keeps state across calls)" if stores else ""))
        for nm, val in k.consts.items():
            from .c12 import is_mutable_init
            ctx.ob("R13.5", f"provider-class-state:{k.name}.{nm}", not is_mutable_init(val), k.loc(), f"{k.name}.{nm} is not a mutable class-level object shared by all providers", trivial=True)
    # session store takes precedence and falls back to the provider's own source
    from .common import session_store

    _, store_attr = session_store(prog)
    reads_store = any(is_self_attr(n, store_attr) for n in prog.walk_fn(lookup))
    # the provider's own source: a hook of the base class that the concrete providers override
    hooks = {n.func.attr for n in prog.walk_fn(lookup) if isinstance(n, ast.Call) and is_self_attr(n.func) and n.func.attr in P.methods
             and any(n.func.attr in k.methods for k in prog.subclasses(P))}
    ctx.ob("R13.5", "lookup-reads-session-then-source", reads_store and bool(hooks), lookup.loc(),
           "get_table_columns answers from the session store first, else from the provider's own source", trivial=True)
    # ... in that order: the provider's own source is asked only on paths on which the session store has been consulted and the outcome
    # tested (what a script (re)defined itself is newer than what the catalogue says about a table of that name)
    from ..cfg import flow as _flow13

    fl13 = _flow13(prog, lookup)
    for hc in [n for n in prog.walk_fn(lookup) if isinstance(n, ast.Call) and is_self_attr(n.func) and n.func.attr in hooks]:
        conditioned = False
        for t, _p in fl13.facts_for(hc):
            try:
                atom = ast.parse(t, mode="eval").body
            except SyntaxError:
                continue
            if any(is_self_attr(x, store_attr) for x in ast.walk(atom)) or any(
                    is_self_attr(y, store_attr) for x in ast.walk(atom) if isinstance(x, ast.Name) for d_ in prog.value_sources(lookup, x) for y in ast.walk(d_) if isinstance(y, ast.AST)):
                conditioned = True
        ctx.ob("R13.5", "lookup-asks-the-source-only-after-the-session-store", conditioned, loc(lookup.mod, hc),
               f"`{u(hc)[:60]}` is evaluated " + ("only on paths that tested what the session store holds for the table" if conditioned else
                                                   "whatever the session store holds: a table the script re-defined is answered with the catalogue's stale columns"))


    # ---- R13.6 session entries never outlive the run that made them (= R12.1): a table the provider does not know must get the same
    # answer as without metadata, also when an earlier, failed run on the same provider created a table of that name
    from .common import import_rules

    import_rules(ctx, "C12", {"R12.1": "R13.6"})
    # ---- R13.7 / R13.8: what the session learns is what the statement wrote, wildcards excluded (= R04.2: a registered `*` makes an unknown
    # table look known); the late repair handles every (unresolved column, target) pair (= R04.3)
    import_rules(ctx, "C04", {"R04.2": "R13.7", "R04.3": "R13.8"}, key_filter=lambda o: o.rule == "R04.2" or o.key.startswith("repair:"))


def _column_named(call: ast.Call) -> bool:
    txt = " ".join(u(a) for a in call.args)
    return any(s in txt for s in ("col", "Column", "wildcard"))


def _names_of(txt: str) -> set[str]:
    try:
        return {x.id for x in ast.walk(ast.parse(txt, mode="eval")) if isinstance(x, ast.Name)}
    except SyntaxError:
        return set()


def _complement_of_allowed(fn, txt: str, recv: str, allowed) -> bool:
    return False  # complements are handled per leaf atom inside allowed_fact


def _complement_in(e: ast.AST, allowed: set[str]) -> bool:
    """Facts come in complementary spellings (`a == b` / `a != b`); accept the complement of an allowed atom."""
    if isinstance(e, ast.Compare) and len(e.ops) == 1:
        flip = {ast.Is: ast.IsNot, ast.IsNot: ast.Is, ast.In: ast.NotIn, ast.NotIn: ast.In, ast.Eq: ast.NotEq, ast.NotEq: ast.Eq, ast.Lt: ast.GtE, ast.GtE: ast.Lt, ast.Gt: ast.LtE, ast.LtE: ast.Gt}
        op = type(e.ops[0])
        if op in flip:
            comp = ast.Compare(left=e.left, ops=[flip[op]()], comparators=e.comparators)
            return u(comp) in allowed
    return False
