"""C15 - configuration overrides are scoped and thread-local (DESIGN.md section C15, rules R15.1-R15.6)."""

from __future__ import annotations

import ast
from typing import Optional

from ..astutil import call_attr, is_self_attr, strip_keys_call, u, walk_no_nested
from ..cfg import flow
from ..model import AnalysisError, Cls, Fn, Prog, loc
from ..report import Ctx

EXPLANATION = (
    "Static analysis of sqllineage/config.py (and every other module touching the loader's state). Decides: "
    "R15.1 own-key discipline - every access to the two per-thread containers is a single-key operation keyed by "
    "the current thread's identity, no whole-container operation and no other shared mutable state written by the "
    "protocol methods, which makes every interleaving equivalent to a sequential run per thread; R15.2 __exit__ "
    "removes the own entry from both containers on every CFG path and never swallows the body's exception; R15.3 "
    "validate-before-mutate: no store can be followed by a rejection (raise or failing coercion) in __call__/__enter__; "
    "R15.4 __setattr__ refuses configurable keys; R15.5 stored and environment values are coerced with the key's declared "
    "type and every provided key is stored unconditionally; R15.6 look-up order thread map -> SQLLINEAGE_<key> environment -> "
    "declared default, presence tested by `is not None`. Does not decide: atomicity of single-key dict/set operations "
    "(assumed: GIL / per-object locks), unscoped use SQLLineageConfig(K=v) without `with`."
    " R15.5 also requires that no path of the coercion function returns the value as it came. R15.7 no thread / process pool or new thread anywhere in the package (scoped overrides are looked up under the calling thread's id)."
    " R15.1 the key of the per-thread state is the interpreter's thread identity (found by role when the identity function is gone); R15.9 (= R12.2) no memo keyed by equality on the coercion function."
)
RULE_TEXT = (
    "one obligation per container access / store / raise / return / look-up site in the loader class; non-trivial = "
    "everything except plain membership tests"
)

SINGLE_KEY_METHODS = {"get", "pop", "add", "remove", "discard", "setdefault", "__contains__", "__getitem__", "__delitem__"}
REMOVERS = {"pop", "remove", "discard"}
STORERS = {"add", "setdefault", "update", "__setitem__"}


def find_loader(prog: Prog) -> tuple[Cls, str]:
    """The loader class = class of sqllineage.config instantiated at module level; returns (class, instance name)."""
    mod = prog.mods.get("sqllineage.config")
    if mod is None:
        raise AnalysisError("module sqllineage.config not found")
    for st in mod.tree.body:
        if isinstance(st, ast.Assign) and isinstance(st.value, ast.Call) and isinstance(st.value.func, ast.Name):
            r = prog.resolve(mod.name, st.value.func.id)
            if r[0] == "class":
                c = prog.classes[r[1]]
                if all(m in c.methods for m in ("__getattr__", "__call__", "__enter__", "__exit__")):
                    return c, st.targets[0].id
    raise AnalysisError("configuration loader (class with __getattr__/__call__/__enter__/__exit__ instantiated in sqllineage.config) not found")


def find_containers(prog: Prog, c: Cls) -> dict[str, str]:
    init = c.methods.get("__init__")
    if init is None:
        raise AnalysisError("loader has no __init__")
    out: dict[str, str] = {}
    for n in ast.walk(init.node):
        tgt = val = None
        if isinstance(n, ast.AnnAssign):
            tgt, val = n.target, n.value
        elif isinstance(n, ast.Assign) and len(n.targets) == 1:
            tgt, val = n.targets[0], n.value
        if tgt is not None and is_self_attr(tgt) and val is not None:
            t = prog.infer(val, init)
            if t.kind in ("dict", "set"):
                out[tgt.attr] = t.kind
    return out


def find_ident_fn(prog: Prog, c: Cls) -> Fn:
    for m in c.methods.values():
        rets = [n for n in ast.walk(m.node) if isinstance(n, ast.Return) and n.value is not None]
        if len(rets) == 1 and isinstance(rets[0].value, ast.Call):
            r = prog.resolve_expr(rets[0].value.func, m.mod, m)
            if r == ("ext", "threading.get_ident"):
                return m
    raise AnalysisError("thread identity function (method returning threading.get_ident()) not found")


class Own:
    """Recogniser of 'the identity of the current thread, obtained in this call'."""

    def __init__(self, prog: Prog, ident: Fn):
        self.prog, self.ident = prog, ident

    def is_ident_call(self, e: ast.AST, fn: Fn) -> bool:
        if not isinstance(e, ast.Call) or e.args or e.keywords:
            return False
        if self.prog.resolve_expr(e.func, fn.mod, fn) == ("ext", "threading.get_ident"):
            return True
        return self.ident in self.prog.resolve_call(e, fn)

    def is_own(self, e: ast.AST, fn: Fn) -> bool:
        if isinstance(e, ast.NamedExpr):
            return self.is_own(e.value, fn)
        if self.is_ident_call(e, fn):
            return True
        if isinstance(e, ast.Name):
            if self.prog.param_type(fn, e.id) is not None:
                return False
            defs = self.prog.local_defs(fn, e.id)
            return bool(defs) and all(
                kind in ("assign", "walrus", "annassign") and self.is_own(node.value, fn) for kind, node in defs
            )
        return False


def container_of(e: ast.AST, containers: dict[str, str], inst_names: set[str]) -> Optional[str]:
    """`self.<container>` or `<LoaderInstance>.<container>`."""
    if isinstance(e, ast.Attribute) and e.attr in containers and isinstance(e.value, ast.Name) and (
        e.value.id == "self" or e.value.id in inst_names
    ):
        return e.attr
    return None


def rules(ctx: Ctx) -> None:
    prog = ctx.prog
    c, inst = find_loader(prog)
    containers = find_containers(prog, c)
    ctx.floor("per-thread state containers created in the loader's __init__", len(containers), 1)
    try:
        ident = find_ident_fn(prog, c)
    except AnalysisError:
        # by role: the method of the loader whose result keys the per-thread containers.  If there is one and it does not hand out the
        # interpreter's thread identity, that IS the failed clause (names, indices or anything a user can make equal for two live threads
        # are not identities); the run still cannot judge the remaining rules
        for m in c.methods.values():
            if m.name.startswith("__") or len([a for a in m.node.args.args if a.arg not in ("self", "cls")]) > 0:
                continue
            keyed = False
            for fn in c.methods.values():
                for n in prog.walk_fn(fn):
                    if isinstance(n, ast.Call) and isinstance(n.func, ast.Attribute) and n.func.attr == m.name and isinstance(n.func.value, ast.Name) and n.func.value.id in ("self", "cls", c.name):
                        par = prog.parent(n)
                        while isinstance(par, ast.NamedExpr):
                            par = prog.parent(par)
                        if isinstance(par, ast.Subscript) and container_of(par.value, containers, set()) is not None:
                            keyed = True
                        if isinstance(par, ast.Compare) or (isinstance(par, ast.Call) and isinstance(par.func, ast.Attribute) and par.func.attr in ("add", "remove", "discard", "pop", "get")):
                            keyed = True
            if keyed:
                rets = [u(r.value)[:60] for r in ast.walk(m.node) if isinstance(r, ast.Return) and r.value is not None]
                ctx.ob("R15.1", f"thread-key-is-the-interpreter's-thread-identity:{m.owner}", False, m.loc(),
                       f"{m.name}() keys the per-thread state but returns {rets or '?'}, not threading.get_ident(): two live threads that get the same key share one "
                       "override dictionary and one in-scope mark")
        raise
    own = Own(prog, ident)
    cfgmod = c.mod
    ctx.extra["anchors"] = {"loader": c.qual, "instance": inst, "containers": containers, "thread_identity": ident.qual}
    ctx.assumptions.append("single-key dict/set operations on distinct keys are atomic with respect to each other (GIL or per-object locks)")

    # ------------------------------------------------------------------------------
    # R15.1 own-key discipline over the whole package
    # ------------------------------------------------------------------------------
    accesses = 0
    stores_by_fn: dict[str, list[ast.AST]] = {}
    removals_by_fn: dict[str, dict[str, list[ast.AST]]] = {}
    for fn in prog.funcs.values():
        inst_names = set()
        if fn.mod is not cfgmod or fn.cls is not c:
            # other code reaching into the loader's state through the module-level instance
            for nm in ("SQLLineageConfig", inst):
                r = prog.resolve(fn.mod.name, nm, fn)
                if r[0] == "var" and r[1] == f"{cfgmod.name}.{inst}":
                    inst_names.add(nm)
        if fn.cls is c and fn.name == "__init__":
            continue
        for n in prog.walk_fn(fn):
            cname = container_of(n, containers, inst_names) if (fn.cls is c or inst_names) else None
            if cname is None:
                continue
            if fn.cls is not c and not inst_names:
                continue
            accesses += 1
            ctx.touched(fn)
            par = prog.parent(n)
            where = loc(fn.mod, n)
            keybase = f"{fn.qual.split('.', 1)[-1] if fn.cls is not c else fn.name}:{cname}"
            # --- classify the use of the container expression
            if isinstance(par, ast.Subscript) and par.value is n:
                ok = own.is_own(par.slice, fn)
                kind = "store" if isinstance(par.ctx, ast.Store) else "del" if isinstance(par.ctx, ast.Del) else "load"
                # nested store C[own][k] = v counts as a store into the per-thread map
                gp = prog.parent(par)
                if kind == "load" and isinstance(gp, ast.Subscript) and gp.value is par and isinstance(gp.ctx, ast.Store):
                    kind = "store-inner"
                if kind == "load" and isinstance(gp, ast.Attribute) and isinstance(prog.parent(gp), ast.Call) and gp.attr in ("update", "setdefault", "__setitem__"):
                    kind = "store-inner"
                if kind == "load" and isinstance(gp, ast.Attribute) and isinstance(prog.parent(gp), ast.Call) and gp.attr in ("pop", "clear", "popitem"):
                    kind = "inner-removal"
                ctx.ob("R15.1", f"{keybase}:subscript-{kind}", ok, where,
                       f"`{u(par)}` must be keyed by the current thread's identity obtained in this call")
                if kind in ("store", "store-inner"):
                    stores_by_fn.setdefault(fn.qual, []).append(par)
                if kind == "del" and ok:
                    removals_by_fn.setdefault(fn.qual, {}).setdefault(cname, []).append(par)
                continue
            if isinstance(par, ast.Attribute) and par.value is n and isinstance(prog.parent(par), ast.Call) and prog.parent(par).func is par:
                call = prog.parent(par)
                meth = par.attr
                if meth == "keys" and not call.args:
                    gp = prog.parent(call)
                    cmp_ok = isinstance(gp, ast.Compare) and len(gp.ops) == 1 and isinstance(gp.ops[0], (ast.In, ast.NotIn)) and gp.comparators[0] is call
                    ctx.ob("R15.1", f"{keybase}:keys-membership", cmp_ok and own.is_own(gp.left, fn), where,
                           f"`{u(gp) if gp is not None else u(call)}`: .keys() may only be used for an own-key membership test", trivial=True)
                    continue
                if meth in SINGLE_KEY_METHODS and call.args:
                    ok = own.is_own(call.args[0], fn)
                    ctx.ob("R15.1", f"{keybase}:{meth}", ok, where,
                           f"`{u(call)}` must be keyed by the current thread's identity obtained in this call")
                    if meth in ("add", "setdefault"):
                        stores_by_fn.setdefault(fn.qual, []).append(call)
                    if meth in REMOVERS and ok:
                        removals_by_fn.setdefault(fn.qual, {}).setdefault(cname, []).append(call)
                    continue
                ctx.ob("R15.1", f"{keybase}:whole-container-{meth}", False, where,
                       f"`{u(call)}` is a whole-container operation: it touches other threads' entries")
                continue
            if isinstance(par, ast.Compare) and len(par.ops) == 1 and isinstance(par.ops[0], (ast.In, ast.NotIn)) and par.comparators[0] is n:
                ctx.ob("R15.1", f"{keybase}:membership", own.is_own(par.left, fn), where,
                       f"`{u(par)}` must test the current thread's own key", trivial=True)
                continue
            if isinstance(n.ctx, ast.Store) or isinstance(par, (ast.AugAssign,)) and par.target is n:
                ctx.ob("R15.1", f"{keybase}:rebind", False, where,
                       f"`{u(prog.enclosing_stmt(n))}` re-binds the shared container outside __init__ (lost updates of other threads)")
                stores_by_fn.setdefault(fn.qual, []).append(n)
                continue
            ctx.ob("R15.1", f"{keybase}:escapes", False, where,
                   f"`{u(par) if par is not None else u(n)}`: the shared container is used as a whole (iteration / copy / argument / alias)")
    ctx.floor("container accesses outside __init__", accesses, 6)

    # R15.1b no other shared mutable state written by the loader's methods
    for m in list(c.methods.values()) + list(c.setters.values()):
        if m.name == "__init__":
            continue
        ctx.touched(m)
        for n in prog.walk_fn(m):
            tgt = None
            if isinstance(n, ast.Attribute) and isinstance(n.ctx, (ast.Store, ast.Del)):
                tgt = n
            elif isinstance(n, ast.Subscript) and isinstance(n.ctx, (ast.Store, ast.Del)):
                tgt = n
            elif isinstance(n, ast.Global) or isinstance(n, ast.Nonlocal):
                ctx.ob("R15.1", f"{m.name}:global-state", False, loc(m.mod, n), f"`{u(n)}`: module-level state written by a loader method")
                continue
            elif isinstance(n, ast.Call) and isinstance(n.func, ast.Attribute) and n.func.attr in ("update", "append", "add", "setdefault", "clear", "extend", "insert", "pop", "remove", "discard"):
                recv = n.func.value
                # in-place mutation of something that is not a local and not a per-thread container entry
                root = recv
                while isinstance(root, (ast.Attribute, ast.Subscript)):
                    root = root.value
                if isinstance(root, ast.Name) and root.id in ("self", "cls", c.name, inst) and not _rooted_in_container(recv, containers):
                    ctx.ob("R15.1", f"{m.name}:shared-mutation:{u(recv)}", False, loc(m.mod, n),
                           f"`{u(n)}` mutates loader state that is not a per-thread entry")
                continue
            if tgt is None:
                continue
            root = tgt
            while isinstance(root, (ast.Attribute, ast.Subscript)):
                root = root.value
            if not (isinstance(root, ast.Name) and root.id in ("self", "cls", c.name, inst)):
                continue
            if _rooted_in_container(tgt, containers):
                continue  # judged by the own-key rule above
            ctx.ob("R15.1", f"{m.name}:instance-state:{u(tgt)}", False, loc(m.mod, tgt),
                   f"`{u(prog.enclosing_stmt(tgt))}` stores state on the shared loader object that is not keyed by thread")
    ctx.ob("R15.1", "no-unkeyed-state", True, c.loc(), "loader methods write no state outside the per-thread containers", trivial=True)

    # ------------------------------------------------------------------------------
    # R15.2 __exit__ post-condition
    # ------------------------------------------------------------------------------
    ex = c.methods["__exit__"]
    fl = flow(prog, ex)
    cfg = fl.cfg
    ctx.touched(ex)
    for cname in containers:
        removal_nodes = set()
        for n in removals_by_fn.get(ex.qual, {}).get(cname, []):
            nid = cfg.node_for(n)
            if nid is not None:
                removal_nodes.add(nid)
        # edges that prove absence: (own in C) False / (own not in C) True
        g = cfg.g.copy()
        g.remove_nodes_from(removal_nodes)
        for a, b, data in list(g.edges(data=True)):
            lab = data.get("label")
            if lab is None:
                continue
            atom, pol = lab
            if isinstance(atom, ast.Compare) and len(atom.ops) == 1 and isinstance(atom.ops[0], (ast.In, ast.NotIn)):
                tgt = strip_keys_call(atom.comparators[0])
                if container_of(tgt, containers, set()) == cname and own.is_own(atom.left, ex):
                    absent = (isinstance(atom.ops[0], ast.In) and pol is False) or (isinstance(atom.ops[0], ast.NotIn) and pol is True)
                    if absent:
                        g.remove_edge(a, b)
        import networkx as nx
        leak_normal = cfg.exit in g and nx.has_path(g, cfg.entry, cfg.exit)
        leak_raise = cfg.raise_exit in g and nx.has_path(g, cfg.entry, cfg.raise_exit)
        ctx.ob("R15.2", f"exit-clears:{cname}", not leak_normal and not leak_raise, ex.loc(),
               f"every path through __exit__ must leave the current thread's entry absent from {cname}"
               + (" (a path reaches the end without removing it)" if leak_normal else "")
               + (" (a raise is reachable before the removal)" if leak_raise else ""))
    # no store in __exit__
    ctx.ob("R15.2", "exit-no-store", not stores_by_fn.get(ex.qual), ex.loc(), "__exit__ must not store into the per-thread containers")
    for r in [n for n in prog.walk_fn(ex) if isinstance(n, ast.Return)]:
        v = r.value
        falsy = v is None or (isinstance(v, ast.Constant) and not v.value)
        ctx.ob("R15.2", "exit-does-not-swallow", falsy, loc(ex.mod, r), f"`{u(r)}`: __exit__ must not return a truthy value (it would swallow the body's exception)")
    ctx.ob("R15.2", "exit-signature", len(ex.params()) >= 4 or bool(ex.node.args.vararg), ex.loc(), "__exit__ accepts the exception triple", trivial=True)

    # ------------------------------------------------------------------------------
    # R15.3 validate-before-mutate in __call__ / __enter__
    # ------------------------------------------------------------------------------
    def may_raise_call(call: ast.Call, fn: Fn) -> Optional[str]:
        for cal in prog.resolve_call(call, fn):
            if isinstance(cal, Fn) and cal.cls is c and cal is not ident:
                for k in ast.walk(cal.node):
                    if isinstance(k, ast.Raise):
                        return f"{cal.name} contains `{u(k)}`"
                    if isinstance(k, ast.Call) and isinstance(k.func, ast.Name) and (k.func.id in ("int", "float") or prog.param_type(cal, k.func.id) is not None):
                        return f"{cal.name} converts with `{u(k)}` which can fail"
        return None

    for mname in ("__call__", "__enter__"):
        m = c.methods[mname]
        ctx.touched(m)
        mcfg = flow(prog, m).cfg
        store_nodes = {mcfg.node_for(s) for s in stores_by_fn.get(m.qual, [])} - {None}
        ctx.ob("R15.3", f"{mname}:has-store", True, m.loc(), f"{len(store_nodes)} store site(s) into per-thread state in {mname}", trivial=True)
        rejecting: list[tuple[int, str]] = []
        for cn in mcfg.stmt_nodes():
            if cn.kind == "stmt" and isinstance(cn.ast, ast.Raise):
                rejecting.append((cn.id, f"`{u(cn.ast)[:60]}`"))
            elif cn.ast is not None and cn.kind in ("stmt", "cond", "for"):
                roots = [cn.ast] if cn.kind != "for" else [cn.ast.iter]
                for root in roots:
                    for k in ast.walk(root):
                        if isinstance(k, ast.Call):
                            why = may_raise_call(k, m)
                            if why:
                                rejecting.append((cn.id, f"`{u(k)[:50]}` ({why})"))
        for rid, why in rejecting:
            bad = [s for s in store_nodes if s != rid and mcfg.reach(s, rid)]
            same_node_store_first = rid in store_nodes and False
            ctx.ob("R15.3", f"{mname}:store-then-reject", not bad, f"{m.mod.path}:{mcfg.nodes[rid].lineno}",
                   f"rejection {why} must not be reachable after a store into per-thread state"
                   + (f" (store at line {mcfg.nodes[bad[0]].lineno} precedes it)" if bad else ""))
        # a store and a failing conversion inside the same statement inside a loop is also store-then-reject
        for s in store_nodes:
            cn = mcfg.nodes[s]
            inner = [why for k in ast.walk(cn.ast) if isinstance(k, ast.Call) for why in [may_raise_call(k, m)] if why]
            in_loop = mcfg.reach(s, s)
            ctx.ob("R15.3", f"{mname}:store-in-loop-with-failing-conversion", not (inner and in_loop), f"{m.mod.path}:{cn.lineno}",
                   "a store executed once per key together with a conversion that can fail leaves earlier keys stored when a later one is rejected")

    # an open scope is never written into: __call__ stores overrides only once it knows that this thread has no scope open (a nested attempt is
    # refused by __enter__ too, but by then the outer scope's values would already be overwritten)
    call_m2 = c.methods["__call__"]
    cfl = flow(prog, call_m2)
    set_kinds = [nm for nm, kind in containers.items() if kind == "set"]
    for s_ in stores_by_fn.get(call_m2.qual, []):
        facts = set(cfl.facts_for(s_))
        guarded = any((not p_) and any(t_.endswith(f" in self.{sn}") or t_.endswith(f" in {inst}.{sn}") for sn in set_kinds) for t_, p_ in facts) \
            or any(p_ and any(f" not in self.{sn}" in t_ for sn in set_kinds) for t_, p_ in facts)
        ctx.ob("R15.3", "__call__:open-scope-is-not-written-into", guarded, loc(call_m2.mod, s_),
               f"`{u(prog.enclosing_stmt(s_))[:60]}` must be dominated by the test that this thread has no scope open (membership in the in-scope set is false)")

    # ------------------------------------------------------------------------------
    # R15.4 direct assignment refused
    # ------------------------------------------------------------------------------
    sa = c.methods.get("__setattr__")
    if not ctx.ob("R15.4", "setattr-defined", sa is not None, c.loc(), "the loader defines __setattr__ (otherwise an instance attribute would shadow __getattr__)"):
        pass
    else:
        ctx.touched(sa)
        scfg = flow(prog, sa)
        keyname = sa.params()[1] if len(sa.params()) > 1 else None
        delegs = []
        for n in prog.walk_fn(sa):
            if isinstance(n, ast.Call) and isinstance(n.func, ast.Attribute) and n.func.attr == "__setattr__":
                delegs.append(n)
            elif isinstance(n, ast.Subscript) and isinstance(n.ctx, ast.Store) and "__dict__" in u(n.value):
                delegs.append(n)
        ctx.ob("R15.4", "setattr-delegates", bool(delegs), sa.loc(), "__setattr__ delegates non-config names to the default implementation", trivial=True)
        for d in delegs:
            facts = scfg.facts_for(d)
            guarded = any(
                pol is True and _is_cfg_membership(txt, keyname, negative=True) or pol is False and _is_cfg_membership(txt, keyname, negative=False)
                for txt, pol in facts
            )
            ctx.ob("R15.4", "setattr-store-guarded", guarded, loc(sa.mod, d),
                   f"`{u(d)[:60]}` must be dominated by a proof that the name is not a configurable key")
        raises = [n for n in prog.walk_fn(sa) if isinstance(n, ast.Raise)]
        ctx.ob("R15.4", "setattr-raises", bool(raises) and all(_raises_config_exc(prog, r, sa) for r in raises), sa.loc(),
               "assignment of a configurable key raises the library's ConfigException")

    # ------------------------------------------------------------------------------
    # R15.5 coercion and unconditional store
    # ------------------------------------------------------------------------------
    pv = None
    for m in c.methods.values():
        if len(m.params()) >= 2 and any(isinstance(k, ast.Call) and isinstance(k.func, ast.Name) and k.func.id in m.params() for k in ast.walk(m.node)):
            pv = m
    if pv is None:
        raise AnalysisError("coercion function (method applying its `cast` parameter to the value) not found")
    call_m = c.methods["__call__"]
    kwarg = call_m.node.args.kwarg.arg if call_m.node.args.kwarg else None
    if kwarg is None:
        raise AnalysisError("__call__ has no **kwargs: cannot locate the overrides")

    def is_pv_call(e: ast.AST, fn: Fn, key_expr_text: Optional[str]) -> bool:
        if not (isinstance(e, ast.Call) and pv in prog.resolve_call(e, fn)):
            return False
        if len(e.args) < 2:
            return False
        # second argument: self.config[<key>][0]
        t = e.args[1]
        ok_type = (
            isinstance(t, ast.Subscript) and isinstance(t.value, ast.Subscript) and is_self_attr(t.value.value, "config")
            and prog.try_fold(t.slice, fn.mod, fn) == 0
            and (key_expr_text is None or u(t.value.slice) == key_expr_text)
        ) or (isinstance(t, ast.Name) and _bound_from_config_type(prog, fn, t.id))
        return ok_type

    def coerced(e: ast.AST, fn: Fn, depth=0) -> tuple[bool, bool]:
        """(all values coerced, unconditional) for an expression stored into the per-thread map."""
        if depth > 4:
            return False, False
        if isinstance(e, ast.Call) and pv in prog.resolve_call(e, fn):
            return is_pv_call(e, fn, None), True
        if isinstance(e, ast.DictComp):
            key_txt = u(e.key)
            over_kwargs = all(kwarg in u(g.iter) for g in e.generators)
            uncond = over_kwargs and not any(g.ifs for g in e.generators)
            return is_pv_call(e.value, fn, key_txt), uncond
        if isinstance(e, ast.Name):
            defs = prog.local_defs(fn, e.id)
            if defs and all(kind in ("assign", "annassign") for kind, _ in defs):
                rs = [coerced(node.value, fn, depth + 1) for _, node in defs]
                return all(r[0] for r in rs), all(r[1] for r in rs)
        return False, False

    n_stores = 0
    for s in stores_by_fn.get(call_m.qual, []):
        par = prog.parent(s)
        value = None
        uncond = True
        cm_cfg = flow(prog, call_m).cfg
        if isinstance(s, ast.Subscript) and isinstance(par, ast.Subscript) and isinstance(par.ctx, ast.Store):
            # C[own][key] = value
            st = prog.enclosing_stmt(par)
            value = st.value if isinstance(st, ast.Assign) else None
            # unconditional per iteration: every path from the loop header back to it passes this store
            nid = cm_cfg.node_for(par)
            loops = [n for n in cm_cfg.nodes.values() if n.kind == "for" and kwarg in u(n.ast.iter)]
            if loops and nid is not None:
                h = loops[0].id
                body_starts = [b for b in cm_cfg.g.successors(h) if cm_cfg.g[h][b].get("label") and cm_cfg.g[h][b]["label"][1] is True]
                uncond = not any(b != nid and (b == h or cm_cfg.reach(b, h, avoid=[nid])) for b in body_starts) if body_starts else False
            else:
                uncond = False
            ok_c, _ = coerced(value, call_m) if value is not None else (False, False)
            n_stores += 1
            ctx.ob("R15.5", "call:store-coerced", ok_c, loc(call_m.mod, par), f"`{u(st)[:70]}` must store parse_value(value, config[key][0])")
            ctx.ob("R15.5", "call:store-unconditional", uncond, loc(call_m.mod, par), "every provided key must be stored, whatever its value")
        elif isinstance(s, ast.Subscript) and isinstance(par, ast.Attribute) and par.attr == "update":
            call = prog.parent(par)
            value = call.args[0] if call.args else None
            ok_c, unc = coerced(value, call_m) if value is not None else (False, False)
            nid = cm_cfg.node_for(call)
            # the update itself must be on every normal path to the return
            on_all = nid is not None and not cm_cfg.reach(cm_cfg.entry, cm_cfg.exit, avoid=[nid])
            n_stores += 1
            ctx.ob("R15.5", "call:store-coerced", ok_c, loc(call_m.mod, call), f"`{u(call)[:70]}` must store values that went through parse_value(value, config[key][0])")
            ctx.ob("R15.5", "call:store-unconditional", unc and on_all, loc(call_m.mod, call), "every provided key must be stored, whatever its value")
        elif isinstance(s, ast.Subscript) and isinstance(s.ctx, ast.Store):
            st = prog.enclosing_stmt(s)
            v = st.value if isinstance(st, ast.Assign) else None
            # C[own] = {} (fresh entry) is fine; C[own] = <dict> must be coerced
            if isinstance(v, ast.Dict) and not v.keys or (isinstance(v, ast.Call) and u(v) == "dict()"):
                ctx.ob("R15.5", "call:fresh-entry", True, loc(call_m.mod, s), "creates the thread's empty override map", trivial=True)
            else:
                ok_c, unc = coerced(v, call_m) if v is not None else (False, False)
                n_stores += 1
                ctx.ob("R15.5", "call:store-coerced", ok_c, loc(call_m.mod, s), f"`{u(st)[:70]}` must store coerced values")
                ctx.ob("R15.5", "call:store-unconditional", unc, loc(call_m.mod, s), "every provided key must be stored, whatever its value")
    ctx.ob("R15.5", "call:stores-overrides", n_stores >= 1, call_m.loc(), "__call__ stores the provided overrides into the caller thread's map")

    # ------------------------------------------------------------------------------
    # R15.5 (reader) + R15.6 look-up order in __getattr__
    # ------------------------------------------------------------------------------
    ga = c.methods["__getattr__"]
    ctx.touched(ga)
    gfl = flow(prog, ga)
    gcfg = gfl.cfg
    item = ga.params()[1] if len(ga.params()) > 1 else None
    env_reads = [n for n in prog.walk_fn(ga) if isinstance(n, ast.Attribute) and u(n) == "os.environ"]
    ctx.ob("R15.6", "getattr:reads-environment", len(env_reads) >= 1, ga.loc(), "__getattr__ consults os.environ")
    thread_lookups = []
    for n in prog.walk_fn(ga):
        if container_of(n, containers, set()) and containers[n.attr] == "dict":
            thread_lookups.append(n)
    ctx.ob("R15.6", "getattr:reads-thread-map", len(thread_lookups) >= 1, ga.loc(), "__getattr__ consults the per-thread map")
    for e in env_reads:
        par = prog.parent(e)
        call = prog.parent(par) if isinstance(par, ast.Attribute) else None
        where = loc(ga.mod, e)
        facts = gfl.facts_for(e)
        # (a) unknown names never reach the environment
        known = any(pol and _is_cfg_membership(txt, item, negative=False) or (not pol) and _is_cfg_membership(txt, item, negative=True) for txt, pol in facts)
        ctx.ob("R15.6", "getattr:env-only-for-known-keys", known, where, "the environment is read only under `item in config`")
        # (b) the per-thread value is tested (by `is not None` / membership) and returned before
        nid = gcfg.node_for(e)
        tests = []
        for cn in gcfg.nodes.values():
            if cn.kind != "cond":
                continue
            txt = u(cn.ast)
            mentions_thread = any(container_of(k, containers, set()) for k in ast.walk(cn.ast))
            bound = set()
            for k in ast.walk(cn.ast):
                if isinstance(k, ast.Name):
                    defs = prog.local_defs(ga, k.id)
                    if any(kind in ("assign", "walrus") and any(container_of(x, containers, set()) for x in ast.walk(node.value)) for kind, node in defs):
                        bound.add(k.id)
            if mentions_thread or bound:
                tests.append(cn)
        ok_order = False
        presence_ok = False
        for t in tests:
            if nid is None or not gcfg.dominates(t.id, nid):
                continue
            # true branch returns the thread value; env read only on the false branch
            true_succ = [b for b in gcfg.g.successors(t.id) if gcfg.g[t.id][b].get("label") and gcfg.g[t.id][b]["label"][1] is True]
            returns_value = any(isinstance(gcfg.nodes[b].ast, ast.Return) and gcfg.nodes[b].ast.value is not None for b in true_succ)
            env_on_true = any(b == nid or gcfg.reach(b, nid) for b in true_succ)
            if returns_value and not env_on_true:
                ok_order = True
                a = t.ast
                # the tested value is the per-key look-up, and it is what the true branch returns
                tested = a.left if isinstance(a, ast.Compare) else a
                if isinstance(tested, ast.NamedExpr):
                    tested_name, tested_def = u(tested.target), tested.value
                elif isinstance(tested, ast.Name):
                    dd = [node.value for kind, node in prog.local_defs(ga, tested.id) if kind in ("assign", "walrus")]
                    tested_name, tested_def = tested.id, (dd[0] if len(dd) == 1 else None)
                else:
                    tested_name, tested_def = u(tested), tested
                by_item = tested_def is not None and any(
                    isinstance(k, ast.Call) and isinstance(k.func, ast.Attribute) and k.func.attr == "get" and k.args and isinstance(k.args[0], ast.Name) and k.args[0].id == item
                    or isinstance(k, ast.Subscript) and isinstance(k.slice, ast.Name) and k.slice.id == item
                    for k in ast.walk(tested_def)
                ) or (isinstance(a, ast.Compare) and isinstance(a.ops[0], ast.In) and isinstance(a.left, ast.Name) and a.left.id == item)
                ret_nodes = [gcfg.nodes[b].ast for b in true_succ if isinstance(gcfg.nodes[b].ast, ast.Return)]
                returns_tested = all(u(r.value) == tested_name or (isinstance(a, ast.Compare) and isinstance(a.ops[0], ast.In) and item in u(r.value)) for r in ret_nodes) and bool(ret_nodes)
                ctx.ob("R15.6", "getattr:test-is-on-the-key's-value", bool(by_item), f"{ga.mod.path}:{t.lineno}",
                       f"`{u(a)[:70]}`: the presence test must be on the value looked up for this key (a test on the thread's whole map hides the environment for every other key)")
                ctx.ob("R15.6", "getattr:returns-the-tested-value", returns_tested, f"{ga.mod.path}:{t.lineno}",
                       "the override returned is the very value whose presence was tested, as stored")
                presence_ok = (
                    isinstance(a, ast.Compare) and len(a.ops) == 1 and (
                        isinstance(a.ops[0], ast.IsNot) and isinstance(a.comparators[0], ast.Constant) and a.comparators[0].value is None
                        or isinstance(a.ops[0], ast.NotEq) and isinstance(a.comparators[0], ast.Constant) and a.comparators[0].value is None
                        or isinstance(a.ops[0], ast.In)
                    )
                )
        ctx.ob("R15.6", "getattr:thread-before-env", ok_order, where, "the per-thread override is returned before the environment is consulted")
        ctx.ob("R15.6", "getattr:presence-not-truthiness", presence_ok, where,
               "presence of an override is tested with `is not None` / membership (a truthiness test would drop overrides such as '' or False)")
        # (c) environment key = PREFIX + item, fallback = declared default, result coerced with declared type
        envget = call if (call is not None and isinstance(par, ast.Attribute) and par.attr == "get") else None
        if envget is None:
            gp = prog.parent(e)
            ctx.ob("R15.6", "getattr:env-get-with-default", False, where, f"`{u(gp)}`: expected os.environ.get(PREFIX + item, default)")
            continue
        karg = envget.args[0] if envget.args else None
        key_ok = isinstance(karg, ast.BinOp) and isinstance(karg.op, ast.Add) and prog.try_fold(karg.left, ga.mod, ga) == "SQLLINEAGE_" and isinstance(karg.right, ast.Name) and karg.right.id == item
        if not key_ok and isinstance(karg, ast.JoinedStr):
            key_ok = u(karg) in (f"f'SQLLINEAGE_{{{item}}}'",)
        ctx.ob("R15.6", "getattr:env-key", key_ok, where, f"`{u(envget)[:70]}`: the environment variable is SQLLINEAGE_<key>")
        darg = envget.args[1] if len(envget.args) > 1 else None
        d_ok = darg is not None and _bound_from_config_default(prog, ga, darg, item)
        ctx.ob("R15.6", "getattr:env-default", d_ok, where, "the fallback of the environment look-up is the key's declared default")
        outer = prog.parent(envget)
        coerced_env = isinstance(outer, ast.Call) and pv in prog.resolve_call(outer, ga) and len(outer.args) >= 2 and (
            isinstance(outer.args[1], ast.Name) and _bound_from_config_type(prog, ga, outer.args[1].id, item)
            or u(outer.args[1]) == f"self.config[{item}][0]"
        )
        ctx.ob("R15.5", "getattr:env-coerced", coerced_env, where, "the environment / default value is coerced with the key's declared type")
        if coerced_env:
            st = prog.enclosing_stmt(outer)
            ctx.ob("R15.5", "getattr:env-returned", isinstance(st, ast.Return) and st.value is outer, where, "the coerced value is what is returned", trivial=True)

    # coercion function keeps its contract: bool parsing + cast(value)
    ctx.touched(pv)
    cast_calls = [k for k in ast.walk(pv.node) if isinstance(k, ast.Call) and isinstance(k.func, ast.Name) and k.func.id in pv.params()]
    rets = [r for r in ast.walk(pv.node) if isinstance(r, ast.Return)]
    ctx.ob("R15.5", "parse_value:applies-cast", bool(cast_calls) and all(r.value is not None for r in rets), pv.loc(),
           "the coercion function applies the declared type and returns the result")
    # ... on every path: the value parameter as it came in is never what is returned (a shortcut for values that "need no parsing" hands
    # back 1 for a flag, an int for a schema name)
    from ..cfg import flow as _flow15

    pcfg = _flow15(prog, pv).cfg
    vparam = next((p_ for p_ in pv.params() if p_ not in ("self", "cls")), None)
    for r in [r_ for r_ in prog.walk_fn(pv) if isinstance(r_, ast.Return) and r_.value is not None]:
        # the returned value may be the parameter itself (directly or through locals), not merely computed from it
        raw_names = [v for v in prog.value_sources(pv, r.value) if isinstance(v, ast.Name) and v.id == vparam]
        unconverted = False
        if raw_names:
            rn = pcfg.node_for(r)
            dnodes = {pcfg.node_for(dn) for _k, dn in prog.local_defs(pv, vparam)}
            unconverted = rn is not None and None not in dnodes and pcfg.reach(pcfg.entry, rn, avoid=dnodes)
        ctx.ob("R15.5", "parse_value:no-path-returns-the-value-as-it-came", not unconverted, loc(pv.mod, r),
               f"`{u(r)[:50]}`: " + ("some path reaches this return without converting the value" if unconverted else "every path to this return has converted the value"))

    # ---- R15.7 the analysis stays in the thread that asked for it: scoped overrides are looked up under the calling thread's id, so work handed
    # to a pool or a new thread runs without them (and a forked process keeps a stale copy)
    _WORKERS = {"ThreadPoolExecutor", "ProcessPoolExecutor", "Thread", "Timer", "Pool", "ThreadPool", "Process", "to_thread", "run_in_executor", "start_new_thread"}
    n_workers = 0
    for f in prog.funcs.values():
        for n in prog.walk_fn(f):
            nm = n.id if isinstance(n, ast.Name) else n.attr if isinstance(n, ast.Attribute) else None
            if nm in _WORKERS and isinstance(getattr(n, "ctx", None), ast.Load):
                n_workers += 1
                ctx.ob("R15.7", f"no-worker-threads:{f.owner}:{nm}", False, loc(f.mod, n),
                       f"`{u(n)}` moves work to another thread or process: the scoped configuration of the caller (default schema, flags) is not visible there")
    ctx.ob("R15.7", "no-worker-threads:scanned", True, "sqllineage/", f"{n_workers} use(s) of thread / process pools found in the package", trivial=True)

    # ---- R15.8 __enter__ marks the thread only under "not marked yet" (else it refuses): a second scope on the same thread would otherwise end
    # the first one's settings when it exits.  __exit__ clears before anything that can fail (formatting the exception it was left by ...)
    ent, exi = c.methods.get("__enter__"), c.methods.get("__exit__")
    if ent is None or exi is None:
        raise AnalysisError("__enter__ / __exit__ of the configuration loader not found")
    ctx.touched(ent, exi)
    from ..cfg import flow as _flow15b
    efl = _flow15b(prog, ent)
    for k in [x for x in prog.walk_fn(ent) if isinstance(x, ast.Call) and isinstance(x.func, ast.Attribute) and x.func.attr == "add" and is_self_attr(x.func.value)]:
        st_attr = x_attr = k.func.value.attr
        guarded = any((" not in " in t and t.endswith(f"self.{st_attr}") and p) or (" in " in t and " not in " not in t and t.endswith(f"self.{st_attr}") and not p) for t, p in efl.facts_for(k))
        ctx.ob("R15.8", f"enter:marks-only-an-unmarked-thread:{st_attr}", guarded, loc(ent.mod, k), f"`{u(k)[:60]}` " + ("runs only when the thread is not in a scope yet" if guarded else "runs whether or not the thread is already in a scope"))
    cleanup_seen = False
    for st in exi.node.body:
        if isinstance(st, ast.Expr) and isinstance(st.value, ast.Constant):
            continue
        does_cleanup = any(isinstance(x, ast.Call) and isinstance(x.func, ast.Attribute) and x.func.attr in ("pop", "remove", "discard", "clear") and is_self_attr(x.func.value) for x in ast.walk(st)) or any(
            isinstance(x, ast.Delete) for x in ast.walk(st))
        if does_cleanup:
            cleanup_seen = True
            continue
        if cleanup_seen:
            break
        risky = [x for x in ast.walk(st) if (isinstance(x, ast.Subscript) and isinstance(x.ctx, ast.Load)) or (isinstance(x, ast.Call) and not (isinstance(x.func, ast.Attribute) and is_self_attr(x.func.value) is False and u(x.func).startswith("self.get_")))
                 or (isinstance(x, ast.Attribute) and isinstance(x.ctx, ast.Load) and isinstance(x.value, ast.Name) and x.value.id in exi.params()[1:])]
        risky = [x for x in risky if not (isinstance(x, ast.Call) and u(x.func) in ("self.get_ident", "threading.get_ident"))]
        ctx.ob("R15.8", "exit:nothing-that-can-fail-before-the-clean-up", not risky, loc(exi.mod, st),
               f"`{u(st)[:60]}` precedes the clean-up" + (f" and evaluates `{u(risky[0])[:40]}`, which can raise: the overrides and the in-scope mark then stay behind" if risky else " and cannot fail"))

    # ---- R15.9 (= R12.2, memoising decorators on the loader's functions): a value read back inside a scope is the value that scope was given, coerced
    # to the key's type - not what an equal value of another type (1 / True / 1.0 are one memo key) was coerced to earlier, by any thread
    from .common import import_rules as _imp15

    _imp15(ctx, "C12", {"R12.2": "R15.9"}, key_filter=lambda o: o.key.startswith("memoised") and (o.loc.split(":")[0].endswith(c.mod.path.split("/")[-1])))


def _rooted_in_container(e: ast.AST, containers: dict[str, str]) -> bool:
    n = e
    while isinstance(n, (ast.Attribute, ast.Subscript)):
        if isinstance(n, ast.Attribute) and n.attr in containers and isinstance(n.value, ast.Name):
            return True
        n = n.value
    return False


def _is_cfg_membership(txt: str, keyname: Optional[str], negative: bool) -> bool:
    try:
        e = ast.parse(txt, mode="eval").body
    except SyntaxError:
        return False
    if not (isinstance(e, ast.Compare) and len(e.ops) == 1):
        return False
    op = e.ops[0]
    if negative and not isinstance(op, ast.NotIn) or not negative and not isinstance(op, ast.In):
        return False
    tgt = strip_keys_call(e.comparators[0])
    return isinstance(e.left, ast.Name) and (keyname is None or e.left.id == keyname) and is_self_attr(tgt, "config")


def _raises_config_exc(prog: Prog, r: ast.Raise, fn: Fn) -> bool:
    if r.exc is None:
        return False
    target = r.exc.func if isinstance(r.exc, ast.Call) else r.exc
    sym = prog.resolve_expr(target, fn.mod, fn)
    if sym[0] != "class":
        return False
    base = prog.try_cls("exceptions.SQLLineageException")
    return base is not None and prog.is_subclass(prog.classes[sym[1]], base)


def _bound_from_config_type(prog: Prog, fn: Fn, name: str, item: Optional[str] = None) -> bool:
    """`name` is bound by `name, default = self.config[item]` (position 0) or `name = self.config[item][0]`."""
    for kind, node in prog.local_defs(fn, name):
        if kind == "unpack:0" and isinstance(node, ast.Assign) and isinstance(node.value, ast.Subscript) and is_self_attr(node.value.value, "config"):
            if item is None or u(node.value.slice) == item:
                return True
        if kind == "assign" and u(node.value).startswith("self.config[") and u(node.value).endswith("][0]"):
            return True
    return False


def _bound_from_config_default(prog: Prog, fn: Fn, e: ast.AST, item: Optional[str]) -> bool:
    if isinstance(e, ast.Name):
        for kind, node in prog.local_defs(fn, e.id):
            if kind == "unpack:1" and isinstance(node, ast.Assign) and isinstance(node.value, ast.Subscript) and is_self_attr(node.value.value, "config"):
                return item is None or u(node.value.slice) == item
            if kind == "assign" and u(node.value) == f"self.config[{item}][1]":
                return True
        return False
    return u(e) == f"self.config[{item}][1]"
