"""C16 - identifiers denote the same entity wherever they appear (DESIGN.md C16, rules R16.1-R16.4)."""

from __future__ import annotations

import ast
from typing import Optional

from ..astutil import u
from ..identity import identities
from ..model import AnalysisError, Cls, Fn, Prog, loc
from ..normform import N1, N2, RAW, NormForm
from ..report import Ctx
from . import scope

EXPLANATION = (
    "Static analysis of identifier normalisation. Decides: R16.1 equal entities hash equally - for each model class the fields __hash__ "
    "depends on are a subset of the fields __eq__ compares (identity rule I1, from the method bodies), __eq__ is a conjunction of projection "
    "equalities guarded by isinstance; R16.2 each identifier is normalised exactly once between SQL text and a model field or look-up key: "
    "an abstract interpretation over {RAW, N1, N2, PROV, CONST} (the normaliser is not idempotent on quoted mixed-case names) evaluates "
    "the name argument of every model constructor call and the argument of every normaliser application; an already-normalised input is "
    "a violation (known findings, one key per constructor x origin x site); R16.3 the normaliser keeps its contract shape: quote detection by "
    "containment of a quote character, quotes stripped and case kept; square brackets stripped; everything else lower-cased; R16.4 a dotted "
    "name splits at its last dot (rsplit('.', 1) / backward scan) with the part limit, and the scope map offers bare, qualified and alias keys "
    "(shared with C02/C08); R16.5 the parts of a dotted reference are read from the parse tree, never by splitting its text at '.' (a quoted identifier may hold a dot; only `t.*` is split textually); R16.6 each part of a dotted qualifier is normalised on its own (= R07.3). Does not decide: dialect-specific quoting rules."
    " R16.7 (= R02.2, implicit aliases) and R16.8 (= R08.2) are shared clauses. The summaries of the normal-form analysis (state of a parameter over all call sites, state of a return value) are least fixed points, so verdicts do not depend on the order of evaluation; sqlfluff's raw_normalized() counts as one normalisation."
    ' R16.2 sites of one function are told apart by the origin of the argument; R16.10 a local set / dictionary of names that is searched holds one spelling state and is searched with keys of that state.'
)
RULE_TEXT = "R16.1: per model class; R16.2: per constructor name-argument and per normaliser application (semantic key ctor(param)<-state@function); others per site"


ALLOW = {
    "Table(name)<-N1@SelectExtractor.extract": "the argument is a string literal holding an identifier: the first application removes the literal's quotes, "
                                                              "the constructor's application then normalises the identifier inside (needed, not redundant)",
    "Table(name)<-N1@SwapPartitionHandler.handle": "same string-literal-holding-an-identifier case in the sqlparse handler",
}


def rules(ctx: Ctx) -> None:
    prog = ctx.prog
    ids = identities(prog)
    # ---- R16.1 -----------------------------------------------------------------------------
    for name, i in ids.items():
        ctx.touched(i.eq_fn, i.hash_fn)
        ctx.ob("R16.1", f"hash-determined-by-eq:{name}", i.hash_fields <= i.eq_fields and all(hp in i.eq_projs for hp in i.hash_projs), i.cls.loc(),
               f"{name}: __hash__ depends on {sorted(i.hash_fields)}, __eq__ compares {sorted(i.eq_fields)}: whatever is hashed must be determined by what is compared")
        ctx.ob("R16.1", f"eq-guards-class:{name}", i.eq_isinstance == name, i.cls.loc(), f"{name}.__eq__ compares only with instances of {name} (isinstance guard is {i.eq_isinstance})")
        ctx.ob("R16.1", f"eq-compares-something:{name}", bool(i.eq_projs), i.cls.loc(), f"{name}.__eq__ compares {i.eq_projs}", trivial=True)
    # name-based identity: Schema / Table compare their printed (normalised) name
    for name in ("Schema", "Table"):
        i = ids[name]
        ctx.ob("R16.1", f"identity-is-the-normalised-name:{name}", "raw_name" in i.eq_fields, i.cls.loc(), f"{name} identity includes its normalised name field")

    # ---- R16.2 -----------------------------------------------------------------------------
    nf = NormForm(prog)
    if nf.norm is None:
        raise AnalysisError("normaliser escape_identifier_name not found")
    n_sites = 0
    _dups: dict[str, list] = {}
    for f in prog.funcs.values():
        owner = f.owner
        for n in prog.walk_fn(f):
            if not isinstance(n, ast.Call):
                continue
            # (a) model constructor name arguments
            if isinstance(n.func, (ast.Name, ast.Attribute)):
                t = prog.infer(n.func, f)
                hit = [a.name for a in t.alts() if a.kind == "cls" and a.name in nf.model_quals]
                if hit:
                    cname = hit[0].rsplit(".", 1)[1]
                    base = next((b for q, b in nf.models.items() if prog.is_subclass(prog.classes[hit[0]], prog.classes[q])), cname)
                    args: list[tuple[str, ast.AST, bool]] = []
                    if base == "SubQuery":
                        if len(n.args) > 2:
                            args.append(("alias", n.args[2], False))
                    elif n.args:
                        args.append(("name", n.args[0], False))
                    for kw in n.keywords:
                        if kw.arg == "source_columns":
                            args.append(("source_columns", kw.value, True))
                        elif kw.arg in ("alias", "name", "uri"):
                            args.append((kw.arg, kw.value, False))
                    in_model_ctor = f.name == "__init__" and f.cls is not None and f.cls.qual in nf.model_quals
                    for pn, a, is_elems in args:
                        st = nf.query_elems(a, f) if is_elems else nf.query(a, f)
                        if in_model_ctor:
                            # values derived from the constructor's own parameters are judged at its call sites
                            st = _own_default_states(nf, prog, a, f)
                        n_sites += 1
                        bad = sorted(st & {N1, N2})
                        ctx.touched(f)
                        akey = f"{base}({pn})<-{'+'.join(bad)}@{owner}"
                        if bad and akey in ALLOW and isinstance(a, ast.Call) and nf.is_norm_call(a, f):
                            ctx.allow("R16.2", akey, loc(f.mod, n), f"`{u(n)[:70]}`", ALLOW[akey])
                            continue
                        if bad:
                            _dups.setdefault((akey), []).append((len(ctx.obligations), f, a))
                        ctx.ob("R16.2", f"{base}({pn})<-{'+'.join(bad) if bad else 'ok'}@{owner}" if bad else f"{base}({pn})@{owner}", not bad, loc(f.mod, n),
                               f"`{u(n)[:70]}`: the constructor normalises `{pn}` itself; the argument `{u(a)[:40]}` is already normalised ({sorted(st)}), so a quoted mixed-case "
                               f"name is lower-cased on the second pass" if bad else f"`{u(n)[:60]}`: `{pn}` arrives un-normalised ({sorted(st)})", trivial=not bad and st <= {"CONST", "?"})
            # (b) normaliser applications (inside constructors and elsewhere)
            if nf.is_norm_call(n, f) and n.args:
                # arguments of constructor calls were judged above; here judge applications whose input is already normalised
                par = prog.parent(n)
                if isinstance(par, ast.Call) and n in par.args and isinstance(par.func, (ast.Name, ast.Attribute)):
                    pt = prog.infer(par.func, f)
                    if any(a.kind == "cls" and a.name in nf.model_quals for a in pt.alts()):
                        continue
                st = nf.query(n.args[0], f)
                if f.name == "__init__" and f.cls is not None and f.cls.qual in nf.model_quals:
                    # inside a constructor only the constructor's own defaults are judged (the parameters are judged at the call sites)
                    st = _own_default_states(nf, prog, n.args[0], f)
                n_sites += 1
                bad = sorted(st & {N1, N2})
                st_ = prog.enclosing_stmt(n)
                fld = next((t.attr for t in (st_.targets if isinstance(st_, ast.Assign) else []) if isinstance(t, ast.Attribute)), None)
                what = f"->{fld}" if fld else ""
                ctx.ob("R16.2", f"normalise{what}<-{'+'.join(bad)}@{owner}" if bad else f"normalise{what}@{owner}:{n.lineno - f.lineno}", not bad, loc(f.mod, n),
                       f"`{u(n)[:70]}` normalises a value that is already normalised ({sorted(st)})" if bad else f"`{u(n)[:60]}` normalises {sorted(st)}", trivial=not bad)
    # several failing sites of one function with one key are told apart by where the argument comes from (a known finding names one site, not the function)
    from dataclasses import replace as _replace
    from ..canon import canon as _canon
    for akey, sites in _dups.items():
        srcs = []
        for i_ob, f_, a_ in sites:
            try:
                srcs.append(_canon(prog, f_, a_)[:60])
            except Exception:  # noqa
                srcs.append(u(a_)[:60])
        if len(set(srcs)) > 1:
            for (i_ob, f_, a_), src in zip(sites, srcs):
                ctx.obligations[i_ob] = _replace(ctx.obligations[i_ob], key=f"{akey}:{src}")
    ctx.floor("constructor name-arguments and normaliser applications judged", n_sites, 41)

    # every name field of a model object is written through the normaliser (a position that skips it denotes another entity
    # for upper-case / quoted spellings, e.g. a configured default schema)
    for q, mname in nf.models.items():
        init = prog.classes[q].methods.get("__init__")
        if init is None:
            continue
        ctx.touched(init)
        for n in prog.walk_fn(init):
            if isinstance(n, ast.Assign) and any(isinstance(t, ast.Attribute) and isinstance(t.value, ast.Name) and t.value.id == "self" and t.attr in ("raw_name", "alias", "uri") for t in n.targets):
                fld = next(t.attr for t in n.targets if isinstance(t, ast.Attribute))
                vals = [n.value.body, n.value.orelse] if isinstance(n.value, ast.IfExp) else [n.value]
                ok = all(nf.is_norm_call(v, init) or (isinstance(v, ast.JoinedStr) and "subquery_" in u(v)) for v in vals)
                ctx.ob("R16.2", f"field-written-through-normaliser:{mname}.{fld}", ok, loc(init.mod, n),
                       f"`{u(n)[:70]}`: every spelling that reaches {mname}.{fld} must pass the normaliser, whatever branch supplies it")

    # ---- R16.3 the normaliser's contract shape -----------------------------------------------
    N = nf.norm
    ctx.touched(N)
    pname = N.params()[0]
    from ..cfg import flow
    fl = flow(prog, N)
    rets = [r for r in prog.walk_fn(N) if isinstance(r, ast.Return) and r.value is not None]
    lower_default = [r for r in rets if isinstance(r.value, ast.Call) and isinstance(r.value.func, ast.Attribute) and r.value.func.attr == "lower" and u(r.value.func.value) == pname]
    if not lower_default:
        ctx.ob("R16.3", "normaliser:unquoted-names-are-lower-cased", False, N.loc(),
               f"no path of the normaliser returns `{pname}.lower()`: an unquoted name must be folded with str.lower (what every other place that compares names "
               "case-insensitively uses); returns are " + ", ".join(f"`{u(r.value)[:40]}`" for r in rets[:4]))
        raise AnalysisError("normaliser: no `return name.lower()` default branch found; refusing to judge an unknown shape")
    quote_consts = None
    # the quote characters: a literal collection of strings the normaliser iterates over (directly, through a local or a named constant)
    for n in prog.walk_fn(N):
        if isinstance(n, (ast.For, ast.comprehension)):
            for src in prog.value_sources(N, n.iter):
                v = prog.try_fold(src, N.mod, N) if isinstance(src, (ast.List, ast.Tuple, ast.Set, ast.Name, ast.Attribute)) else None
                if isinstance(v, (list, tuple, set, frozenset)) and set(v) & {'"', "`"}:
                    quote_consts = (None, (quote_consts[1] if quote_consts else set(v)) & set(v))
    # ... or spelled out one by one: `'"' in name or '`' in name ...`
    direct = {prog.try_fold(k.left, N.mod, N) for k in prog.walk_fn(N) if isinstance(k, ast.Compare) and len(k.ops) == 1 and isinstance(k.ops[0], ast.In) and u(k.comparators[0]) == pname}
    direct = {c for c in direct if isinstance(c, str) and len(c) == 1}
    if direct & {'"', "`"}:
        quote_consts = (None, (quote_consts[1] if quote_consts else set()) | direct)
    ctx.ob("R16.3", "quote-characters", quote_consts is not None and {'"', "`"} <= quote_consts[1], N.loc(),
           f"the normaliser knows double quotes and backticks as quote characters ({sorted(quote_consts[1]) if quote_consts else None})")
    # quoted branch: some return that does not lower-case, reached under a containment test `q in name`
    keep_case = [r for r in rets if r not in lower_default and "lower" not in u(r.value)]
    containment = False
    positional = False
    from ..astutil import controlling_atoms
    for r in keep_case:
        for e in controlling_atoms(prog.parents, r):
            t = u(e)
            for k in ast.walk(e):
                if isinstance(k, ast.Compare) and len(k.ops) == 1 and isinstance(k.ops[0], ast.In) and u(k.comparators[0]) == pname:
                    containment = True
                if isinstance(k, ast.Subscript) and u(k.value) == pname:
                    positional = True  # a test on name[0] / name[-1]: matching first / last characters
    ctx.ob("R16.3", "quoted-names-detected-by-containment", containment and not positional, N.loc(),
           "a name is treated as quoted when a quote character occurs anywhere in it (a dotted name inside one pair of quotes is split before it is normalised, so each part "
           "carries only one quote): the quoted branch must be guarded by `q in name`, not by matching first/last characters")
    strips = [k for r in keep_case for k in ast.walk(N.node) if isinstance(k, ast.Call) and isinstance(k.func, ast.Attribute) and k.func.attr == "strip"]
    ctx.ob("R16.3", "quotes-stripped-case-kept", bool(keep_case) and bool(strips), N.loc(), "quoted names lose their quote characters and keep their case")
    brackets = [r for r in keep_case if "[]" in u(r.value) or any("startswith('[')" in u(e) for e in controlling_atoms(prog.parents, r))]
    ctx.ob("R16.3", "square-brackets-stripped", bool(brackets), N.loc(), "square-bracket quoted names lose the brackets and keep their case")
    ctx.ob("R16.3", "unquoted-lower-cased", len(lower_default) >= 1 and all(any(not p for t, p in fl.facts_for(r)) for r in lower_default), N.loc(),
           "everything else is lower-cased (reached only when neither quoting test held)")

    # ---- R16.4 last-dot split and scope map keys -------------------------------------------------
    T = prog.cls("core.models.Table")
    tinit = T.methods["__init__"]
    ctx.touched(tinit)
    splits = [k for k in prog.walk_fn(tinit) if isinstance(k, ast.Call) and isinstance(k.func, ast.Attribute) and k.func.attr in ("rsplit", "split", "partition", "rpartition") and u(k.func.value) == tinit.params()[1]]
    ok_split = len(splits) == 1 and splits[0].func.attr == "rsplit" and len(splits[0].args) == 2 and prog.try_fold(splits[0].args[0], tinit.mod, tinit) == "." and prog.try_fold(splits[0].args[1], tinit.mod, tinit) == 1
    ctx.ob("R16.4", "table-name-splits-at-last-dot", ok_split, tinit.loc(), "a dotted table name splits into (qualifier, table) at its last dot: name.rsplit('.', 1)")
    limit = any(isinstance(k, ast.Raise) for k in prog.walk_fn(tinit))
    ctx.ob("R16.4", "qualifier-part-limit", limit, tinit.loc(), "a qualifier with more than two parts is rejected with the library's exception", trivial=True)
    for fq in ("parser.sqlfluff.models.SqlFluffTable.of",):
        f = prog.fn(fq)
        ctx.touched(f)
        rng = [k for k in prog.walk_fn(f) if isinstance(k, ast.Call) and isinstance(k.func, ast.Name) and k.func.id == "range" and len(k.args) == 3]
        back_rngs = [k for k in rng if prog.try_fold(k.args[2], f.mod, f) == -1]
        # reversed(range(n)) is the same backward scan
        back_rngs += [k for k in prog.walk_fn(f) if isinstance(k, ast.Call) and isinstance(k.func, ast.Name) and k.func.id == "range" and len(k.args) in (1, 2)
                      and isinstance(prog.parent(k), ast.Call) and isinstance(prog.parent(k).func, ast.Name) and prog.parent(k).func.id == "reversed"]
        # the first hit of the backward scan is taken: a loop that breaks, or next() over a generator
        first_hit = any(isinstance(k, ast.Break) for k in prog.walk_fn(f)) or any(
            isinstance(a, ast.Call) and isinstance(a.func, ast.Name) and a.func.id == "next" for k in back_rngs for a in prog.ancestors(k))
        backward = bool(back_rngs) and first_hit
        ctx.ob("R16.4", "factory-scans-for-the-last-dot", backward, f.loc(), "the sqlfluff table factory scans the reference's segments backwards and stops at the first (= last) dot")
    scope.scope_map_rules(ctx, "R16.4")
    # ---- R16.5 / R16.6 ------------------------------------------------------------------------------
    reference_parts_rule(ctx, "R16.5")
    from .common import import_rules

    import_rules(ctx, "C07", {"R07.3": "R16.6"})  # each part of a dotted qualifier is normalised on its own (= R07.3)

    # ---- R16.7 (= R02.2, implicit aliases): an un-aliased table enters the alias map under its own name normalised once more, so a quoted
    # mixed-case relation answers to the lower-case qualifier as well; which relation wins then depends on the merge order of the scope map
    from .common import import_rules as _imp16

    _imp16(ctx, "C02", {"R02.2": "R16.7"}, key_filter=lambda o: "implicit-alias-competes" in o.key)

    # ---- R16.8 (= R08.2): look-up keys among CTE aliases are normalised exactly once
    _imp16(ctx, "C08", {"R08.2": "R16.8"})

    # ---- R16.9 (= R02.11): the qualifier of a dotted column reference is the part next to the column
    _imp16(ctx, "C02", {"R02.11": "R16.9"})

    # ---- R16.10 a name is looked up among names of its own kind: a local set / dictionary of names that is searched (`k in C`, `C.get(k)`, `C[k]`)
    # holds names in ONE spelling state, and the key searched for is in that state too.  A qualifier as written (`T`, `"t"`) is not found among
    # normalised names (`t`), and a container filled with both raw and normalised spellings answers differently for `t` and `T`.
    n_lookups = 0
    for f in prog.funcs.values():
        if not (f.mod.name.startswith("sqllineage.core.parser") or f.mod.name == "sqllineage.core.holders"):
            continue
        conts: dict[str, list[ast.AST]] = {}
        for k in prog.walk_fn(f):
            if isinstance(k, (ast.Assign, ast.AnnAssign)) and getattr(k, "value", None) is not None:
                tg = k.targets if isinstance(k, ast.Assign) else [k.target]
                for t in tg:
                    if isinstance(t, ast.Name):
                        v = k.value
                        keys = list(v.keys) if isinstance(v, ast.Dict) else list(v.elts) if isinstance(v, (ast.Set, ast.List, ast.Tuple)) else [v.key] if isinstance(v, ast.DictComp) else [v.elt] if isinstance(v, (ast.SetComp, ast.ListComp)) else None
                        if keys is None and isinstance(v, ast.Call) and isinstance(v.func, ast.Name) and v.func.id in ("set", "dict", "list") and not v.args:
                            keys = []
                        if keys is not None:
                            conts.setdefault(t.id, []).extend(x for x in keys if x is not None)
                    elif isinstance(t, ast.Subscript) and isinstance(t.value, ast.Name):
                        conts.setdefault(t.value.id, []).append(t.slice)
            elif isinstance(k, ast.Call) and isinstance(k.func, ast.Attribute) and isinstance(k.func.value, ast.Name) and k.func.attr in ("add", "append", "setdefault") and k.args:
                conts.setdefault(k.func.value.id, []).append(k.args[0])
            elif isinstance(k, ast.Call) and isinstance(k.func, ast.Attribute) and isinstance(k.func.value, ast.Name) and k.func.attr == "update" and k.args and isinstance(k.args[0], (ast.Set, ast.Dict, ast.List)):
                conts.setdefault(k.func.value.id, []).extend(x for x in (k.args[0].keys if isinstance(k.args[0], ast.Dict) else k.args[0].elts) if x is not None)
        conts = {c_: ks for c_, ks in conts.items() if ks and prog.local_defs(f, c_)}
        if not conts:
            continue
        cstate = {c_: set().union(*[nf.query(x, f) for x in ks]) for c_, ks in conts.items()}
        for k in prog.walk_fn(f):
            key = cname = None
            if isinstance(k, ast.Compare) and len(k.ops) == 1 and isinstance(k.ops[0], (ast.In, ast.NotIn)) and isinstance(k.comparators[0], ast.Name) and k.comparators[0].id in conts:
                key, cname = k.left, k.comparators[0].id
            elif isinstance(k, ast.Call) and isinstance(k.func, ast.Attribute) and k.func.attr in ("get", "pop") and isinstance(k.func.value, ast.Name) and k.func.value.id in conts and k.args:
                key, cname = k.args[0], k.func.value.id
            elif isinstance(k, ast.Subscript) and isinstance(k.ctx, ast.Load) and isinstance(k.value, ast.Name) and k.value.id in conts:
                key, cname = k.slice, k.value.id
            if key is None:
                continue
            ks, cs = nf.query(key, f), cstate[cname]
            named = (ks | cs) & {RAW, N1, N2}
            if not named:
                continue
            n_lookups += 1
            ctx.touched(f)
            mixed = RAW in cs and cs & {N1, N2}
            mismatch = (RAW in ks and not ks & {N1, N2} and cs & {N1, N2} and RAW not in cs) or (ks & {N1, N2} and RAW not in ks and RAW in cs and not cs & {N1, N2})
            ctx.ob("R16.10", f"looked-up-among-names-of-its-own-kind:{f.owner}:{cname}", not mixed and not mismatch, loc(f.mod, k),
                   f"`{u(k)[:60]}`: key is {sorted(ks)}, the names in `{cname}` are {sorted(cs)}" + (
                       " - raw and normalised spellings in one container" if mixed else " - a name as written is searched among normalised names (or the reverse): "
                       "an upper-case or quoted spelling of the same identifier is not found" if mismatch else ""))
    ctx.extra["name_lookups_in_local_containers"] = n_lookups


def reference_parts_rule(ctx: Ctx, rule: str) -> None:
    """The parts of a dotted reference come from the parse tree (identifier children), never from splitting its text at '.': a quoted
    identifier may contain a dot.  Only a wildcard (`t.*`), which has no identifier children of its own, may be split textually."""
    prog = ctx.prog
    from ..cfg import controlling_facts, flow as _flow

    n_sites = 0
    for f in prog.funcs.values():
        if not f.mod.name.startswith("sqllineage.core.parser.sqlfluff"):
            continue
        for k in prog.walk_fn(f):
            if not (isinstance(k, ast.Call) and isinstance(k.func, ast.Attribute) and k.func.attr in ("split", "rsplit", "partition", "rpartition") and k.args and prog.try_fold(k.args[0], f.mod, f) == "."):
                continue
            recv = k.func.value
            srcs = prog.value_sources(f, recv)
            raw_of = [s_ for s_ in srcs if isinstance(s_, ast.Attribute) and s_.attr == "raw"]
            if not raw_of:
                continue
            n_sites += 1
            seg = u(raw_of[0].value)
            facts = set(_flow(prog, f).facts_for(k)) | set(controlling_facts(prog.parents, k))
            wildcard_only = any(p and t == f"is_wildcard({seg})" for t, p in facts)
            owner = f"{f.cls.name}.{f.name}" if f.cls else f.name
            ctx.ob(rule, f"reference-parts-from-the-parse-tree:{owner}", wildcard_only, loc(f.mod, k),
                   f"`{u(k)}` splits the text of a segment at '.'; unless the segment is known to be a wildcard its parts must be read from its identifier children "
                   f"(`\"a.b\"` is one identifier)")
    ctx.floor("text splits of segment text at '.'", n_sites, 1)


def _own_default_states(nf: NormForm, prog: Prog, arg: ast.AST, init: Fn) -> set[str]:
    """States contributed by the constructor's own defaults (kwargs.pop(key, DEFAULT), `((self.raw_name, None),)`) to a normalised value."""
    out: set[str] = set()
    names = {x.id for x in ast.walk(arg) if isinstance(x, ast.Name)}
    # direct: escape(kwargs.pop("alias", self.raw_name))
    for k in ast.walk(arg):
        if isinstance(k, ast.Call) and isinstance(k.func, ast.Attribute) and k.func.attr in ("pop", "get") and len(k.args) > 1:
            out |= nf.query(k.args[1], init)
    # loop variables over kwargs.pop("source_columns", DEFAULT)
    for nm in names:
        for kind, node in prog.local_defs(init, nm):
            it = getattr(node, "iter", None)
            if it is not None and isinstance(it, ast.Call) and isinstance(it.func, ast.Attribute) and it.func.attr in ("pop", "get") and len(it.args) > 1:
                idx = int(kind.split(":")[1]) if kind.startswith("unpack:") and kind.split(":")[1].isdigit() else None
                out |= nf.query_elems(it.args[1], init, idx)
    return out
