"""C06 - column lineage is well-formed and consistent with table lineage (DESIGN.md C06, rules R06.1-R06.6)."""

from __future__ import annotations

import ast
from dataclasses import replace

from ..astutil import u
from ..cfg import flow
from ..identity import identities
from ..model import AnalysisError, Fn, Prog, loc
from ..report import Ctx

EXPLANATION = (
    "Static analysis of the unified graph's construction discipline. Decides: R06.1 owner before insertion (typestate, intra-procedural): "
    "Column.__hash__/__eq__ read the owner, so no `.parent = ...` store may follow an insertion of the same column object into a graph / "
    "holder / container on any CFG path (that would move a live graph key); R06.2 every source-column owner is something the statement "
    "reads: owners come from the scope map (members of the table group) - the fabricated `Table(qualifier)` fallback is a known finding; "
    "R06.3 reported paths have at least one hop: every insertion into the result set of get_column_lineage is dominated by a proof that the "
    "path has more than one node; R06.4 identity: hash determined by equality (I1), identity fields are not stored outside __init__ except "
    "the owner set under R06.1 (I2), Column equality includes the owner object so that same-named columns of different sub-queries stay "
    "distinct (I5); R06.5 a dataset node is removed from the combined graph only when nothing at all is attached to it (degree 0), so no "
    "column is left without its owner (= R03.3); R06.6 result accessors are pure (= R11.3: a memo ignoring the flags returns paths ending at "
    "sub-query columns). R06.7 the table-level role predicates the paths are compared with partition the tables as C03 requires (= R03.1). Does not decide: that the table graph connects the owners of the first and last column of each path (needs values)."
    ' R06.9 (= R14.2) no table is built with a schema name fixed in the code; R06.10 (= R01.5) every place a sub-query can stand is walked at table level.'
)
RULE_TEXT = "one obligation per owner store x insertion pair, per result insertion, per model class, per removal site"

INSERTERS = {"add_edge", "add_node", "add_column_lineage", "add_write_column", "add_edges_from", "add_nodes_from"}
CONTAINER_ADD = {"add", "append", "extend", "insert"}


def rules(ctx: Ctx) -> None:
    prog = ctx.prog
    Column = prog.cls("core.models.Column")

    # ---- R06.1 typestate ---------------------------------------------------------------------
    n_stores = 0
    for f in prog.funcs.values():
        stores = [n for n in prog.walk_fn(f) if isinstance(n, ast.Attribute) and isinstance(n.ctx, ast.Store) and n.attr == "parent" and isinstance(n.value, ast.Name)]
        if not stores:
            continue
        cfg = flow(prog, f).cfg
        ctx.touched(f)
        owner = f.owner
        for s in stores:
            n_stores += 1
            var = s.value.id
            sid = cfg.node_for(s)
            # nodes that re-bind the variable (a fresh object): paths through them do not carry the inserted object
            rebind = set()
            for kind, node in prog.local_defs(f, var):
                nid = cfg.node_for(node) if not isinstance(node, ast.For) else next((c.id for c in cfg.nodes.values() if c.kind == "for" and c.ast is node), None)
                if nid is not None and nid != sid:
                    rebind.add(nid)
            bad = None
            for c in cfg.nodes.values():
                if c.ast is None or c.kind not in ("stmt", "cond") or c.id == sid:
                    continue
                for k in ast.walk(c.ast):
                    if isinstance(k, ast.Call) and isinstance(k.func, ast.Attribute) and (k.func.attr in INSERTERS or k.func.attr in CONTAINER_ADD):
                        args = list(k.args) + [kw.value for kw in k.keywords]
                        if any(isinstance(x, ast.Name) and x.id == var for a in args for x in ast.walk(a)):
                            if sid is not None and cfg.reach(c.id, sid, avoid=rebind - {c.id}):
                                bad = (c, k)
            ctx.ob("R06.1", f"owner-before-insertion:{owner}:{var}", bad is None, loc(f.mod, s),
                   f"`{u(prog.enclosing_stmt(s))}` must not be reachable after `{var}` was inserted into a graph / holder / container"
                   + (f" (inserted by `{u(bad[1])[:50]}` at line {bad[0].lineno})" if bad else ""))
    ctx.floor("owner stores (`.parent = ...`)", n_stores, 11)
    # the setter is a set insertion (re-assigning the same owner is a no-op)
    setter = Column.setters.get("parent")
    ok_set = setter is not None and any(isinstance(k, ast.Call) and isinstance(k.func, ast.Attribute) and k.func.attr == "add" and "_parent" in u(k.func.value) for k in prog.walk_fn(setter))
    ctx.ob("R06.1", "owner-store-is-a-set-insertion", ok_set, setter.loc() if setter else Column.loc(), "Column.parent's setter adds to the owner candidate set (never replaces it)")

    # ---- R06.2 provenance of source-column owners ---------------------------------------------------
    tsc = Column.methods.get("to_source_columns")
    if tsc is None:
        raise AnalysisError("to_source_columns not found")
    ctx.touched(tsc)
    am = [p for p in tsc.params() if p != "self"][0]
    n_own = 0
    for st in prog.walk_fn(tsc):
        if not (isinstance(st, ast.Assign) and any(isinstance(t, ast.Attribute) and t.attr == "parent" for t in st.targets)):
            continue
        for src in prog.value_sources(tsc, st.value):
            if isinstance(src, ast.Constant) and src.value is None:
                continue
            n_own += 1
            basis = src.iter if isinstance(src, (ast.For, ast.comprehension)) else src
            from_scope = any(isinstance(x, ast.Name) and x.id == am for x in ast.walk(basis))
            what = "scope-map" if from_scope else f"fabricated:{u(basis.func) if isinstance(basis, ast.Call) else type(basis).__name__}"
            ctx.ob("R06.2", f"source-owner-from-scope:{what}", from_scope, loc(tsc.mod, basis),
                   f"`{u(basis)[:60]}` becomes the owner of a source column: the owner must be a member of the statement's table group (every member is add_read), not an object invented from the qualifier text")
    ctx.floor("owner assignments in to_source_columns", n_own, 3)

    # ---- R06.3 at least one hop --------------------------------------------------------------------------
    gcl = prog.cls("core.holders.ColumnLineageMixin").methods.get("get_column_lineage")
    ctx.touched(gcl)
    fl = flow(prog, gcl)
    # insertions of a path into the result: <set>.add(tuple(<path>)) where <path> comes from all_simple_paths
    adds = [k for k in prog.walk_fn(gcl) if isinstance(k, ast.Call) and isinstance(k.func, ast.Attribute) and k.func.attr == "add" and k.args
            and isinstance(k.args[0], ast.Call) and isinstance(k.args[0].func, ast.Name) and k.args[0].func.id == "tuple" and k.args[0].args and isinstance(k.args[0].args[0], ast.Name)]
    # ... or the same written as one comprehension: `{tuple(path) for ... if len(path) > 1}` - the element is the insertion, its filters are the guard
    comp_sites = [(c, c.elt) for c in prog.walk_fn(gcl) if isinstance(c, (ast.SetComp, ast.ListComp, ast.GeneratorExp)) and isinstance(c.elt, ast.Call) and isinstance(c.elt.func, ast.Name)
                  and c.elt.func.id == "tuple" and c.elt.args and isinstance(c.elt.args[0], ast.Name)]
    ctx.floor("insertions into the result set of get_column_lineage", len(adds) + len(comp_sites), 1)
    for c, elt in comp_sites:
        pv = elt.args[0].id
        conds = [u(a) for g_ in c.generators for i_ in g_.ifs for a in (i_.values if isinstance(i_, ast.BoolOp) and isinstance(i_.op, ast.And) else [i_])]
        ok = any(t in (f"len({pv}) > 1", f"len({pv}) >= 2", f"not len({pv}) <= 1", f"not len({pv}) < 2", f"len({pv}) != 1 and len({pv}) != 0") for t in conds)
        ctx.ob("R06.3", "paths-have-at-least-one-hop", ok, loc(gcl.mod, elt), f"`{u(elt)}` must be filtered by a proof that the path has more than one node (all_simple_paths yields [source] when source is target)")
    for k in adds:
        facts = fl.facts_for(k)
        pv = k.args[0].args[0].id
        ok = any(p and t in (f"len({pv}) > 1", f"len({pv}) >= 2") for t, p in facts) or any((not p) and t in (f"len({pv}) <= 1", f"len({pv}) < 2", f"len({pv}) == 1") for t, p in facts)
        ctx.ob("R06.3", "paths-have-at-least-one-hop", ok, loc(gcl.mod, k), f"`{u(k)}` must be dominated by a proof that the path has more than one node (all_simple_paths yields [source] when source is target)")
        # ... and by nothing else: every path of the graph between a root and a leaf is lineage (a further reason to drop one - "comes back to a
        # dataset it already left" - removes end-to-end pairs)
        import re as _re2
        foreign = [t for t, p in facts if not _re2.fullmatch(rf"len\({pv}\) (>|>=|<|<=|==|!=) \d+", t) and pv in {x.id for x in ast.walk(ast.parse(t, mode="eval")) if isinstance(x, ast.Name)} or
                   any(isinstance(x, ast.Name) and x.id != pv and any(kind_ in ("assign",) and any(isinstance(y, ast.Name) and y.id == pv for y in ast.walk(d_.value)) for kind_, d_ in prog.local_defs(gcl, x.id))
                       for x in ast.walk(ast.parse(t, mode="eval")))]
        ctx.ob("R06.3", "paths-dropped-for-the-stated-reason-only", not foreign, loc(gcl.mod, k),
               "a path is kept or dropped by its length alone" + (f"; the insertion also depends on `{foreign[0]}`" if foreign else ""))
    # roots and leaves are chosen on the column sub-graph
    import re as _re
    txt = u(gcl.node)
    ctx.ob("R06.3", "roots-have-no-incoming-leaves-no-outgoing", "in_degree" in txt and "out_degree" in txt and bool(_re.search(r"\w+ == 0", txt)), gcl.loc(), "paths start at columns nothing feeds and end at columns feeding nothing", trivial=True)
    ctx.ob("R06.3", "paths-end-at-columns-of-written-tables", bool(_re.search(r"isinstance\(\w+\.parent, Table\)", txt)), gcl.loc(), "by default only paths ending at a column owned by a Table are reported")

    # ---- R06.4 identity --------------------------------------------------------------------------------------
    ids = identities(prog)
    for name, i in ids.items():
        # equal objects hash equally: every projection the hash is computed from is one that equality compares (fields alone are not enough:
        # hash(str(self)) prints the owner by *name*, and owners that compare equal - sub-queries with the same text - may print differently)
        proj_ok = all(hp in i.eq_projs for hp in i.hash_projs)
        ctx.ob("R06.4", f"hash-determined-by-eq:{name}", i.hash_fields <= i.eq_fields and proj_ok, i.cls.loc(),
               f"{name}: hash of {i.hash_projs} (fields {sorted(i.hash_fields)}) must be determined by what __eq__ compares, {i.eq_projs} (fields {sorted(i.eq_fields)})")
        # I2: identity fields are not stored outside __init__ (except Column._parent through its setter)
        ident_fields = i.eq_fields | i.hash_fields
        for f in prog.funcs.values():
            if f.cls is not None and f.name == "__init__" and prog.is_subclass(f.cls, i.cls):
                continue
            for n in prog.walk_fn(f):
                if isinstance(n, ast.Attribute) and isinstance(n.ctx, ast.Store) and n.attr in ident_fields:
                    bt = prog.infer(n.value, f)
                    if any(a.kind == "inst" and a.name in prog.classes and prog.is_subclass(prog.classes[a.name], i.cls) for a in bt.alts()):
                        ctx.ob("R06.4", f"identity-field-immutable:{name}.{n.attr}", False, loc(f.mod, n),
                               f"`{u(prog.enclosing_stmt(n))[:60]}` re-assigns a field that {name}.__eq__/__hash__ depend on: a node already in the graph would change its key")
    colid = ids["Column"]
    owner_eq = any(p in ("self.parent", "self._parent", "self.parent_candidates") for p in colid.eq_projs)
    ctx.ob("R06.4", "column-equality-includes-the-owner-object", owner_eq, colid.cls.loc(),
           f"Column.__eq__ compares {colid.eq_projs}: the printed name of an owner is not injective (sub-queries print their alias), so the owner object itself must be compared, "
           f"otherwise same-named columns of different sub-queries collapse into one node with two owners")

    # ---- R06.5 / R06.6 imported ----------------------------------------------------------------------------------
    from .common import import_rules as _imp

    _imp(ctx, "C03", {"R03.3": "R06.5"})
    _imp(ctx, "C03", {"R03.2": "R06.5"}, key_filter=lambda o: o.key == "fold:one-pass-over-the-statements")
    _imp(ctx, "C11", {"R11.3": "R06.6"})
    # R06.7: the table-level answer the column paths are compared with: every table with lineage is source, intermediate or target
    # (a path may end in an intermediate table only if the intermediate set is not emptied by unrelated tags) (= R03.1)
    from .common import import_rules

    import_rules(ctx, "C03", {"R03.1": "R06.7"})
    # R06.9 (= R14.2, construction sites): the owner of a source column and the table-level read are the same table only if both are built
    # with the same schema fallback; a schema name fixed in the code at one site parts them as soon as a default schema is configured
    import_rules(ctx, "C14", {"R14.2": "R06.9"}, key_filter=lambda o: o.key.startswith("table-site:"))

    # ---- R06.8 no statement reads a loop variable after its loop -----------------------------------------------------------
    # (what is left in it is the last element in iteration order - or nothing, for an empty sequence; an owner or edge taken from it belongs to an arbitrary candidate)
    from ..loopvar import leftover_uses

    n_loops = 0
    for f in prog.funcs.values():
        if f.mod.name in ("sqllineage.cli", "sqllineage.drawing"):
            continue
        n_loops += len([1 for k in prog.walk_fn(f) if isinstance(k, ast.For)])
        for L, use in leftover_uses(prog, f):
            ctx.ob("R06.8", f"loop-variable-not-used-after-its-loop:{f.owner}:{use.id}", False, loc(f.mod, use),
                   f"`{use.id}` is read after `for {u(L.target)} in {u(L.iter)[:40]}` (line {L.lineno}) ended without break: it names whichever element came last")
    ctx.ob("R06.8", "loop-variable-not-used-after-its-loop:scanned", True, "sqllineage/", f"{n_loops} loops scanned", trivial=True)

    # ---- R06.10 (= R01.5): every place a sub-query can stand is walked at table level as it is at column level - a clause the table-level
    # walk skips makes the column paths start at a table the statement is not reported to read
    import_rules(ctx, "C01", {"R01.5": "R06.10"})

    # ---- R06.11 (= R02.2 scope-map keys for every table, R02.11 qualifier part): a qualifier that names a table of the group must find it - the
    # fall-back for an unknown qualifier is an invented table the script does not read
    import_rules(ctx, "C02", {"R02.2": "R06.11", "R02.11": "R06.11"}, key_filter=lambda o: o.key.endswith("-keys-for-every-table") or o.rule == "R02.11")
