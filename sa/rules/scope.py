"""Rules on the qualifier -> relation scope map, shared by C02 (R02.2), C08 (R08.1) and C16 (R16.4)."""

from __future__ import annotations

import ast
from typing import Optional

from ..astutil import u
from ..model import AnalysisError, Fn, Prog, loc
from ..report import Ctx


def find_scope_map_builder(prog: Prog) -> Fn:
    """The callee whose result is the argument of Column.to_source_columns."""
    cands: dict[str, Fn] = {}
    for f in prog.funcs.values():
        for n in prog.walk_fn(f):
            if isinstance(n, ast.Call) and isinstance(n.func, ast.Attribute) and n.func.attr == "to_source_columns" and n.args and isinstance(n.args[0], ast.Call):
                for cal in prog.resolve_call(n.args[0], f):
                    if isinstance(cal, Fn):
                        cands[cal.qual] = cal
    if len(cands) != 1:
        raise AnalysisError(f"scope map builder: {len(cands)} candidates")
    return next(iter(cands.values()))


def resolution_sites(prog: Prog, builder: Fn) -> list[tuple[Fn, ast.Call, bool]]:
    """Every call of Column.to_source_columns in the package with: does its argument come from the scope map builder (directly or through
    locals)?  A site that resolves qualifiers against a map of its own making does not agree with its siblings on what an alias denotes
    (the builder returns the nodes already in the graph: a CTE read under an alias is the CTE's node, not a new object carrying the alias)."""
    out = []
    for f in prog.funcs.values():
        for n in prog.walk_fn(f):
            if isinstance(n, ast.Call) and isinstance(n.func, ast.Attribute) and n.func.attr == "to_source_columns" and n.args and f.name != "to_source_columns":
                srcs = prog.value_sources(f, n.args[0])
                from_builder = bool(srcs) and all(isinstance(v, ast.Call) and builder in prog.resolve_call(v, f) for v in srcs)
                out.append((f, n, from_builder))
    return out


def classify_operand(prog: Prog, fn: Fn, e: ast.AST) -> tuple[str, Optional[ast.AST]]:
    """-> (kind, defining dict comprehension): alias | bare | qualified | other."""
    comp = e
    if isinstance(e, ast.Name):
        defs = [node.value for kind, node in prog.local_defs(fn, e.id) if kind == "assign"]
        comp = defs[0] if len(defs) == 1 else None
    if not isinstance(comp, ast.DictComp):
        return "other", None
    txt = u(comp)
    key = u(comp.key)
    if "HAS_ALIAS" in txt or "has_alias" in txt:
        return "alias", comp
    if key.endswith(".raw_name"):
        return "bare", comp
    if key.startswith("str(") or key.startswith("f'{"):
        return "qualified", comp
    return "other", comp


def scope_map_rules(ctx: Ctx, rule: str) -> None:
    prog = ctx.prog
    b = find_scope_map_builder(prog)
    ctx.touched(b)
    rets = [r for r in prog.walk_fn(b) if isinstance(r, ast.Return) and r.value is not None]
    if len(rets) != 1:
        raise AnalysisError("scope map builder: expected one return")
    v = rets[0].value
    operands: list[ast.AST] = []

    def flatten(x):
        if isinstance(x, ast.BinOp) and isinstance(x.op, ast.BitOr):
            flatten(x.left)
            flatten(x.right)
        elif isinstance(x, ast.Dict) and all(k is None for k in x.keys):
            for y in x.values:
                flatten(y)
        else:
            operands.append(x)

    flatten(v)
    kinds = [classify_operand(prog, b, o) for o in operands]
    order = [k for k, _ in kinds]
    where = loc(b.mod, rets[0])
    for need, why in (("alias", "an explicit alias"), ("bare", "the bare table name (normalised once: the default alias is normalised twice and cannot stand in for it)"), ("qualified", "the schema-qualified name")):
        ctx.ob(rule, f"scope-map:offers-{need}-key", need in order, where, f"`{u(rets[0])[:70]}`: a relation can be referred to by {why}")
    ctx.ob(rule, "scope-map:no-unknown-operand", "other" not in order, where, f"every operand of the merge is one of the three key kinds (found {order})", trivial=True)
    sites = resolution_sites(prog, b)
    ctx.floor("qualifier resolution sites (to_source_columns)", len(sites), 2)
    for f, n, from_builder in sites:
        ctx.touched(f)
        ctx.ob(rule, f"scope-map:resolution-uses-the-builder:{f.owner}", from_builder, loc(f.mod, n),
               f"`{u(n)[:70]}`: qualifiers are resolved against the map of `{b.name}`" if from_builder else
               f"`{u(n)[:70]}` resolves qualifiers against a map that `{b.name}` did not build: what an alias denotes here differs from every other statement kind "
               f"(a CTE read under an alias must be the CTE's node in the graph)")
    # operands iterate the table group in its own (FROM) order, without turning it into a set
    param = [p for p in b.params() if p != "self"][0]
    for kind, comp in kinds:
        if comp is None or kind == "alias":
            continue
        g = comp.generators[0]
        direct = isinstance(g.iter, ast.Name) and g.iter.id == param
        ctx.ob(rule, f"scope-map:{kind}-keys-in-from-order", direct, loc(b.mod, comp),
               f"`for {u(g.target)} in {u(g.iter)}`: on key clashes the last relation wins, so the {kind} map must follow the FROM order of the table group itself")
        only_tables = any("isinstance" in u(c) and "Table" in u(c) for c in g.ifs)
        further = [u(a_)[:60] for c in g.ifs for a_ in (c.values if isinstance(c, ast.BoolOp) and isinstance(c.op, ast.And) else [c]) if not ("isinstance" in u(a_) and "Table" in u(a_))]
        ctx.ob(rule, f"scope-map:{kind}-keys-for-every-table", not further, loc(b.mod, comp),
               f"every table of the group can be named by its {kind} name" + (f"; a further condition `{further[0]}` takes that name away from some tables and their columns fall back to an invented table" if further else ""))
        ctx.ob(rule, f"scope-map:{kind}-keys-only-for-tables", only_tables, loc(b.mod, comp), f"{kind} names are offered for Table relations only (sub-queries are reachable by alias)", trivial=True)
    for kind, comp in kinds:
        if comp is not None and kind == "alias":
            restricted = any(param in u(c) for g in comp.generators for c in g.ifs)
            ctx.ob(rule, "scope-map:alias-keys-restricted-to-this-scope", restricted, loc(b.mod, comp), "only aliases of relations in this table group enter the map (sibling scopes do not leak)")


def alias_precedence_rules(ctx: Ctx, rule: str) -> None:
    """R02.2: an alias shadows a bare table name (two obligations, both known findings today)."""
    prog = ctx.prog
    b = find_scope_map_builder(prog)
    rets = [r for r in prog.walk_fn(b) if isinstance(r, ast.Return) and r.value is not None]
    v = rets[0].value
    operands: list[ast.AST] = []

    def flatten(x):
        if isinstance(x, ast.BinOp) and isinstance(x.op, ast.BitOr):
            flatten(x.left)
            flatten(x.right)
        elif isinstance(x, ast.Dict) and all(k is None for k in x.keys):
            for y in x.values:
                flatten(y)
        else:
            operands.append(x)

    flatten(v)
    order = [classify_operand(prog, b, o)[0] for o in operands]
    ok = "alias" in order and "bare" in order and order.index("alias") > order.index("bare")
    ctx.ob(rule, "scope-map:alias-shadows-bare-name", ok, loc(b.mod, rets[0]),
           f"in `a | b` the right operand wins; merge order is {order}: an explicit alias must take priority over another relation's bare table name")
    # only explicit aliases are aliases: HAS_ALIAS edge creation conditioned on the alias being explicit, or default alias is not the bare name
    H = prog.cls("core.holders.SubQueryLineageHolder")
    add_read = H.methods.get("add_read")
    T = prog.cls("core.models.Table")
    tinit = T.methods["__init__"]
    default_is_bare = any(isinstance(k, ast.Call) and isinstance(k.func, ast.Attribute) and k.func.attr == "pop" and len(k.args) > 1 and "raw_name" in u(k.args[1]) for k in prog.walk_fn(tinit))
    explicit_only = False
    if add_read is not None:
        from ..cfg import flow
        for k in prog.walk_fn(add_read):
            if isinstance(k, ast.Call) and isinstance(k.func, ast.Attribute) and k.func.attr == "add_edge" and "HAS_ALIAS" in u(k):
                facts = flow(prog, add_read).facts_for(k)
                explicit_only = any(("alias" in t and ("!=" in t or "is not" in t) and p) or ("explicit" in t and p) for t, p in facts)
    ctx.touched(add_read, tinit)
    # (the finding is identified together with the merge order it lives under: while aliases have the lowest priority the implicit alias can
    # only displace other aliases; once aliases win, the twice-normalised implicit alias of "Tab1" takes the qualifier tab1 away from table tab1)
    prio = "under-bare-names" if not ok else "over-bare-names"
    ctx.ob(rule, f"scope-map:implicit-alias-competes:{prio}", explicit_only or not default_is_bare, add_read.loc() if add_read else H.loc(),
           "an un-aliased table must not enter the alias map under its bare name (Table.alias defaults to the table's own name and add_read creates a HAS_ALIAS edge for it), "
           "otherwise it competes with another relation's explicit alias on equal terms and dictionary order decides")
