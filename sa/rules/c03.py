"""C03 - script summary roles follow from per-statement reads and writes (DESIGN.md C03, rules R03.1-R03.4)."""

from __future__ import annotations

import ast
import itertools
from typing import Callable, Optional

from ..astutil import is_self_attr, u
from ..cfg import flow
from ..model import AnalysisError, Cls, Fn, Prog, loc
from ..report import Ctx

EXPLANATION = (
    "Static analysis of the statement fold and of the role predicates in sqllineage/core/holders.py. Decides: R03.1 the bodies of "
    "source_tables / target_tables / intermediate_tables, translated from the AST into boolean formulas over the atoms "
    "{in-degree 0, out-degree 0, self-loop tag, source-only tag, target-only tag}, equal the property's classification on every "
    "feasible valuation (finite and exhaustive: decided for every graph), and each predicate depends on the tags it needs; R03.2 in "
    "the fold every statement holder is composed and then receives exactly one of {drop handling, rename handling, source-only tag, "
    "target-only tag, read x write lineage edges}, edges go from this holder's read to this holder's write, the tag guards are the "
    "emptiness tests the property states, nothing but this holder's own drop/rename/read/write decides the branch, the self-loop tag "
    "is computed after the loop; R03.3 every removal in the fold targets only the dropped / renamed table under a degree-0 proof "
    "(or the renamed table's own self-loop), no bulk removal; R03.4 the RENAME loop must not iterate an unordered set with a "
    "non-commuting body (known finding, shared with C11). Does not decide: that holder.read/write are right (C01), nor "
    "order-independence of the fold as a theorem."
    ' R03.5 / R03.6 are shared clauses of C05: the splitter hands over every statement once and in order, one holder per statement.'
    ' R03.6 also imports R05.3 (nothing an extractor collected for an earlier statement is left in it); R03.7 (= R18.1) the export lists every edge of the graph it is given, self-references included.'
)
RULE_TEXT = (
    "R03.1: 3 predicates x all feasible valuations of 5 atoms (exhaustive) + tag-dependency obligations; R03.2-4: one obligation per "
    "effect site, guard, removal and iteration of the fold; non-trivial = everything except anchor-presence obligations"
)

ATOMS = ["in0", "out0", "selfloop", "source_only", "target_only"]
SPEC: dict[str, Callable[[dict], bool]] = {
    "source": lambda v: (v["in0"] and not v["out0"]) or v["selfloop"] or v["source_only"],
    "target": lambda v: (v["out0"] and not v["in0"]) or v["selfloop"] or v["target_only"],
    "intermediate": lambda v: (not v["in0"]) and (not v["out0"]) and not v["selfloop"],
}
NEEDED_TAGS = {"source": {"selfloop", "source_only"}, "target": {"selfloop", "target_only"}, "intermediate": {"selfloop"}}
GRAPH_REMOVERS = {"remove_node", "remove_nodes_from", "remove_edge", "remove_edges_from", "clear", "clear_edges"}


class Unknown(Exception):
    pass


class PredEval:
    """Translate a role predicate body into a formula (python closure over a valuation)."""

    def __init__(self, prog: Prog, cls: Cls, table_graph_props: set[str]):
        self.prog, self.cls, self.tg = prog, cls, table_graph_props
        self.tags_used: set[str] = set()

    def tag_of(self, e: ast.AST, fn: Fn) -> str:
        v = self.prog.try_fold(e, fn.mod, fn)
        if not isinstance(v, str):
            raise Unknown(f"tag expression {u(e)} does not fold to a constant")
        return v

    def eval_fn(self, fn: Fn, depth=0) -> Callable[[dict], bool]:
        if depth > 4:
            raise Unknown("helper nesting too deep")
        env: dict[str, Callable] = {}
        result = None
        for st in fn.node.body:
            if isinstance(st, ast.Expr) and isinstance(st.value, ast.Constant):
                continue
            if isinstance(st, (ast.Assign, ast.AnnAssign)):
                tgt = st.targets[0] if isinstance(st, ast.Assign) else st.target
                if not isinstance(tgt, ast.Name) or (isinstance(st, ast.Assign) and len(st.targets) != 1):
                    raise Unknown(f"assignment target {u(st)[:50]}")
                try:
                    env[tgt.id] = self.eval(st.value, fn, env, depth)
                except Unknown as ex:  # not a set of tables (a graph alias, a tag constant ...): only an error if used as one
                    env[tgt.id] = ex
            elif isinstance(st, ast.AugAssign) and isinstance(st.target, ast.Name):
                left = env.get(st.target.id)
                if left is None:
                    raise Unknown(f"augmented assignment to unknown {st.target.id}")
                if isinstance(left, Unknown):
                    raise left
                right = self.eval(st.value, fn, env, depth)
                env[st.target.id] = self.combine(st.op, left, right)
            elif isinstance(st, ast.Return) and st.value is not None:
                result = self.eval(st.value, fn, env, depth)
                break
            else:
                raise Unknown(f"statement {type(st).__name__} `{u(st)[:50]}`")
        if result is None:
            raise Unknown("no return value")
        return result

    @staticmethod
    def combine(op: ast.AST, a: Callable, b: Callable) -> Callable:
        if isinstance(op, ast.BitOr):
            return lambda v: a(v) or b(v)
        if isinstance(op, ast.BitAnd):
            return lambda v: a(v) and b(v)
        if isinstance(op, ast.Sub):
            return lambda v: a(v) and not b(v)
        raise Unknown(f"set operator {type(op).__name__}")

    def eval(self, e: ast.AST, fn: Fn, env: dict, depth: int) -> Callable[[dict], bool]:
        prog = self.prog
        if isinstance(e, ast.Name):
            if e.id in env:
                if isinstance(env[e.id], Unknown):
                    raise env[e.id]
                return env[e.id]
            srcs = [x for x in prog.value_sources(fn, e) if not (isinstance(x, ast.Name) and x.id == e.id)]
            if len(srcs) == 1:
                return self.eval(srcs[0], fn, env, depth + 1)
            raise Unknown(f"name {e.id}")
        if isinstance(e, ast.BinOp):
            return self.combine(e.op, self.eval(e.left, fn, env, depth), self.eval(e.right, fn, env, depth))
        if isinstance(e, ast.Call) and isinstance(e.func, ast.Attribute) and e.func.attr in ("intersection", "union", "difference") and len(e.args) >= 1:
            op = {"intersection": ast.BitAnd(), "union": ast.BitOr(), "difference": ast.Sub()}[e.func.attr]
            acc = self.eval(e.func.value, fn, env, depth)
            for a in e.args:
                acc = self.combine(op, acc, self.eval(a, fn, env, depth))
            return acc
        if isinstance(e, ast.Call) and isinstance(e.func, ast.Name) and e.func.id in ("set", "frozenset") and len(e.args) == 1:
            return self.eval(e.args[0], fn, env, depth)
        if isinstance(e, ast.Call):
            callees = [c for c in prog.resolve_call(e, fn) if isinstance(c, Fn)]
            if len(callees) == 1 and callees[0].cls is not None and prog.is_subclass(self.cls, callees[0].cls):
                cal = callees[0]
                if self._is_tag_retriever(cal):
                    if len(e.args) != 1:
                        raise Unknown("tag retriever arity")
                    tag = self.tag_of(e.args[0], fn)
                    return self.tag_atom(tag)
                return self.eval_fn(cal, depth + 1)
            raise Unknown(f"call {u(e)[:60]}")
        if is_self_attr(e):
            # attribute set in __init__, or a property of the class
            m = prog.find_method(self.cls, e.attr)
            if m is not None and m.kind == "property":
                return self.eval_fn(m, depth + 1)
            init = prog.find_method(self.cls, "__init__")
            if init is not None:
                for n in ast.walk(init.node):
                    if isinstance(n, ast.Assign) and len(n.targets) == 1 and is_self_attr(n.targets[0], e.attr):
                        return self.eval(n.value, init, {}, depth + 1)
            raise Unknown(f"attribute {u(e)}")
        if isinstance(e, ast.SetComp) or isinstance(e, ast.ListComp) or isinstance(e, ast.GeneratorExp):
            if len(e.generators) != 1:
                raise Unknown("comprehension with several generators")
            g = e.generators[0]
            it = g.iter
            tagged = self._tag_comprehension(e, fn)
            if tagged is not None:
                return self.tag_atom(tagged)
            if not (isinstance(it, ast.Attribute) and it.attr in ("in_degree", "out_degree")):
                if isinstance(it, ast.Call) and isinstance(it.func, ast.Attribute) and it.func.attr in ("in_degree", "out_degree") and not it.args:
                    it = it.func
                elif self._is_table_graph(it, fn) and isinstance(g.target, ast.Name) and isinstance(e.elt, ast.Name) and e.elt.id == g.target.id:
                    # the other spelling: `{t for t in G if G.in_degree(t) == 0 and G.out_degree(t) > 0}`
                    f2: Callable = lambda v: True
                    for cond in g.ifs:
                        c2 = self.node_deg_cond(cond, g.target.id, fn)
                        f2 = (lambda f0, c0: (lambda v: f0(v) and c0(v)))(f2, c2)
                    return f2
                else:
                    raise Unknown(f"comprehension over {u(it)[:50]}")
            gexpr = it.value
            if isinstance(gexpr, ast.Name):  # a local alias of the graph
                srcs = prog.value_sources(fn, gexpr)
                if len(srcs) == 1:
                    gexpr = srcs[0]
            if not (is_self_attr(gexpr) and gexpr.attr in self.tg):
                raise Unknown(f"degree view of {u(gexpr)} (expected the dataset-only sub-graph)")
            if not (isinstance(g.target, ast.Tuple) and len(g.target.elts) == 2 and all(isinstance(x, ast.Name) for x in g.target.elts)):
                raise Unknown("degree comprehension target")
            tname, dname = g.target.elts[0].id, g.target.elts[1].id
            if not (isinstance(e.elt, ast.Name) and e.elt.id == tname):
                raise Unknown("degree comprehension element")
            zero_atom = "in0" if it.attr == "in_degree" else "out0"
            f: Callable = lambda v: True
            for cond in g.ifs:
                c = self.deg_cond(cond, dname, zero_atom)
                f = (lambda f0, c0: (lambda v: f0(v) and c0(v)))(f, c)
            return f
        raise Unknown(f"expression {type(e).__name__} `{u(e)[:60]}`")

    def _is_table_graph(self, e: ast.AST, fn: Fn) -> bool:
        """`e` is the dataset-only sub-graph (the property, a local bound to it, or its node view)"""
        if isinstance(e, ast.Call) and isinstance(e.func, ast.Attribute) and e.func.attr == "nodes" and not e.args:
            e = e.func.value
        elif isinstance(e, ast.Attribute) and e.attr == "nodes":
            e = e.value
        if isinstance(e, ast.Name):
            srcs = [x for x in self.prog.value_sources(fn, e) if not (isinstance(x, ast.Name) and x.id == e.id)]
            if len(srcs) == 1:
                e = srcs[0]
        return is_self_attr(e) and e.attr in self.tg

    def node_deg_cond(self, cond: ast.AST, tname: str, fn: Fn) -> Callable:
        """condition on the degrees of loop variable `tname`: G.in_degree(t) OP k, G.out_degree[t] OP k, and / or / not of those"""
        if isinstance(cond, ast.BoolOp):
            parts = [self.node_deg_cond(v, tname, fn) for v in cond.values]
            if isinstance(cond.op, ast.And):
                return lambda v: all(p(v) for p in parts)
            return lambda v: any(p(v) for p in parts)
        if isinstance(cond, ast.UnaryOp) and isinstance(cond.op, ast.Not):
            inner = self.node_deg_cond(cond.operand, tname, fn)
            return lambda v: not inner(v)

        def view(x: ast.AST) -> Optional[str]:
            recv = arg = None
            if isinstance(x, ast.Call) and isinstance(x.func, ast.Attribute) and len(x.args) == 1:
                recv, arg = x.func, x.args[0]
            elif isinstance(x, ast.Subscript) and isinstance(x.value, ast.Attribute):
                recv, arg = x.value, x.slice
            if recv is None or recv.attr not in ("in_degree", "out_degree") or not (isinstance(arg, ast.Name) and arg.id == tname) or not self._is_table_graph(recv.value, fn):
                return None
            return "in0" if recv.attr == "in_degree" else "out0"

        if view(cond) is not None:
            za = view(cond)
            return lambda v: not v[za]
        if isinstance(cond, ast.Compare) and len(cond.ops) == 1 and view(cond.left) is not None and isinstance(cond.comparators[0], ast.Constant) and isinstance(cond.comparators[0].value, int):
            return self.deg_cond(ast.Compare(left=ast.Name(id="__deg", ctx=ast.Load()), ops=cond.ops, comparators=cond.comparators), "__deg", view(cond.left))
        raise Unknown(f"degree condition `{u(cond)}`")

    def deg_cond(self, cond: ast.AST, dname: str, zero_atom: str) -> Callable:
        if isinstance(cond, ast.BoolOp):
            parts = [self.deg_cond(v, dname, zero_atom) for v in cond.values]
            if isinstance(cond.op, ast.And):
                return lambda v: all(p(v) for p in parts)
            return lambda v: any(p(v) for p in parts)
        if isinstance(cond, ast.UnaryOp) and isinstance(cond.op, ast.Not):
            inner = self.deg_cond(cond.operand, dname, zero_atom)
            return lambda v: not inner(v)
        if isinstance(cond, ast.Name) and cond.id == dname:
            return lambda v: not v[zero_atom]
        if isinstance(cond, ast.Compare) and len(cond.ops) == 1 and isinstance(cond.left, ast.Name) and cond.left.id == dname and isinstance(cond.comparators[0], ast.Constant) and isinstance(cond.comparators[0].value, int):
            k, op = cond.comparators[0].value, cond.ops[0]
            # truth of `deg OP k` as a function of (deg == 0): decidable only when it does not distinguish positive degrees
            def truth(deg):
                return {ast.Eq: deg == k, ast.NotEq: deg != k, ast.Gt: deg > k, ast.GtE: deg >= k, ast.Lt: deg < k, ast.LtE: deg <= k}[type(op)]
            if type(op) not in (ast.Eq, ast.NotEq, ast.Gt, ast.GtE, ast.Lt, ast.LtE):
                raise Unknown(f"degree comparison {u(cond)}")
            pos = {truth(d) for d in (1, 2, 3, 50)}
            if len(pos) != 1:
                raise Unknown(f"degree comparison {u(cond)} distinguishes positive degrees")
            at0, atpos = truth(0), pos.pop()
            return lambda v: at0 if v[zero_atom] else atpos
        raise Unknown(f"degree condition `{u(cond)}`")

    def tag_atom(self, tag: str) -> Callable:
        self.tags_used.add(tag)
        if tag not in ("selfloop", "source_only", "target_only"):
            raise Unknown(f"tag {tag!r} has no atom")
        return lambda v: v[tag]

    def _tag_comprehension(self, e: ast.AST, fn: Fn) -> Optional[str]:
        """{t for t, attr in <graph>.nodes(data=True) if attr.get(TAG) is True [and isinstance(t, DATASET)]} -> TAG (folded), else None."""
        g = e.generators[0]
        it = g.iter
        if not (isinstance(it, ast.Call) and isinstance(it.func, ast.Attribute) and it.func.attr == "nodes" and any(kw.arg == "data" for kw in it.keywords)):
            return None
        if not (isinstance(g.target, ast.Tuple) and len(g.target.elts) == 2 and all(isinstance(x, ast.Name) for x in g.target.elts)):
            return None
        tname, aname = g.target.elts[0].id, g.target.elts[1].id
        if not (isinstance(e.elt, ast.Name) and e.elt.id == tname):
            return None
        conds = []
        for c in g.ifs:
            conds += c.values if isinstance(c, ast.BoolOp) and isinstance(c.op, ast.And) else [c]
        tag = None
        for c in conds:
            call = c.left if isinstance(c, ast.Compare) and len(c.ops) == 1 and isinstance(c.ops[0], (ast.Is, ast.Eq)) and isinstance(c.comparators[0], ast.Constant) and c.comparators[0].value is True else c
            if isinstance(call, ast.Call) and isinstance(call.func, ast.Attribute) and call.func.attr == "get" and isinstance(call.func.value, ast.Name) and call.func.value.id == aname and call.args:
                vals = set()
                for src in self.prog.value_sources(fn, call.args[0]):
                    v = self.prog.try_fold(src, fn.mod, fn)
                    vals.add(v if isinstance(v, str) else None)
                if len(vals) != 1 or None in vals:
                    raise Unknown(f"tag expression {u(call.args[0])} does not fold to one constant")
                tag = vals.pop()
            elif isinstance(c, ast.Call) and isinstance(c.func, ast.Name) and c.func.id == "isinstance":
                continue
            else:
                raise Unknown(f"condition `{u(c)[:50]}` in a tag comprehension")
        return tag

    def _is_tag_retriever(self, fn: Fn) -> bool:
        """A method `f(self, tag)` returning {t for t, attr in self.graph.nodes(data=True) if attr.get(tag) is True and isinstance(t, DATASET)}."""
        params = fn.params()
        if len(params) != 2:
            return False
        rets = [n for n in ast.walk(fn.node) if isinstance(n, ast.Return) and n.value is not None]
        if len(rets) != 1 or not isinstance(rets[0].value, ast.SetComp):
            return False
        sc = rets[0].value
        txt = u(sc)
        return "nodes(data=True)" in txt and f".get({params[1]})" in txt


def find_fold(prog: Prog) -> tuple[Cls, Fn, Fn]:
    """The SQL-level holder, its assembling factory and the fold function."""
    runner_eval = None
    for f in prog.funcs.values():
        if f.cls is not None and f.name == "_eval" and f.mod.name.endswith("runner"):
            runner_eval = f
    holder_cls = prog.try_cls("core.holders.SQLLineageHolder")
    if holder_cls is None:
        raise AnalysisError("SQLLineageHolder not found")
    of = holder_cls.methods.get("of")
    if of is None:
        raise AnalysisError("SQLLineageHolder.of not found")
    fold = None
    for n in ast.walk(of.node):
        if isinstance(n, ast.Call):
            for cal in prog.resolve_call(n, of):
                if isinstance(cal, Fn) and cal.cls is holder_cls and cal.name not in ("__init__", "of"):
                    fold = cal
    if fold is None:
        raise AnalysisError("fold function (callee of SQLLineageHolder.of producing the graph) not found")
    return holder_cls, of, fold


def nonempty_fact(facts, name: str) -> bool:
    pos = {f"len({name}) > 0", f"len({name}) != 0", f"len({name}) >= 1", name, f"bool({name})", f"0 < len({name})"}
    neg = {f"len({name}) == 0", f"not {name}", f"len({name}) < 1", f"len({name}) <= 0"}
    return any((t in pos and p) or (t in neg and not p) for t, p in facts)


def empty_fact(facts, name: str) -> bool:
    pos = {f"len({name}) > 0", f"len({name}) != 0", f"len({name}) >= 1", name, f"bool({name})", f"0 < len({name})"}
    neg = {f"len({name}) == 0", f"not {name}", f"len({name}) < 1", f"len({name}) <= 0"}
    return any((t in pos and not p) or (t in neg and p) for t, p in facts)


def rules(ctx: Ctx) -> None:
    prog = ctx.prog
    H, of, fold = find_fold(prog)
    ctx.touched(of, fold)
    ctx.extra["anchors"] = {"holder": H.qual, "fold": fold.qual}

    # table-graph properties: properties returning self.graph.subgraph(<nodes filtered by isinstance(n, DATASET_CLASSES)>)
    table_graph_props: set[str] = set()
    for name, m in H.methods.items():
        if m.kind != "property":
            continue
        txt = u(m.node)
        if ".subgraph(" in txt and "isinstance" in txt:
            # which classes are kept?
            for n in ast.walk(m.node):
                if isinstance(n, ast.Call) and isinstance(n.func, ast.Name) and n.func.id == "isinstance" and len(n.args) == 2:
                    classes = _class_names(prog, n.args[1], m)
                    if classes == {"Path", "Table"}:
                        table_graph_props.add(name)
    ctx.ob("R03.1", "table-graph-view", bool(table_graph_props), H.loc(),
           "the degree views are taken on a sub-graph induced by isinstance(n, (Path, Table)) (column / sub-query edges do not count)")

    # ---- R03.1 role predicates --------------------------------------------------------
    preds = {"source": "source_tables", "target": "target_tables", "intermediate": "intermediate_tables"}
    valuations = [dict(zip(ATOMS, bits)) for bits in itertools.product([False, True], repeat=len(ATOMS))]
    feasible = [v for v in valuations if not (v["selfloop"] and (v["in0"] or v["out0"]))]
    ctx.extra["valuations"] = {"all": len(valuations), "feasible": len(feasible)}
    tag_ok: dict[str, bool] = {}
    for role, pname in preds.items():
        m = H.methods.get(pname)
        if m is None:
            raise AnalysisError(f"role predicate {pname} not found on {H.qual}")
        ctx.touched(m)
        # (b) necessary tag dependencies, by transitive reference closure
        tags = _tags_referenced(prog, H, m)
        tag_ok[role] = True
        for need in sorted(NEEDED_TAGS[role]):
            ok = ctx.ob("R03.1", f"{role}:depends-on:{need}", need in tags, m.loc(),
                        f"{pname} must depend on the {need!r} tag (a table that one statement reads and writes is source and target, never "
                        f"intermediate; read-only / write-only statements make source-only / target-only tables)")
            tag_ok[role] = tag_ok[role] and ok
    untranslated = []
    for role, pname in preds.items():
        m = H.methods[pname]
        # (a) exact formula
        ev = PredEval(prog, H, table_graph_props)
        try:
            f = ev.eval_fn(m)
        except Unknown as e:
            untranslated.append(f"{pname}: {e}")
            continue
        bad = [v for v in feasible if bool(f(v)) != bool(SPEC[role](v))]
        ctx.ob("R03.1", f"{role}:formula", not bad, m.loc(),
               f"{pname} must classify exactly as the property states on all {len(feasible)} feasible valuations"
               + (f"; differs e.g. for {_fmt(bad[0])}: code says {bool(f(bad[0]))}" if bad else ""))
        ctx.extra.setdefault("truth_table_rows_checked", 0)
        ctx.extra["truth_table_rows_checked"] += len(feasible)
    if untranslated:
        if all(tag_ok.values()):
            raise AnalysisError("R03.1: cannot translate a role predicate into a formula (" + "; ".join(untranslated) + "); refusing to certify an unknown shape")
        for t in untranslated:
            ctx.note(f"formula not translated ({t}); a violation of the tag-dependency obligation is already reported")

    # ---- R03.2 / R03.3 / R03.4 the fold -----------------------------------------------
    fl = flow(prog, fold)
    cfg = fl.cfg
    vararg = fold.node.args.vararg.arg if fold.node.args.vararg else None
    loops = [c for c in cfg.nodes.values() if c.kind == "for" and vararg and u(c.ast.iter) == vararg]
    if len(loops) > 1:
        ctx.ob("R03.2", "fold:one-pass-over-the-statements", False, loc(fold.mod, loops[1].ast),
               f"{len(loops)} loops run over the statement holders: a statement's own effects (compose, DROP / RENAME, tags, read x write edges) must be applied before the "
               "next statement is merged - a pass that merges everything first lets DROP and RENAME act on nodes of later statements")
    if len(loops) != 1:
        raise AnalysisError(f"fold loop over the statement holders not found in {fold.qual} ({len(loops)} candidates)")
    L = loops[0]
    hname = u(L.ast.target)
    # the accumulated graph is always a graph of its own (DiGraph(), the result of compose / relabel): bound to a statement holder's graph
    # itself, the in-place steps of the fold (DROP, tags, edges) edit that statement's result
    acc_names = {t.id for n_ in ast.walk(L.ast) if isinstance(n_, ast.Assign) and any(isinstance(c_, ast.Call) and u(c_.func).endswith("compose") for c_ in ast.walk(n_.value)) for t in n_.targets if isinstance(t, ast.Name)}
    for an in sorted(acc_names):
        aliased = [d for kind_, d in prog.local_defs(fold, an) if kind_ in ("assign", "annassign", "walrus")
                   for v in prog.value_sources(fold, d.value) if isinstance(v, ast.Attribute) and isinstance(v.value, ast.Name) and v.value.id == hname]
        ctx.ob("R03.2", "fold:accumulator-is-never-a-statement's-own-graph", not aliased, loc(fold.mod, aliased[0]) if aliased else loc(fold.mod, L.ast),
               f"`{an}` is " + (f"bound to `{u(aliased[0].value)[:60]}`: it can be the graph object of a statement holder, which the fold then edits in place" if aliased else "always a fresh graph"))
    in_loop = {n for n in cfg.nodes if n != L.id and cfg.reach(L.id, n) and cfg.reach(n, L.id)}

    def folded_kw(call: ast.Call, kw: str):
        for k in call.keywords:
            if k.arg == kw:
                return prog.try_fold(k.value, fold.mod, fold)
        return None

    # effect sites
    effects: dict[str, list[int]] = {"drop": [], "rename": [], "source_only": [], "target_only": [], "edges": []}
    compose_nodes: list[int] = []
    for c in cfg.nodes.values():
        if c.id not in in_loop or c.ast is None:
            continue
        if c.kind == "for":
            it = u(c.ast.iter)
            if it == f"{hname}.drop":
                effects["drop"].append(c.id)
            elif it in (f"{hname}.rename",) or (f"{hname}.rename" in it):
                effects["rename"].append(c.id)
            elif "product(" in it:
                effects["edges"].append(c.id)
        if c.kind == "stmt":
            for k in ast.walk(c.ast):
                if isinstance(k, ast.Call) and isinstance(k.func, ast.Attribute):
                    if k.func.attr == "set_node_attributes" and len(k.args) >= 3:
                        tag = prog.try_fold(k.args[2], fold.mod, fold)
                        if tag in ("source_only", "target_only"):
                            effects[tag].append(c.id)
                    if k.func.attr == "compose" and any(u(a) == f"{hname}.graph" for a in k.args):
                        compose_nodes.append(c.id)
    for kind, nodes in effects.items():
        ctx.ob("R03.2", f"fold:effect-present:{kind}", len(nodes) >= 1, fold.loc(), f"the fold has a {kind} effect site", trivial=True)
    # (a) compose first
    ok_compose = len(compose_nodes) == 1 and all(cfg.dominates(compose_nodes[0], n) for ns in effects.values() for n in ns)
    ctx.ob("R03.2", "fold:compose-first", ok_compose, fold.loc(), "each holder's graph is composed into the result before its effects are applied")
    if compose_nodes:
        st = cfg.nodes[compose_nodes[0]].ast
        ok_assign = isinstance(st, ast.Assign) and any(isinstance(t, ast.Name) for t in st.targets)
        ctx.ob("R03.2", "fold:compose-result-kept", ok_assign, loc(fold.mod, st), "the composed graph replaces the accumulated graph")
    # (d) exactly-one-effect path rule: no path header -> header that avoids all effect sites
    all_eff = [n for ns in effects.values() for n in ns]
    body_starts = [b for b in cfg.g.successors(L.id) if cfg.g[L.id][b].get("label") and cfg.g[L.id][b]["label"][1] is True]
    skipping = any(b == L.id or (b not in all_eff and cfg.reach(b, L.id, avoid=all_eff)) for b in body_starts)
    ctx.ob("R03.2", "fold:every-holder-gets-an-effect", not skipping, f"{fold.mod.path}:{L.lineno}",
           "every iteration applies one of {drop, rename, source-only tag, target-only tag, read x write edges}; a path skips all of them")
    # (b) edges read -> write of this holder
    for nid in effects["edges"]:
        c = cfg.nodes[nid]
        it = c.ast.iter
        ok = False
        if isinstance(it, ast.Call) and len(it.args) == 2 and all(isinstance(a, (ast.Name, ast.Attribute)) for a in it.args):
            src0, src1 = (_origin(prog, fold, a) for a in it.args)
            tgt = c.ast.target
            adds = [k for k in ast.walk(c.ast) if isinstance(k, ast.Call) and isinstance(k.func, ast.Attribute) and k.func.attr == "add_edge"]
            if src0 == f"{hname}.read" and src1 == f"{hname}.write" and isinstance(tgt, ast.Tuple) and len(tgt.elts) == 2 and len(adds) == 1:
                a = adds[0]
                ok = len(a.args) >= 2 and u(a.args[0]) == u(tgt.elts[0]) and u(a.args[1]) == u(tgt.elts[1]) and folded_kw(a, "type") == "lineage"
        ctx.ob("R03.2", "fold:edges-are-read-x-write", ok, f"{fold.mod.path}:{c.lineno}",
               f"`{c.text()[:70]}`: LINEAGE edges go from each table this holder reads to each table it writes")
        facts = cfg.facts_at(nid)
        foreign = [t for t, p in facts if not _about_holder(t, hname, prog, fold)]
        ctx.ob("R03.2", "fold:edges-depend-only-on-holder", not foreign, f"{fold.mod.path}:{c.lineno}",
               "whether edges are added depends only on this holder's own drop / rename / read / write"
               + (f" (also depends on `{foreign[0]}`)" if foreign else ""))
        # not excluded when both are non-empty
        ctx.ob("R03.2", "fold:edges-when-both-nonempty", not any(empty_fact(facts, nm) for nm in _rw_names(prog, fold, hname)), f"{fold.mod.path}:{c.lineno}",
               "the edge branch is taken whenever the holder reads and writes")
    # (c) tag guards
    rw = _rw_names(prog, fold, hname)
    rname = next((n for n, o in rw.items() if o == "read"), None)
    wname = next((n for n, o in rw.items() if o == "write"), None)
    for tag, nonempty_nm, empty_nm, tagged in (("source_only", rname, wname, "read"), ("target_only", wname, rname, "write")):
        for nid in effects[tag]:
            c = cfg.nodes[nid]
            facts = cfg.facts_at(nid)
            ok = nonempty_nm is not None and empty_nm is not None and nonempty_fact(facts, nonempty_nm) and empty_fact(facts, empty_nm)
            ctx.ob("R03.2", f"fold:{tag}-guard", ok, f"{fold.mod.path}:{c.lineno}",
                   f"{tag} is set exactly when the holder has {'reads and no writes' if tag == 'source_only' else 'writes and no reads'}")
            call = next(k for k in ast.walk(c.ast) if isinstance(k, ast.Call) and isinstance(k.func, ast.Attribute) and k.func.attr == "set_node_attributes")
            dc = call.args[1] if len(call.args) > 1 else None
            ok_set = isinstance(dc, ast.DictComp) and len(dc.generators) == 1 and _origin(prog, fold, dc.generators[0].iter) == f"{hname}.{tagged}" and u(dc.key) == u(dc.generators[0].target) and not dc.generators[0].ifs and isinstance(dc.value, ast.Constant) and dc.value.value is True
            ctx.ob("R03.2", f"fold:{tag}-tags-the-{tagged}-set", ok_set, f"{fold.mod.path}:{c.lineno}", f"{tag} is set to True on exactly the holder's {tagged} tables")
            foreign = [t for t, p in facts if not _about_holder(t, hname, prog, fold)]
            ctx.ob("R03.2", f"fold:{tag}-depends-only-on-holder", not foreign, f"{fold.mod.path}:{c.lineno}", "the tag depends only on this holder's own sets")
    # (f) self-loop tag after the loop, on every path to the return
    sl = []
    for c in cfg.nodes.values():
        if c.kind == "stmt" and c.id not in in_loop:
            for k in ast.walk(c.ast):
                if isinstance(k, ast.Call) and isinstance(k.func, ast.Attribute) and k.func.attr == "set_node_attributes" and len(k.args) >= 3 and prog.try_fold(k.args[2], fold.mod, fold) == "selfloop":
                    sl.append((c, k))
    ok_sl = len(sl) == 1 and "selfloop_edges" in u(sl[0][1].args[1]) and not cfg.reach(cfg.entry, cfg.exit, avoid=[sl[0][0].id]) and cfg.reach(L.id, sl[0][0].id)
    ctx.ob("R03.2", "fold:selfloop-tag-after-loop", ok_sl, fold.loc(), "after the loop every node with a self-loop edge gets the SELFLOOP tag, on every path to the return")

    # ---- R03.3 removals ---------------------------------------------------------------
    n_rem = 0
    for c in cfg.nodes.values():
        if c.ast is None or c.kind != "stmt":
            continue
        for k in ast.walk(c.ast):
            if not (isinstance(k, ast.Call) and isinstance(k.func, ast.Attribute) and k.func.attr in GRAPH_REMOVERS):
                continue
            recv_t = prog.infer(k.func.value, fold)
            if not ("DiGraph" in repr(recv_t) or "Graph" in repr(recv_t)):
                # not a graph (e.g. list.clear) - only graph typed or the accumulated graph variable
                if not _is_graph_var(prog, fold, k.func.value):
                    continue
            n_rem += 1
            meth = k.func.attr
            where = f"{fold.mod.path}:{k.lineno}"
            facts = cfg.facts_at(c.id)
            inside = c.id in in_loop
            if meth in ("remove_nodes_from", "remove_edges_from", "clear", "clear_edges"):
                ctx.ob("R03.3", f"fold:bulk-removal:{meth}", False, where, f"`{u(k)[:70]}` removes nodes/edges in bulk: other tables' lineage can be disturbed")
                continue
            if inside:
                branch = "drop" if any(t == f"{hname}.drop" and p for t, p in facts) else "rename" if any(t == f"{hname}.rename" and p for t, p in facts) else "other"
                if meth == "remove_node":
                    x = u(k.args[0]) if k.args else "?"
                    import re as _re
                    # the degree must be that of the very graph the node is removed from (a read leaves an alias / column edge that a
                    # dataset-only view of the graph does not show): <G>.degree[x] with <G> the receiver of remove_node or a plain alias of it
                    recv = k.func.value
                    same_graph = [gname for gname in {m.group(1) for t, _ in facts for m in [_re.match(r"(?:not )?(\w+)\.degree[\[(]", t)] if m}
                                  if gname == u(recv) or any(isinstance(v, ast.Name) and v.id == u(recv) for v in prog.value_sources(fold, ast.Name(id=gname, ctx=ast.Load())))]
                    dpat = "(?:" + "|".join(_re.escape(gn) for gn in same_graph) + r")\.degree[\[(]" + _re.escape(x) + r"[\])]" if same_graph else r"(?!x)x"
                    deg0 = any(p and (_re.fullmatch(dpat + " == 0", t) or _re.fullmatch("not " + dpat, t)) or (not p) and (_re.fullmatch(dpat, t) or _re.fullmatch(dpat + " > 0", t)) for t, p in facts)
                    is_loopvar = _is_loop_target_of(cfg, c.id, x, (f"{hname}.drop", f"{hname}.rename"))
                    ctx.ob("R03.3", f"fold:remove_node:{branch}", deg0 and is_loopvar and branch in ("drop", "rename"), where,
                           f"`{u(k)}` must target the dropped / renamed table and be dominated by a proof that its degree is 0")
                else:  # remove_edge
                    same = len(k.args) == 2 and u(k.args[0]) == u(k.args[1]) and _is_loop_target_of(cfg, c.id, u(k.args[0]), (f"{hname}.rename",))
                    ctx.ob("R03.3", f"fold:remove_edge:{branch}", same and branch == "rename", where,
                           f"`{u(k)}`: the only edge a statement may remove is the renamed table's own self-loop")
            else:
                # late resolution of unresolved columns: only Column nodes / edges leaving a Column
                if meth == "remove_node":
                    x = u(k.args[0]) if k.args else "?"
                    ok = any(p and t == f"isinstance({x}, Column)" for t, p in facts)
                    ctx.ob("R03.3", "post-fold:remove_node-column-only", ok, where, f"`{u(k)}` after the fold may only remove Column nodes")
                else:
                    x = u(k.args[0]) if k.args else "?"
                    ok = _bound_to_column_filtered(prog, fold, x)
                    ctx.ob("R03.3", "post-fold:remove_edge-column-only", ok, where, f"`{u(k)}` after the fold may only remove edges leaving a Column")
    ctx.floor("graph removal sites in the fold function", n_rem, 3)

    # ---- R03.4 rename iteration order -------------------------------------------------
    for nid in effects["rename"]:
        c = cfg.nodes[nid]
        it = c.ast.iter
        t = prog.infer(it, fold)
        ordered = t.kind in ("list", "tuple") or (isinstance(it, ast.Call) and isinstance(it.func, ast.Name) and it.func.id == "sorted")
        body_calls = {k.func.attr for k in ast.walk(c.ast) if isinstance(k, ast.Call) and isinstance(k.func, ast.Attribute)}
        noncommuting = bool(body_calls & {"relabel_nodes", "remove_node", "remove_edge"})
        ctx.ob("R03.4", "fold:rename-iteration-order", ordered or not noncommuting, f"{fold.mod.path}:{c.lineno}",
               f"`{c.text()[:60]}` iterates {t!r}: relabel/remove do not commute, so the outcome of a multi-pair RENAME depends on set order")

    # ---- R03.5 (= R05.4): the roles are a function of the sequence of statements - the splitter hands over every statement once, in order
    # (a splitter that drops a repeated statement changes what a later DROP / re-creation sees)
    from .common import import_rules as _imp03

    _imp03(ctx, "C05", {"R05.4": "R03.5", "R05.1": "R03.6"})
    # (= R05.3) a statement's reads and writes are its own: nothing an extractor collected for an earlier statement is left in it
    _imp03(ctx, "C05", {"R05.3": "R03.6"}, key_filter=lambda o: o.key.startswith(("analyzer-state", "per-query-object")))
    # ---- R03.7 (= R18.1, edges): the edges are observed through the export as well - it lists every edge of the graph, a statement's r -> r included
    _imp03(ctx, "C18", {"R18.1": "R03.7"}, key_filter=lambda o: o.key.startswith(("edges:", "graph:")))


def _fmt(v: dict) -> str:
    return "{" + ", ".join(f"{k}={int(b)}" for k, b in v.items()) + "}"


def _class_names(prog: Prog, e: ast.AST, fn: Fn) -> set[str]:
    if isinstance(e, ast.Tuple):
        out = set()
        for x in e.elts:
            out |= _class_names(prog, x, fn)
        return out
    if isinstance(e, ast.Name):
        r = prog.resolve(fn.mod.name, e.id, fn)
        if r[0] == "class":
            return {prog.classes[r[1]].name}
        if r[0] == "var" and r[2] is not None:
            m = prog.mods[r[1].rsplit(".", 1)[0]]
            if isinstance(r[2], ast.Tuple):
                out = set()
                for x in r[2].elts:
                    rr = prog.resolve_expr(x, m)
                    if rr[0] == "class":
                        out.add(prog.classes[rr[1]].name)
                return out
    return {u(e)}


def _tags_referenced(prog: Prog, H: Cls, m: Fn, _seen=None) -> set[str]:
    """NodeTag constants the method depends on, through helper calls, properties and attributes set in __init__."""
    seen = _seen if _seen is not None else set()
    if m.qual in seen:
        return set()
    seen.add(m.qual)
    out: set[str] = set()
    init = prog.find_method(H, "__init__")
    for n in ast.walk(m.node):
        if isinstance(n, ast.Attribute):
            v = prog.try_fold(n, m.mod, m)
            if isinstance(v, str) and v in ("selfloop", "source_only", "target_only", "read", "write", "cte", "drop"):
                out.add(v)
            if isinstance(n, ast.Attribute) and isinstance(n.value, ast.Name) and n.value.id == "self":
                pm = prog.find_method(H, n.attr)
                if pm is not None and pm is not m:
                    out |= _tags_referenced(prog, H, pm, seen)
                elif init is not None and m is not init:
                    for k in ast.walk(init.node):
                        if isinstance(k, ast.Assign) and len(k.targets) == 1 and is_self_attr(k.targets[0], n.attr):
                            for kk in prog.influences(init, k.value):
                                v2 = prog.try_fold(kk, init.mod, init) if isinstance(kk, ast.Attribute) else None
                                if isinstance(v2, str) and v2 in ("selfloop", "source_only", "target_only"):
                                    out.add(v2)
        if isinstance(n, ast.Call):
            if "selfloop_edges" in u(n.func):
                out.add("selfloop")
            for cal in prog.resolve_call(n, m):
                if isinstance(cal, Fn) and cal.cls is not None and prog.is_subclass(H, cal.cls):
                    out |= _tags_referenced(prog, H, cal, seen)
    return out


def _origin(prog: Prog, fn: Fn, e: ast.AST) -> str:
    """Text of the expression a simple local was bound from (one step, tuple-unpacking aware)."""
    if isinstance(e, ast.Name):
        defs = prog.local_defs(fn, e.id)
        if len(defs) == 1:
            kind, node = defs[0]
            if kind == "assign":
                return u(node.value)
            if kind.startswith("unpack:") and isinstance(node, ast.Assign) and isinstance(node.value, ast.Tuple):
                i = int(kind.split(":")[1])
                if i < len(node.value.elts):
                    return u(node.value.elts[i])
    return u(e)


def _rw_names(prog: Prog, fn: Fn, hname: str) -> dict[str, str]:
    out = {}
    for name in {n.id for n in ast.walk(fn.node) if isinstance(n, ast.Name)}:
        o = _origin(prog, fn, ast.Name(id=name, ctx=ast.Load()))
        if o == f"{hname}.read":
            out[name] = "read"
        elif o == f"{hname}.write":
            out[name] = "write"
    out.setdefault(f"{hname}.read", "read")
    out.setdefault(f"{hname}.write", "write")
    return out


def _about_holder(txt: str, hname: str, prog: Prog, fn: Fn) -> bool:
    try:
        e = ast.parse(txt, mode="eval").body
    except SyntaxError:
        return False
    rw = _rw_names(prog, fn, hname)
    for n in ast.walk(e):
        if isinstance(n, ast.Name) and n.id not in (hname, "len", "bool") and n.id not in rw:
            return False
    return True


def _is_loop_target_of(cfg, nid: int, var: str, iters: tuple) -> bool:
    for c in cfg.nodes.values():
        if c.kind == "for" and any(i in u(c.ast.iter) for i in iters) and cfg.reach(c.id, nid):
            if var in {n.id for n in ast.walk(c.ast.target) if isinstance(n, ast.Name)}:
                return True
    return False


def _is_graph_var(prog: Prog, fn: Fn, e: ast.AST) -> bool:
    if not isinstance(e, ast.Name):
        return False
    for kind, node in prog.local_defs(fn, e.id):
        if kind == "assign" and any(s in u(node.value) for s in ("DiGraph(", "compose(", "relabel_nodes(")):
            return True
    return False


def _bound_to_column_filtered(prog: Prog, fn: Fn, var: str) -> bool:
    """`var` is a loop target over a list built by a comprehension filtered with isinstance(<first>, Column)."""
    for kind, node in prog.local_defs(fn, var):
        if kind.startswith("unpack:") and isinstance(node, ast.For):
            for lc in prog.value_sources(fn, node.iter):
                if isinstance(lc, ast.ListComp):
                    idx = int(kind.split(":")[1])
                    if isinstance(lc.elt, ast.Tuple) and idx < len(lc.elt.elts):
                        first = u(lc.elt.elts[idx])
                        if any(f"isinstance({first}, Column)" in u(c) for g in lc.generators for c in g.ifs):
                            return True
    return False
