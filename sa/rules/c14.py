"""C14 - a default schema equals explicit qualification (DESIGN.md C14, rules R14.1-R14.5)."""

from __future__ import annotations

import ast
from typing import Optional

from ..astutil import is_self_attr, u
from ..cfg import flow
from ..model import AnalysisError, Cls, Fn, Prog, loc
from ..report import Ctx

EXPLANATION = (
    "Static analysis of where the configured default schema is consulted. Decides: R14.1 no import-time expression (module top level, "
    "class body, decorator, default-argument expression) reaches a read of the DEFAULT_SCHEMA key in the call graph - the configuration "
    "must be consulted when a table object is created, never earlier; R14.2 no value derived from that read is cached in module-level or "
    "class-level state; every construction site of Table (or a subclass) either passes a schema computed in the enclosing call or relies on "
    "the constructor's call-time fallback; R14.3 no decision in the parsers/holders branches on whether a schema object is the placeholder "
    "(truthiness of a Schema conflates 'unqualified' with 'qualified by the default'); R14.4 the schema fallback chain is explicit name -> "
    "configured default -> placeholder, each normalised by the same normaliser; R14.5 the loader's look-up order (thread override, then SQLLINEAGE_<key> "
    "environment, then declared default, presence tested per key) so that both mechanisms named by the property reach the reader. Does not decide: equality of the two analyses as values "
    "(it follows from these clauses plus C16's 'same spelling, same entity')."
    ' R14.2 also rejects a schema name fixed in the code at a construction site; R14.3 also covers comparisons with a freshly built default schema or the configured name (lambdas included); R14.7 (= R12.2) no memo outlives a change of the default; R14.8 (= R15.7) the analysis stays in the calling thread.'
    ' R14.2 follows the schema argument through locals, `or` and conditional expressions, and rejects the schema of another object given to an unqualified name; a comparison with the configured default is never an allowed placeholder test.'
)
RULE_TEXT = "one obligation per import-time call chain, Table construction site, Schema truthiness test and fallback branch; all non-trivial except anchors"

KEY = "DEFAULT_SCHEMA"


def rules(ctx: Ctx) -> None:
    prog = ctx.prog
    Schema = prog.try_cls("core.models.Schema")
    Table = prog.try_cls("core.models.Table")
    if Schema is None or Table is None:
        raise AnalysisError("Schema / Table model classes not found")
    g = prog.build_callgraph()
    # readers of the key: functions containing `<config instance>.DEFAULT_SCHEMA`
    readers: list[Fn] = []
    read_sites = 0
    for f in prog.funcs.values():
        for n in prog.walk_fn(f):
            if isinstance(n, ast.Attribute) and n.attr == KEY and isinstance(n.ctx, ast.Load):
                read_sites += 1
                if f not in readers:
                    readers.append(f)
    import_time_reads = []
    for m in prog.mods.values():
        for n in prog.import_time_nodes(m):
            if isinstance(n, ast.Attribute) and n.attr == KEY and isinstance(n.ctx, ast.Load):
                import_time_reads.append((m, n))
    ctx.floor("readers of the DEFAULT_SCHEMA key", len(readers), 1)
    ctx.extra["anchors"] = {"readers": [r.qual for r in readers]}
    ctx.touched(*readers)

    # ---- R14.1 ---------------------------------------------------------------------------
    for m, n in import_time_reads:
        ctx.ob("R14.1", f"import-time-read:{m.name}", False, loc(m, n), f"`{u(n)}` is evaluated while {m.name} is imported: later overrides are ignored")
    n_chains = 0
    for m in prog.mods.values():
        src = f"<module>:{m.name}"
        if src not in g:
            continue
        for r in readers:
            path = prog.call_path(src, r.qual)
            if path is not None:
                n_chains += 1
                first = g[path[0]][path[1]]["sites"][0]
                ctx.ob("R14.1", f"import-time-chain:{m.name}->{r.qual.split('.', 2)[-1]}", False, loc(m, first),
                       f"`{u(first)[:60]}` runs at import of {m.name} and reaches the DEFAULT_SCHEMA read via " + " -> ".join(p.rsplit('.', 2)[-2] + '.' + p.rsplit('.', 1)[-1] if '.' in p else p for p in path[1:]))
    ctx.ob("R14.1", "no-import-time-read", n_chains == 0 and not import_time_reads, Schema.loc(),
           f"{len(prog.mods)} modules' import-time expressions (top level, class bodies, decorators, default arguments) checked against {len(readers)} reader(s)", trivial=True)

    # ---- R14.2 construction sites + no caching ------------------------------------------
    table_like = [Table] + prog.subclasses(Table)
    tinit = prog.find_method(Table, "__init__")
    ctx.touched(tinit)
    # constructor fallback evaluated in the body
    sparam = next((a for a in tinit.node.args.args if a.arg == "schema"), None)
    body_fallback = any(isinstance(n, ast.Call) and any(isinstance(c, Fn) and c.cls is Schema for c in prog.resolve_call(n, tinit)) and not n.args for n in prog.walk_fn(tinit))
    ctx.ob("R14.2", "table-ctor-fallback-at-call-time", sparam is not None and body_fallback, tinit.loc(),
           "Table.__init__ builds the default Schema() in its body when no schema is given")
    n_sites = 0
    for f in prog.funcs.values():
        for n in prog.walk_fn(f):
            if not isinstance(n, ast.Call):
                continue
            t = prog.infer(n.func, f) if isinstance(n.func, (ast.Name, ast.Attribute)) else None
            if t is None or not any(a.kind == "cls" and a.name in {k.qual for k in table_like} for a in t.alts()):
                continue
            n_sites += 1
            schema_arg = n.args[1] if len(n.args) > 1 else next((k.value for k in n.keywords if k.arg == "schema"), None)
            if schema_arg is None:
                ctx.ob("R14.2", f"table-site:{f.qual.split('.', 2)[-1]}:ctor-fallback", sparam is not None and body_fallback, loc(f.mod, n),
                       f"`{u(n)[:60]}` omits the schema and relies on the constructor's call-time fallback")
            else:
                # computed in this call: a local / a call, not a module- or class-level constant
                ok = True
                for nm in [x for x in ast.walk(schema_arg) if isinstance(x, ast.Name)]:
                    if not prog.local_defs(f, nm.id) and prog.param_type(f, nm.id) is None:
                        r = prog.resolve(f.mod.name, nm.id, f)
                        if r[0] == "var":
                            ok = False
                # ... from the SQL text or an existing object - a schema name fixed in the code (the placeholder, a literal) decides where an
                # unqualified name lives without asking the configuration
                def _fixed_name(e: ast.AST) -> bool:
                    # the name handed to Schema(..) is - on some path - a constant of the code: a literal, the placeholder, also as the fallback of `x or ..` / `.. if c else ..`
                    for v in [e] + list(prog.value_sources(f, e)):
                        if isinstance(prog.try_fold(v, f.mod, f), str):
                            return True
                        if isinstance(v, ast.BoolOp) and any(_fixed_name(x) for x in v.values):
                            return True
                        if isinstance(v, ast.IfExp) and (_fixed_name(v.body) or _fixed_name(v.orelse)):
                            return True
                    return False

                fixed = [c_ for sa_ in [schema_arg] + [v for v in prog.value_sources(f, schema_arg) if isinstance(v, ast.AST)] for c_ in ast.walk(sa_)
                         if isinstance(c_, ast.Call) and c_.args and _fixed_name(c_.args[0])
                         and any(isinstance(x, Fn) and x.cls is Schema for x in prog.resolve_call(c_, f))]
                # ... and it belongs to the name it is given to: the schema of ANOTHER object (`Table(new.raw_name, old.schema)`) places an unqualified
                # name next to that object instead of in the default schema
                name_arg = n.args[0] if n.args else next((k.value for k in n.keywords if k.arg == "name"), None)
                def _roots(e: ast.AST) -> set[str]:
                    out = set()
                    for v in [e] + [x for x in prog.value_sources(f, e) if isinstance(x, ast.AST)]:
                        for a_ in ast.walk(v):
                            if isinstance(a_, ast.Attribute) and isinstance(a_.value, ast.Name):
                                out.add(a_.value.id)
                    return out
                borrowed = [a_ for sa_ in [schema_arg] + [v for v in prog.value_sources(f, schema_arg) if isinstance(v, ast.AST)] for a_ in ast.walk(sa_)
                            if isinstance(a_, ast.Attribute) and a_.attr == "schema" and isinstance(a_.value, ast.Name) and a_.value.id != "self"
                            and name_arg is not None and _roots(name_arg) and a_.value.id not in _roots(name_arg)]
                if borrowed:
                    ctx.ob("R14.2", f"table-site:{f.qual.split('.', 2)[-1]}:schema-of-another-object", False, loc(f.mod, n),
                           f"`{u(n)[:70]}` gives the name the schema of `{u(borrowed[0].value)}`: an unqualified name denotes a table of the default schema, wherever the other object lives")
                ctx.ob("R14.2", f"table-site:{f.qual.split('.', 2)[-1]}:explicit-schema", ok and not fixed, loc(f.mod, n),
                       f"`{u(n)[:60]}` passes a schema computed in the enclosing call" + (f"; `{u(fixed[0])}` is a schema name fixed in the code: the configured default is never consulted for this table" if fixed else ""))
    ctx.floor("Table construction sites", n_sites, 5)
    # no caching of config-derived schema in module / class state
    for f in prog.funcs.values():
        globs = {nm for n in prog.walk_fn(f) if isinstance(n, ast.Global) for nm in n.names}
        for n in prog.walk_fn(f):
            if isinstance(n, ast.Assign):
                tt = prog.infer(n.value, f)
                is_schema = any(a.kind == "inst" and a.name == Schema.qual for a in tt.alts()) or _reads_key(n.value)
                if not is_schema:
                    continue
                for t in n.targets:
                    shared = isinstance(t, ast.Name) and t.id in globs or isinstance(t, ast.Attribute) and isinstance(t.value, ast.Name) and (
                        t.value.id == "cls" or prog.resolve(f.mod.name, t.value.id, f)[0] == "class")
                    if shared:
                        ctx.ob("R14.2", f"cached-default:{f.name}", False, loc(f.mod, n), f"`{u(n)[:70]}` caches a configuration-derived schema in shared state")
    for m in prog.mods.values():
        for st in m.tree.body:
            if isinstance(st, (ast.Assign, ast.AnnAssign)) and getattr(st, "value", None) is not None:
                tt = prog.infer(st.value, None, mod=m)
                if any(a.kind == "inst" and a.name in ({Schema.qual} | {k.qual for k in table_like}) for a in tt.alts()):
                    ctx.ob("R14.2", f"module-level-instance:{m.name}", False, loc(m, st), f"`{u(st)[:70]}` creates a schema/table object at import time")
    for c in prog.classes.values():
        for nm, val in c.consts.items():
            tt = prog.infer(val, None, mod=c.mod)
            if any(a.kind == "inst" and a.name in ({Schema.qual} | {k.qual for k in table_like}) for a in tt.alts()) or _reads_key(val):
                ctx.ob("R14.2", f"class-level-instance:{c.name}.{nm}", False, c.loc(), f"class attribute {c.name}.{nm} freezes a configuration-derived value at import")

    # ---- R14.3 no branching on placeholder-ness of a schema ------------------------------
    allow = {
        ("Table.__init__", "warn-on-ignored-schema-param"): "only emits a warning when a dotted name makes the schema parameter redundant; no lineage decision",
        ("SQLLineageHolder._build_digraph", "metadata-only-for-known-schema"): "metadata is consulted only for tables whose schema is known; a configured default and explicit "
                                                                              "qualification both make it known, so both spellings take the same branch",
        ("Schema.__bool__", "definition"): "definition of the placeholder test itself",
    }
    n_tests = 0
    for f in prog.funcs.values():
        fl = None
        for n in prog.walk_fn(f):
            tested: Optional[ast.AST] = None
            against_default = False
            par = prog.parent(n)
            if isinstance(n, ast.expr) and _in_test_position(prog, n):
                t = prog.infer(n, f)
                if any(a.kind == "inst" and a.name == Schema.qual for a in t.alts()):
                    tested = n
            if isinstance(n, ast.Compare) and any("unknown" in u(x) and "Schema" in u(x) or (isinstance(x, ast.Attribute) and x.attr == "unknown") for x in [n.left] + n.comparators):
                tested = n
            # ... or on whether it equals the configured default: comparing with a freshly built `Schema()` (or the configured name itself) makes
            # the outcome a function of the configuration rather than of the names written in the script
            if isinstance(n, ast.Compare) and f.mod.name != Schema.mod.name:
                for x in [n.left] + n.comparators:
                    for v in ([x] if not isinstance(x, ast.Name) else prog.value_sources(f, x)):
                        if (isinstance(v, ast.Call) and not v.args and not v.keywords and any(isinstance(c_, Fn) and c_.cls is Schema for c_ in prog.resolve_call(v, f))) or (
                                isinstance(v, ast.AST) and _reads_key(v)):
                            tested = n
                            against_default = True
            if tested is None:
                continue
            n_tests += 1
            qual = f"{f.cls.name}.{f.name}" if f.cls else f.name
            what = "warn-on-ignored-schema-param" if qual == "Table.__init__" else "metadata-only-for-known-schema" if qual == "SQLLineageHolder._build_digraph" else "definition" if qual == "Schema.__bool__" else "placeholder-test"
            if against_default:
                what = "compared-with-the-configured-default"  # no allow entry covers this form: its outcome changes with the configuration
            if (qual, what) in allow:
                # re-check the reason structurally where possible
                ok_reason = True
                if qual == "Table.__init__":
                    st = prog.enclosing_stmt(tested)
                    ok_reason = isinstance(st, ast.If) and all(isinstance(b, ast.Expr) and isinstance(b.value, ast.Call) and "warn" in u(b.value.func) for b in st.body) and not st.orelse
                if ok_reason:
                    ctx.allow("R14.3", f"schema-placeholder-test:{qual}", loc(f.mod, tested), f"`{u(tested)[:60]}`", allow[(qual, what)])
                    continue
            ctx.ob("R14.3", f"schema-placeholder-test:{qual}", False, loc(f.mod, tested),
                   f"`{u(tested)[:60]}` decides on whether a schema is the placeholder: with a default schema configured an unqualified name takes the other branch "
                   f"than the same script written with explicit qualification (decide on the SQL text, e.g. dot presence, instead)")
    ctx.extra["schema_placeholder_tests_found"] = n_tests

    # ---- R14.5 both mechanisms (environment, scoped override) reach the reader: look-up order of the loader (= R15.6)
    from dataclasses import replace

    from .common import import_rules as _imp14

    _imp14(ctx, "C15", {"R15.6": "R14.5"})

    # ---- R14.4 fallback chain in Schema.__init__ -------------------------------------------
    sinit = Schema.methods.get("__init__")
    if sinit is None:
        raise AnalysisError("Schema.__init__ not found")
    ctx.touched(sinit)
    fl = flow(prog, sinit)
    pname = sinit.params()[1] if len(sinit.params()) > 1 else None
    norm = prog.try_fn("utils.helpers.escape_identifier_name")
    stores = [n for n in prog.walk_fn(sinit) if isinstance(n, ast.Assign) and any(is_self_attr(t, "raw_name") for t in n.targets)]
    if not stores:
        ctx.ob("R14.4", "fallback:resolved-at-construction", False, sinit.loc(),
               "Schema.__init__ does not store the schema name: the fallback chain (explicit name, configured default, placeholder) must be resolved when the object is "
               "created - resolved on every read, one object means different schemas under different settings (and as a graph key it moves)")
    ctx.floor("stores of the schema name in Schema.__init__", len(stores), 1)
    kinds = set()
    for st in stores:
        v = st.value
        normalised = isinstance(v, ast.Call) and norm is not None and norm in prog.resolve_call(v, sinit)
        inner = u(v.args[0]) if normalised and v.args else u(v)
        facts = fl.facts_for(st)
        where = loc(sinit.mod, st)
        cfg_true = any(KEY in t and p for t, p in facts)
        cfg_false = any(KEY in t and not p for t, p in facts)
        name_true = any(t == pname and p for t, p in facts) or any(t in (f"{pname} is not None", f"{pname} != None") and p for t, p in facts)
        name_false = any(t == pname and not p for t, p in facts) or any(t in (f"{pname} is None",) and p for t, p in facts)
        parts = _alternatives(v.args[0] if normalised and v.args else v)
        for part in parts:
            ptxt = u(part)
            if pname and pname in {x.id for x in ast.walk(part) if isinstance(x, ast.Name)}:
                kind = "explicit"
                ok = name_true or len(parts) > 1 and parts.index(part) == 0
            elif KEY in ptxt:
                kind = "configured"
                ok = (name_false or _earlier_are(parts, part, pname)) and (cfg_true or len(parts) > 1)
            elif "unknown" in ptxt:
                kind = "placeholder"
                ok = (name_false or _earlier_are(parts, part, pname)) and (cfg_false or any(KEY in u(q) for q in parts[: parts.index(part)]))
            else:
                kind, ok = "other", False
            kinds.add(kind)
            ctx.ob("R14.4", f"fallback:{kind}:order", ok, where, f"`{u(st)[:70]}`: the {kind} name is used exactly when the earlier links of the chain are empty")
            ctx.ob("R14.4", f"fallback:{kind}:normalised", normalised, where, f"`{u(st)[:70]}`: every link of the chain goes through the identifier normaliser")
    for k in ("explicit", "configured", "placeholder"):
        ctx.ob("R14.4", f"fallback:{k}:present", k in kinds, sinit.loc(), f"the fallback chain has its {k} link")
    # ---- R14.6 a scope that is open is not written into by a later, refused attempt to open another one (= R15.3) ---------------------
    from .common import import_rules as _imp14b

    _imp14b(ctx, "C15", {"R15.3": "R14.6"})
    # ---- R14.7 no memo outlives a change of the default schema (= R12.2, memoising decorators): names resolved under one default are
    # handed out again under another
    _imp14b(ctx, "C12", {"R12.2": "R14.7"}, key_filter=lambda o: o.key.startswith("memoised:"))

    # ---- R14.8 (= R15.7): the statements of a script are analysed in the thread that holds the scoped default schema
    _imp14b(ctx, "C15", {"R15.7": "R14.8"})


def _reads_key(e: ast.AST) -> bool:
    return any(isinstance(n, ast.Attribute) and n.attr == KEY for n in ast.walk(e))


def _in_test_position(prog: Prog, n: ast.AST) -> bool:
    par = prog.parent(n)
    if isinstance(par, (ast.If, ast.While, ast.IfExp)) and par.test is n:
        return True
    if isinstance(par, ast.UnaryOp) and isinstance(par.op, ast.Not):
        return True
    if isinstance(par, ast.BoolOp):
        return True
    if isinstance(par, ast.Call) and isinstance(par.func, ast.Name) and par.func.id == "bool":
        return True
    if isinstance(par, ast.comprehension) and n in par.ifs:
        return True
    if isinstance(par, ast.Assert) and par.test is n:
        return True
    return False


def _alternatives(e: ast.AST) -> list[ast.AST]:
    if isinstance(e, ast.BoolOp) and isinstance(e.op, ast.Or):
        out = []
        for v in e.values:
            out += _alternatives(v)
        return out
    if isinstance(e, ast.IfExp):
        return _alternatives(e.body) + _alternatives(e.orelse)
    return [e]


def _earlier_are(parts: list, part: ast.AST, pname: Optional[str]) -> bool:
    idx = parts.index(part)
    return idx > 0 and pname is not None and any(pname in {x.id for x in ast.walk(q) if isinstance(x, ast.Name)} for q in parts[:idx])
