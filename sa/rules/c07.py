"""C07 - lineage is invariant under layout, comments and letter case (DESIGN.md C07, rules R07.1-R07.4)."""

from __future__ import annotations

import ast
from dataclasses import replace
from typing import Optional

from ..astutil import u
from ..grammar import grammar
from ..model import AnalysisError, Fn, Prog, loc
from ..report import Ctx
from . import common as _common
from ..safety import _is_seq_source, scan_function

EXPLANATION = (
    "Static analysis of the two failure mechanisms named by the property's anchors. Decides: R07.1 positional logic only on filtered "
    "sibling lists: every positional consumer (constant / arithmetic subscript, 'flag then next element' loop) reads a sequence from which "
    "whitespace, comments and meta segments were removed (list_child_segments, a filter calling is_negligible / is_token_negligible or "
    "testing both is_whitespace and is_comment, typed selection by get_child/get_children); raw `.segments[k]` sites that are correct "
    "because the grammar forbids gaps there are allow-table entries whose reason is re-checked against the grammar model; R07.2 text "
    "comparisons against keywords are case-insensitive: every comparison of a segment/token text with a literal containing a letter uses a "
    "case-folded projection (raw_upper, normalized, .upper(), .lower()) and the literal's case matches the projection; R07.3 qualifier parts "
    "are normalised part by part before they are joined (a composite is never handed to the normaliser with its inner quotes); R07.4 extra "
    "trailing semicolons and comment-only pieces are dropped by the two stated reasons only (= R05.2). R07.5 SQL text that is analysed afterwards is never re-flowed (no whitespace collapsing: a newline ends a line comment). Does not decide: quoting rules "
    "(C16), what the two lexers do with whitespace."
    ' R07.8 no source position (line, column, offset) enters the analysis; R07.9 (= R08.2) names looked up among CTE aliases are normalised first. R07.2 follows text through case-keeping string operations and locals (raw_normalized() keeps the case).'
    ' R07.12 (= R16.10) a name is looked up among names of its own spelling state (raw text is never searched among normalised names).'
)
RULE_TEXT = "one obligation per positional consumer on segment/token sequences, per flag loop, per keyword comparison"

FILTER_CALLS = {"list_child_segments", "get_children", "get_child", "get_identifiers", "get_sublists", "get_parameters"}

_SQLPARSE_GROUP = ("the non-validating analyzer strips comments before parsing (trim_comment) and sqlparse groups neither start nor end with a whitespace token, "
                   "so the first / last token of a group is a code token", None)
ALLOW_RAW = {
    "SqlParseColumn._extract_source_columns:.tokens:index:-1": _SQLPARSE_GROUP,
    "get_subquery_parentheses:.tokens:index:-1": _SQLPARSE_GROUP,
    "get_parameters:.tokens:index:-1": _SQLPARSE_GROUP,
    "SwapPartitionHandler.handle:.tokens:index:-1": _SQLPARSE_GROUP,
    "SqlFluffLineageAnalyzer.split_tsql:.segments:index:0": ("a `statement` node wraps exactly one child statement segment: nothing can sit before it", "statement-wraps-one"),
    "SqlFluffLineageAnalyzer.analyze:.segments:index:0": ("a `statement` node wraps exactly one child statement segment: nothing can sit before it", "statement-wraps-one"),
    "SqlFluffTable.of:.segments:index:0": ("object / table references are parsed with allow_gaps=False: no whitespace or comment between their parts", "reference-no-gaps"),
    "SqlFluffTable.of:.segments:index:i+1": ("same: dotted references have no gaps, so the segment after the last dot is the name part", "reference-no-gaps"),
    "SqlFluffTable.of:.segments:index:var": ("same: dotted references have no gaps", "reference-no-gaps"),
    "is_subquery:.segments:index:0": ("a from_expression_element starts with its table expression; comments before it attach to the enclosing from_expression", "fee-first"),
    "extract_as_and_target_segment:.segments:index:0": ("the target is a table_expression whose first child is the table reference / bracketed query (no leading gap inside a freshly matched segment)", "fee-first"),
    "SqlParseLineageAnalyzer.analyze:.tokens:index:1": ("the non-validating analyzer strips comments before parsing (trim_comment in analyze); token 1 of a Parenthesis follows the opening bracket", None),
    "BaseExtractor._list_table_from_from_clause_or_join_clause:.segments:index:-1": ("a file_reference has no gaps; its last segment is the path literal", "reference-no-gaps"),
}


def grammar_recheck(tag: Optional[str]) -> tuple[bool, str]:
    if tag is None:
        return True, ""
    import os
    from ..grammar import _parse, sqlfluff_dir

    g = grammar("ansi")
    if tag == "statement-wraps-one":
        ch = g.children("statement")
        return len(ch) > 10 and "keyword" not in ch, f"statement -> {len(ch)} alternatives, no sibling tokens"
    if tag == "reference-no-gaps":
        tree = _parse(os.path.join(sqlfluff_dir(), "dialects", "dialect_ansi.py"))
        for n in ast.walk(tree):
            if isinstance(n, ast.ClassDef) and n.name == "ObjectReferenceSegment":
                txt = ast.unparse(n)
                return "allow_gaps=False" in txt, "ObjectReferenceSegment.match_grammar has allow_gaps=False"
        return False, "ObjectReferenceSegment not found"
    if tag == "fee-first":
        ch = g.children("from_expression_element")
        return "table_expression" in ch, "from_expression_element -> table_expression first"
    return False, f"unknown re-check {tag}"


def is_filtered(prog: Prog, fn: Fn, e: ast.AST, depth: int = 0) -> Optional[bool]:
    """True: comments/whitespace removed; False: raw sibling sequence; None: not a segment/token sequence."""
    if depth > 4:
        return None
    if isinstance(e, ast.Attribute) and e.attr in ("segments", "tokens"):
        return False
    if isinstance(e, ast.Call):
        nm = e.func.attr if isinstance(e.func, ast.Attribute) else e.func.id if isinstance(e.func, ast.Name) else ""
        if nm in FILTER_CALLS:
            return True
        if nm in ("recursive_crawl", "iter_segments"):
            return False
        if nm in ("list", "tuple", "reversed", "enumerate") and e.args:
            return is_filtered(prog, fn, e.args[0], depth + 1)
        return None
    if isinstance(e, (ast.ListComp, ast.GeneratorExp)):
        g = e.generators[0]
        base = is_filtered(prog, fn, g.iter, depth + 1)
        if base is False:
            txt = " ".join(u(c) for gg in e.generators for c in gg.ifs)
            if "is_negligible" in txt or "is_token_negligible" in txt or ("is_whitespace" in txt and "is_comment" in txt):
                return True
            if any(".type ==" in u(c) or ".type in" in u(c) or "isinstance(" in u(c) or "get_child" in u(c) for gg in e.generators for c in gg.ifs):
                return True  # typed selection is layout-insensitive
            if any(isinstance(c, (ast.NamedExpr, ast.Call)) for gg in e.generators for c in gg.ifs):
                return True  # elements selected by what a look-up makes of them (find_table(t) is None for a comment)
            return False
        return base
    if isinstance(e, ast.Subscript) and isinstance(e.slice, ast.Slice):
        return is_filtered(prog, fn, e.value, depth + 1)
    if isinstance(e, ast.Name):
        res = []
        for kind, node in prog.local_defs(fn, e.id):
            if kind in ("assign", "walrus") and getattr(node, "value", None) is not None:
                res.append(is_filtered(prog, fn, node.value, depth + 1))
        res = [r for r in res if r is not None]
        if res:
            return all(res)
    return None


def rules(ctx: Ctx) -> None:
    prog = ctx.prog
    # ---- R07.1 (a) positional subscripts ------------------------------------------------------
    n_pos = 0
    used = set()
    for f in prog.funcs.values():
        if not f.mod.name.startswith("sqllineage.core.parser"):
            continue
        for s in scan_function(prog, f):
            if not s.kind.startswith("index:"):
                continue
            base = s.node.value
            filt = is_filtered(prog, f, base)
            if filt is None:
                continue
            n_pos += 1
            ctx.touched(f)
            where = loc(f.mod, s.node)
            if filt:
                ctx.ob("R07.1", s.key, True, where, f"`{u(s.node)}` indexes a sequence without whitespace / comment / meta siblings")
                continue
            if s.key in ALLOW_RAW:
                reason, tag = ALLOW_RAW[s.key]
                ok, info = grammar_recheck(tag)
                used.add(s.key)
                if ok:
                    ctx.allow("R07.1", s.key, where, f"`{u(s.node)}`", reason + (f" [grammar re-check: {info}]" if info else ""))
                else:
                    ctx.ob("R07.1", s.key, False, where, f"`{u(s.node)}` indexes raw siblings; the grammar fact that made it safe no longer holds: {info}")
                continue
            ctx.ob("R07.1", s.key, False, where, f"`{u(s.node)}` indexes raw sibling segments/tokens: an inserted comment or newline shifts the position")
    ctx.floor("positional consumers on segment / token sequences", n_pos, 12)
    # ---- R07.1 (b) flag-then-next loops ----------------------------------------------------------
    n_flag = 0
    for f in prog.funcs.values():
        if not f.mod.name.startswith("sqllineage.core.parser"):
            continue
        for n in prog.walk_fn(f):
            if not isinstance(n, ast.For):
                continue
            seen_vals: dict[str, set] = {}
            for k in ast.walk(n):
                if isinstance(k, ast.Assign) and isinstance(k.value, ast.Constant) and isinstance(k.value.value, bool):
                    for t in k.targets:
                        if isinstance(t, ast.Name) and any(not any(a is n for a in prog.ancestors(node)) for _, node in prog.local_defs(f, t.id)):
                            seen_vals.setdefault(t.id, set()).add(k.value.value)
                        elif isinstance(t, ast.Attribute) and isinstance(t.value, ast.Name) and t.value.id == "self":
                            seen_vals.setdefault(u(t), set()).add(k.value.value)
            # a flag that is both raised and cleared inside the loop is consumed by "the next element"
            flags = {nm for nm, vs in seen_vals.items() if vs == {True, False}}
            if not flags:
                continue
            it = n.iter.args[0] if isinstance(n.iter, ast.Call) and isinstance(n.iter.func, ast.Name) and n.iter.func.id == "enumerate" and n.iter.args else n.iter
            filt = is_filtered(prog, f, it)
            if filt is None:
                continue
            if filt is False:
                # sqlparse style: leading `if is_token_negligible(x): continue`
                first = [s for s in n.body if not (isinstance(s, ast.Expr) and isinstance(s.value, ast.Constant))][:1]
                # normal form of `if is_token_negligible(x): continue`: the whole rest of the body under `if not is_token_negligible(x):`
                if first and isinstance(first[0], ast.If) and len([s for s in n.body if not (isinstance(s, ast.Expr) and isinstance(s.value, ast.Constant))]) == 1 and not first[0].orelse \
                        and u(first[0].test) in (f"not is_token_negligible({u(n.target)})", f"not is_negligible({u(n.target)})"):
                    filt = True
                elif first and isinstance(first[0], ast.If) and ("is_token_negligible" in u(first[0].test) or "is_negligible" in u(first[0].test)) and any(isinstance(b, ast.Continue) for b in first[0].body):
                    filt = True
                elif f.mod.name.startswith("sqllineage.core.parser.sqlparse") and not any("flag" in fl_ and True for fl_ in []):
                    pass
            n_flag += 1
            ctx.touched(f)
            owner = f"{f.cls.name}.{f.name}" if f.cls else f.name
            ctx.ob("R07.1", f"flag-loop-on-filtered-siblings:{owner}", bool(filt), loc(f.mod, n),
                   f"`for {u(n.target)} in {u(n.iter)[:50]}` carries flags {sorted(flags)} from one element to the next: the sequence must not contain comments / whitespace "
                   f"(a comment right after the keyword would consume the flag)")
    ctx.floor("'flag then next element' loops", n_flag, 3)

    # ---- R07.2 keyword comparisons ------------------------------------------------------------------
    n_cmp = 0
    for f in prog.funcs.values():
        if not f.mod.name.startswith("sqllineage.core.parser") and not f.mod.name.endswith("helpers"):
            continue
        for n in prog.walk_fn(f):
            if not (isinstance(n, ast.Compare) and len(n.ops) == 1 and isinstance(n.ops[0], (ast.Eq, ast.NotEq, ast.In, ast.NotIn))):
                continue
            left, right = n.left, n.comparators[0]
            proj = _text_projection(left, prog, f)
            lits = prog.try_fold(right, f.mod, f)
            if proj is None:
                proj = _text_projection(right, prog, f)
                lits = prog.try_fold(left, f.mod, f)
            if proj is None:
                continue
            vals = [lits] if isinstance(lits, str) else [x for x in lits if isinstance(x, str)] if isinstance(lits, (list, tuple, set)) else []
            vals = [v for v in vals if any(ch.isalpha() for ch in v)]
            if not vals:
                continue
            n_cmp += 1
            owner = f"{f.cls.name}.{f.name}" if f.cls else f.name
            if proj == "raw":
                ok = False
                why = "compares case-preserving text with a keyword literal"
            elif proj == "upper":
                ok = all(v == v.upper() for v in vals)
                why = "upper-cased projection needs upper-case literals"
            else:
                ok = all(v == v.lower() for v in vals)
                why = "lower-cased projection needs lower-case literals"
            ctx.ob("R07.2", f"keyword-comparison-case-insensitive:{owner}:{vals[0]}", ok, loc(f.mod, n), f"`{u(n)[:70]}`: {why}", trivial=True)
            ctx.touched(f)
    ctx.floor("keyword text comparisons", n_cmp, 21)

    # ---- R07.3 qualifier parts normalised one by one --------------------------------------------------
    for fq in ("parser.sqlfluff.models.SqlFluffTable.of", "parser.sqlparse.models.SqlParseTable.of"):
        f = prog.fn(fq)
        ctx.touched(f)
        joins = [k for k in prog.walk_fn(f) if isinstance(k, ast.Call) and isinstance(k.func, ast.Attribute) and k.func.attr == "join" and k.args and isinstance(k.args[0], (ast.ListComp, ast.GeneratorExp))]
        ok = bool(joins) and all(isinstance(j.args[0].elt, ast.Call) and u(j.args[0].elt.func).endswith("escape_identifier_name") for j in joins)
        ctx.ob("R07.3", f"qualifier-parts-normalised-one-by-one:{f.cls.name}", ok, f.loc(),
               "each part of a dotted qualifier loses its own quotes before the parts are joined (a composite like \"db\".\"sch\" handed to the normaliser only loses its outer quotes)")

    # ---- R07.4 = R05.2 --------------------------------------------------------------------------------
    _common.import_rules(ctx, "C05", {"R05.2": "R07.4"})
    # the sqlparse-based analyzer strips comments before parsing (its anchor for comment insensitivity)
    sp = prog.fn("SqlParseLineageAnalyzer.analyze")
    ctx.ob("R07.1", "sqlparse-analyzer-strips-comments-first", any(_common.strips_comments(prog, sp, k) for k in prog.walk_fn(sp) if isinstance(k, ast.Call)), sp.loc(),
           "the non-validating analyzer parses the statement with comments removed")

    # ---- R07.5 SQL text is never re-flowed before it is analysed -------------------------------------------
    # A newline ends a `--` comment: collapsing whitespace (`" ".join(text.split())`, re.sub(r"\s+", " ", text)) in text that is
    # analysed afterwards lets a line comment swallow the code that followed it.
    n_scanned = 0
    for f in prog.funcs.values():
        if f.mod.name in ("sqllineage.cli", "sqllineage.drawing") or f.name in ("__str__", "__repr__"):
            continue
        n_scanned += 1
        for k in prog.walk_fn(f):
            collapsed = None
            if isinstance(k, ast.Call) and isinstance(k.func, ast.Attribute) and k.func.attr == "join" and len(k.args) == 1:
                inner = k.args[0]
                if isinstance(inner, (ast.GeneratorExp, ast.ListComp)) and len(inner.generators) == 1:
                    inner = inner.generators[0].iter
                if isinstance(inner, ast.Call) and isinstance(inner.func, ast.Attribute) and inner.func.attr in ("split", "splitlines") and not inner.args:
                    collapsed = inner.func.value
            elif isinstance(k, ast.Call) and isinstance(k.func, ast.Attribute) and k.func.attr == "sub" and len(k.args) >= 3:
                pat = prog.try_fold(k.args[0], f.mod, f)
                if isinstance(pat, str) and ("\\s" in pat or "\\n" in pat or "\n" in pat):
                    collapsed = k.args[2]
            elif isinstance(k, ast.Call) and isinstance(k.func, ast.Attribute) and k.func.attr == "replace" and len(k.args) == 2 and prog.try_fold(k.args[0], f.mod, f) == "\n":
                collapsed = k.func.value
            if collapsed is None:
                continue
            is_sql_text = any((isinstance(x, ast.Attribute) and x.attr in ("raw", "value", "_sql")) or (isinstance(x, ast.Name) and x.id in f.params() and x.id in ("sql", "statement", "stmt", "query"))
                              for x in prog.influences(f, collapsed))
            if not is_sql_text:
                continue
            # only a violation when the re-flowed text is analysed (handed to a runner / analyzer / parser), not when it is only displayed
            st = prog.enclosing_stmt(k)
            tgt = st.targets[0].id if isinstance(st, ast.Assign) and len(st.targets) == 1 and isinstance(st.targets[0], ast.Name) else None
            analysed = False
            for c in prog.walk_fn(f):
                if isinstance(c, ast.Call) and not (isinstance(c.func, ast.Attribute) and c.func.attr in ("warn", "debug", "info", "warning", "error", "format")):
                    for a in list(c.args) + [kw.value for kw in c.keywords]:
                        if any(x is k for x in ast.walk(a)) or (tgt is not None and any(isinstance(x, ast.Name) and x.id == tgt for x in ast.walk(a))):
                            nm = c.func.attr if isinstance(c.func, ast.Attribute) else c.func.id if isinstance(c.func, ast.Name) else ""
                            if nm not in ("len", "str", "print", "join", "split", "replace", "strip", "startswith", "endswith", "append") and c is not k:
                                analysed = True
                if isinstance(c, ast.Return) and c.value is not None and (any(x is k for x in ast.walk(c.value)) or (tgt is not None and any(isinstance(x, ast.Name) and x.id == tgt for x in ast.walk(c.value)))):
                    analysed = True
            owner = f"{f.cls.name}.{f.name}" if f.cls else f.name
            ctx.ob("R07.5", f"sql-text-not-reflowed:{owner}", not analysed, loc(f.mod, k),
                   f"`{u(k)[:70]}` collapses line breaks in SQL text that is analysed afterwards: a `--` comment then swallows the code after it")
    ctx.ob("R07.5", "sql-text-not-reflowed:scanned", True, "sqllineage/", f"{n_scanned} functions scanned for whitespace-collapsing of SQL text", trivial=True)
    # ---- R07.6 case folding and quote handling of the normaliser (= R16.3): quoting or re-casing an identifier must not change what it denotes
    _common.import_rules(ctx, "C16", {"R16.3": "R07.6"})
    # ---- R07.7 structure is decided on the parse tree, never by a regular expression over the text of a segment: text between two tokens
    # (a comment after an opening parenthesis, a line break) is invisible in the tree and arbitrary in the text
    n_re = 0
    for f in prog.funcs.values():
        if not f.mod.name.startswith("sqllineage.core.parser.sqlfluff"):
            continue
        for k in prog.walk_fn(f):
            if isinstance(k, ast.Call) and isinstance(k.func, ast.Attribute) and k.func.attr in ("search", "match", "fullmatch", "findall", "finditer", "sub", "split") \
                    and (u(k.func.value) == "re" or any(isinstance(v, ast.Call) and u(v.func) in ("re.compile", "compile") for v in prog.value_sources(f, k.func.value))
                         or _is_compiled_pattern(prog, f, k.func.value)):
                textual = [a for a in k.args if any(isinstance(x, ast.Attribute) and x.attr in ("raw", "raw_upper", "raw_normalized") for x in prog.influences(f, a))]
                if textual:
                    n_re += 1
                    ctx.ob("R07.7", f"no-regular-expression-over-segment-text:{f.owner}", False, loc(f.mod, k),
                           f"`{u(k)[:70]}` matches a regular expression against the text of a segment: comments and line breaks between tokens are part of that text")
    ctx.ob("R07.7", "no-regular-expression-over-segment-text:scanned", True, "sqllineage/core/parser/sqlfluff", f"{n_re} use(s) found", trivial=True)
    # ---- R07.8 where a token stands in the text (line, column, offset) never enters the analysis: positions are exactly what re-flowing a script changes
    n_pos = 0
    for f in prog.funcs.values():
        if f.mod.name in ("sqllineage.cli", "sqllineage.drawing"):
            continue
        for k in prog.walk_fn(f):
            if isinstance(k, ast.Attribute) and k.attr in _POSITION_API:
                n_pos += 1
                ctx.ob("R07.8", f"no-source-position:{f.owner}:{k.attr}", False, loc(f.mod, k),
                       f"`{u(k)[:60]}` reads where a token stands in the text: line breaks and indentation then decide the result")
    ctx.ob("R07.8", "no-source-position:scanned", True, "sqllineage/", f"{n_pos} use(s) of the position API of sqlfluff / sqlparse found", trivial=True)

    # ---- R07.9 (= R08.2): a name that is looked up among the CTE aliases goes through the normaliser first - compared as written (or merely
    # lower-cased) a quoted reference to a lower-case CTE misses it and is reported as a table
    _common.import_rules(ctx, "C08", {"R08.2": "R07.9"})
    # ---- R07.12 (= R16.10): a name is looked up among names of its own spelling state - a qualifier as written is not found among normalised names once
    # it is written in upper case or quoted
    _common.import_rules(ctx, "C16", {"R16.10": "R07.12"})

    # ---- R07.10 SQL text is never cut, searched or compared at a literal blank: between two words of a keyword there may be a tab or a line break
    n_blank = 0
    for f in prog.funcs.values():
        if not f.mod.name.startswith("sqllineage.core.parser"):
            continue
        for k in prog.walk_fn(f):
            lit = None
            if isinstance(k, ast.Call) and isinstance(k.func, ast.Attribute) and k.func.attr in ("split", "rsplit", "partition", "rpartition", "startswith", "endswith", "find", "rfind", "index", "count", "replace", "removeprefix", "removesuffix") and k.args:
                v_ = prog.try_fold(k.args[0], f.mod, f)
                vs = [v_] if isinstance(v_, str) else [x for x in v_ if isinstance(x, str)] if isinstance(v_, (tuple, list)) else []
                lit = next((x for x in vs if " " in x), None)
                recv = k.func.value
            elif isinstance(k, ast.Compare) and len(k.ops) == 1 and isinstance(k.ops[0], (ast.In, ast.NotIn)) and isinstance(prog.try_fold(k.left, f.mod, f), str) and " " in prog.try_fold(k.left, f.mod, f):
                lit, recv = prog.try_fold(k.left, f.mod, f), k.comparators[0]
            if lit is None:
                continue
            textual = any(isinstance(x, ast.Attribute) and x.attr in ("raw", "raw_upper", "value", "normalized") for x in prog.influences(f, recv))
            if textual:
                n_blank += 1
                ctx.ob("R07.10", f"no-literal-blank-in-text-operations:{f.owner}", False, loc(f.mod, k),
                       f"`{u(k)[:70]}` works on SQL text with the literal {lit!r}: the same keyword written with a tab or a line break between its words is not recognised")
    ctx.ob("R07.10", "no-literal-blank-in-text-operations:scanned", True, "sqllineage/core/parser", f"{n_blank} use(s) found", trivial=True)
    # ---- R07.11 what each parser skips as negligible includes comments as well as whitespace (both tests in the same predicate: a comment that
    # survives the trimmer - an optimizer hint - must not stand where a token is expected)
    n_negl = 0
    for f in prog.funcs.values():
        if not f.mod.name.startswith("sqllineage.core.parser"):
            continue
        rets_ = [r for r in prog.walk_fn(f) if isinstance(r, ast.Return) and r.value is not None]
        if len(rets_) != 1 or not any(isinstance(x, ast.Attribute) and x.attr == "is_whitespace" for x in ast.walk(rets_[0].value)):
            continue
        if not isinstance(rets_[0].value, (ast.BoolOp, ast.Attribute)):
            continue
        n_negl += 1
        ctx.touched(f)
        has_comment = any((isinstance(x, ast.Attribute) and x.attr == "is_comment") or (isinstance(x, ast.Call) and isinstance(x.func, ast.Name) and x.func.id == "isinstance" and "Comment" in u(x)) for x in ast.walk(rets_[0].value))
        ctx.ob("R07.11", f"negligible-includes-comments:{f.owner}", has_comment, f.loc(), f"`{u(rets_[0].value)[:70]}`: " + ("whitespace and comments are skipped" if has_comment else "comments are not skipped"))
    ctx.floor("predicates that say which tokens are negligible", n_negl, 2)


# position API of sqlfluff (PositionMarker and the segment methods that return one)
_POSITION_API = {"pos_marker", "line_no", "line_pos", "working_line_no", "working_line_pos", "source_slice", "templated_slice", "source_position", "templated_position",
                 "get_start_loc", "get_end_loc", "get_start_point_marker", "get_end_point_marker", "start_point_marker", "end_point_marker"}


def _is_compiled_pattern(prog: Prog, f, e: ast.AST) -> bool:
    """a module-level name bound to re.compile(...)"""
    if isinstance(e, ast.Name):
        r = prog.resolve(f.mod.name, e.id, f)
        if r and r[0] == "var" and len(r) > 2 and isinstance(r[2], ast.Call) and u(r[2].func) in ("re.compile", "compile"):
            return True
    return False


_CASE_KEEPING = {"strip", "rstrip", "lstrip", "split", "rsplit", "partition", "rpartition", "replace", "removeprefix", "removesuffix", "format", "join", "raw_normalized"}


def _text_projection(e: ast.AST, prog: Optional[Prog] = None, f=None, depth: int = 0) -> Optional[str]:
    """'upper' | 'lower' | 'raw' for expressions denoting (a piece of) a segment / token text; None otherwise.  Looks through the string
    operations that keep letter case (strip, split, slicing, raw_normalized ...) and, given the program, through locals."""
    if depth > 6:
        return None
    if isinstance(e, ast.Attribute):
        if e.attr == "raw_upper":
            return "upper"
        if e.attr == "normalized":
            return "upper"
        if e.attr in ("raw", "value"):
            return "raw"
    if isinstance(e, ast.Subscript):
        return _text_projection(e.value, prog, f, depth + 1)
    if isinstance(e, ast.Call) and isinstance(e.func, ast.Attribute):
        if e.func.attr == "upper":
            return "upper" if _text_projection(e.func.value, prog, f, depth + 1) is not None or isinstance(e.func.value, (ast.Attribute, ast.Call)) else None
        if e.func.attr in ("lower", "casefold"):
            return "lower" if _text_projection(e.func.value, prog, f, depth + 1) is not None or isinstance(e.func.value, (ast.Attribute, ast.Call)) else None
        if e.func.attr == "raw_normalized":
            return "raw"  # quotes are stripped; letter case is folded for identifiers only, and by the dialect's rule
        if e.func.attr in _CASE_KEEPING:
            return _text_projection(e.func.value, prog, f, depth + 1)
    if isinstance(e, ast.Call) and isinstance(e.func, ast.Name) and e.func.id == "str" and len(e.args) == 1:
        return _text_projection(e.args[0], prog, f, depth + 1)
    if isinstance(e, ast.Name) and prog is not None and f is not None:
        srcs = [v for v in prog.value_sources(f, e) if not (isinstance(v, ast.Name) and v.id == e.id)]
        if not srcs:
            return None
        ps = {_text_projection(v, prog, f, depth + 1) for v in srcs}
        if None in ps:
            return None
        return ps.pop() if len(ps) == 1 else "raw"
    return None
