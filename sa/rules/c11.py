"""C11 - analysis is deterministic (DESIGN.md C11, rules R11.1-R11.3)."""

from __future__ import annotations

import ast
from typing import Optional

from ..astutil import is_self_attr, u
from ..cfg import flow
from ..model import AnalysisError, Cls, Fn, Prog, loc
from ..order import scan_function
from ..report import Ctx
from . import common

EXPLANATION = (
    "Static analysis over the whole package. Decides: R11.1 no order-sensitive choice from an unordered collection - every "
    "consumption of a set-typed expression (types from annotations, constructors and set algebra) is classified; sorted/set/len/"
    "any/all/membership/set-algebra consumers, set comprehensions, dict comprehensions keyed by the element, loops whose body only "
    "performs commutative idempotent effects, and pick-one under a dominating singleton proof are discharged automatically; "
    "pick-one, first/last-wins, sequence-from-set and loops with non-commuting bodies are violations unless the allow-table holds "
    "a re-checked invariant for that (function, source, consumer) key; R11.2 every public accessor of the runner that reads "
    "evaluation results is wrapped by the lazy decorator (or only calls wrapped ones), whose wrapper tests the flag, evaluates, then "
    "calls, and the flag is set last on success only; R11.3 accessors are pure: no attribute store on runner/holders and no graph "
    "mutation is reachable from an accessor other than through the evaluator; R11.4 the provider look-up answers from the session store and the source only, with no memo that would make a repeated run differ (= R13.5). Does not decide: determinism inside sqlfluff/sqlparse/"
    "networkx, order taint carried through graph insertion order, generated names of anonymous sub-queries."
    ' A sort of an unordered collection must use a key that is computed from the element as a whole (a key of single components leaves ties in set order). R11.3 also sees mutation through a local that is the stored object itself.'
    ' R11.7 nothing that can be consumed only once (zip / map / filter / generator) is kept in an attribute.'
)
RULE_TEXT = (
    "R11.1: one obligation per consumption site of an unordered expression in the package (semantic key = function:source:consumer); "
    "non-trivial = sites that are not discharged by a set/sorted/len-style consumer; R11.2/3: one per public accessor and per effect site"
)

HOLDER_MUTATORS = {"add_edge", "add_node", "remove_node", "remove_edge", "add_edges_from", "add_nodes_from", "remove_nodes_from", "remove_edges_from",
                   "set_node_attributes", "relabel_nodes", "clear", "update"}


def single_write_invariant(prog: Prog) -> tuple[bool, str]:
    """Re-check of the allow-table reason 'a holder has at most one write dataset'."""
    # (i) multi-write guard: some function raises under len(<holder>.write) > 1
    guard = False
    for f in prog.funcs.values():
        for n in prog.walk_fn(f):
            if isinstance(n, ast.Raise):
                facts = flow(prog, f).facts_for(n)
                if any(p and t.startswith("len(") and t.endswith(".write) > 1") for t, p in facts):
                    guard = True
    # (ii) sub-query WRITE tags are reset before a sub-query holder is merged, in both analyzers
    resets = 0
    for f in prog.funcs.values():
        for n in prog.walk_fn(f):
            if isinstance(n, ast.Call) and isinstance(n.func, ast.Attribute) and n.func.attr == "set_node_attributes" and len(n.args) >= 3:
                tag = prog.try_fold(n.args[2], f.mod, f)
                if tag == "write" and isinstance(n.args[1], ast.Dict) and all(isinstance(v, ast.Constant) and v.value is False for v in n.args[1].values):
                    resets += 1
    ok = guard and resets >= 2
    return ok, f"multi-write guard {'found' if guard else 'MISSING'}; {resets} sub-query WRITE-tag reset site(s) (need 2: sqlfluff extract_subquery, sqlparse _extract_from_dml)"


ALLOW_SINGLE_WRITE = {
    "LineageRunner._eval:.write:pick-one",
    "SubQueryLineageHolder.add_write_column:.write:pick-one",
    "SubQueryLineageHolder.write_columns:difference():pick-one",  # the private target-table helper, absorbed into both of its callers
    "SubQueryLineageHolder.expand_wildcard:difference():pick-one",
    "MergeExtractor.extract:.write:pick-one",
    "UpdateExtractor.extract:.write:pick-one",
    "SqlParseLineageAnalyzer.analyze:.write:pick-one",
}


MUTATING_METHODS = {"add", "update", "discard", "remove", "clear", "pop", "append", "extend", "insert", "sort", "reverse", "setdefault", "popitem",
                    "intersection_update", "difference_update", "symmetric_difference_update"}


def rules(ctx: Ctx) -> None:
    prog = ctx.prog
    R = common.runner(prog)

    # ---- R11.1 ---------------------------------------------------------------------------
    inv_ok, inv_txt = single_write_invariant(prog)
    ctx.extra["single_write_invariant"] = inv_txt
    n_inst = n_nontrivial = 0
    for f in prog.funcs.values():
        for inst in scan_function(prog, f):
            n_inst += 1
            ctx.touched(f)
            where = loc(f.mod, inst.node)
            if inst.discharged:
                trivial = inst.kind in ("set-comprehension", "comprehension", "list")
                ctx.ob("R11.1", inst.key, True, where, f"unordered `{inst.source}` consumed as {inst.kind}: {inst.discharged}", trivial=trivial)
                continue
            n_nontrivial += 1
            if inst.key in ALLOW_SINGLE_WRITE:
                if inv_ok:
                    ctx.allow("R11.1", inst.key, where, inst.detail,
                              "a holder has at most one write dataset: a second table target raises SQLLineageException in end_of_query_cleanup and sub-queries "
                              f"lose their WRITE tag before they are merged [{inv_txt}]")
                else:
                    ctx.ob("R11.1", inst.key, False, where, f"{inst.detail}; the invariant that made this choice safe no longer holds: {inv_txt}")
                continue
            ctx.ob("R11.1", inst.key, False, where, f"order-sensitive use of unordered `{inst.source}`: {inst.detail}")
    ctx.floor("consumption sites of unordered collections", n_inst, 19)

    # a sort makes an unordered collection deterministic only if its key tells every two elements apart: a key that looks at some
    # components of the element only (x[0], x[-1]) leaves ties, and ties come out in set iteration order
    from ..order import unordered_expr as _unordered

    n_sorts = 0
    for f in prog.funcs.values():
        if f.mod.name in ("sqllineage.cli", "sqllineage.drawing"):
            continue
        for n in prog.walk_fn(f):
            if not (isinstance(n, ast.Call) and isinstance(n.func, ast.Name) and n.func.id in ("sorted", "min", "max") and n.args):
                continue
            key = next((k.value for k in n.keywords if k.arg == "key"), None)
            if key is None or not _unordered(prog, n.args[0], f):
                continue
            n_sorts += 1
            if not isinstance(key, ast.Lambda) or len(key.args.args) != 1:
                # a function given by name (key=str) receives the element as a whole
                ctx.ob("R11.1", f"{f.owner}:sort-key-sees-the-whole-element", True, loc(f.mod, n), f"`key={u(key)[:40]}` is applied to the element as a whole", trivial=True)
                continue
            p_ = key.args.args[0].arg
            uses = [x for x in ast.walk(key.body) if isinstance(x, ast.Name) and x.id == p_]
            partial = bool(uses) and all(isinstance(prog.parent(x), ast.Subscript) and prog.parent(x).value is x and not isinstance(prog.parent(x).slice, ast.Slice)
                                         and isinstance(prog.try_fold(prog.parent(x).slice, f.mod, f), int) for x in uses)
            ctx.ob("R11.1", f"{f.owner}:sort-key-sees-the-whole-element", not partial, loc(f.mod, n),
                   f"`{u(key)[:70]}`: " + ("the key is built from single components of the element only; elements that agree on them keep their set iteration order" if partial
                                          else "the key is computed from the element as a whole"), trivial=not partial)
    ctx.floor("sorts of unordered collections with a key function", n_sorts, 2)

    # public sequences are sorted: parent candidates (anchor named by the property)
    col = prog.try_cls("core.models.Column")
    pc = col.methods.get("parent_candidates") if col else None
    if pc is None:
        raise AnalysisError("Column.parent_candidates not found")
    rets = [n for n in prog.walk_fn(pc) if isinstance(n, ast.Return) and n.value is not None]
    ok = len(rets) == 1 and isinstance(rets[0].value, ast.Call) and isinstance(rets[0].value.func, ast.Name) and rets[0].value.func.id == "sorted" and any(k.arg == "key" for k in rets[0].value.keywords)
    ctx.ob("R11.1", "Column.parent_candidates:sorted", ok, pc.loc(), "the owner candidates of a column are reported in sorted order")
    ctx.touched(pc)

    # ---- R11.2 ---------------------------------------------------------------------------
    result_attrs = set()
    for n in prog.walk_fn(R.evaluator):
        if isinstance(n, ast.Attribute) and isinstance(n.ctx, ast.Store) and isinstance(n.value, ast.Name) and n.value.id == "self" and n.attr != R.flag:
            result_attrs.add(n.attr)
    ctx.extra["evaluation_result_attributes"] = sorted(result_attrs)
    ctx.floor("attributes written by the evaluator", len(result_attrs), 1)
    lazy = set(a.name for a in R.accessors)
    n_acc = 0
    for m in R.cls.methods.values():
        if m.name in ("__init__",) or m is R.evaluator:
            continue
        reads = [n for n in prog.walk_fn(m) if isinstance(n, ast.Attribute) and isinstance(n.value, ast.Name) and n.value.id == "self" and n.attr in result_attrs and isinstance(n.ctx, ast.Load)]
        if not reads:
            continue
        n_acc += 1
        ctx.touched(m)
        ctx.ob("R11.2", f"accessor-evaluates-first:{m.name}", m.name in lazy, m.loc(),
               f"{m.name} reads evaluation results (`{u(reads[0])}`) and must be wrapped by the lazy decorator")
    ctx.floor("runner methods reading evaluation results", n_acc, 4)
    # wrapper shape: flag test -> evaluator call -> function call, in this order on every path
    w = R.wrapper
    wcfg = flow(prog, w).cfg
    ev_calls = [c.id for c in wcfg.nodes.values() if c.ast is not None and c.kind == "stmt" and any(isinstance(k, ast.Call) and isinstance(k.func, ast.Attribute) and k.func.attr == R.evaluator.name for k in ast.walk(c.ast))]
    fn_param = R.lazy.params()[0]
    fn_calls = [c.id for c in wcfg.nodes.values() if c.ast is not None and c.kind == "stmt" and any(isinstance(k, ast.Call) and isinstance(k.func, ast.Name) and k.func.id == fn_param for k in ast.walk(c.ast))]
    ok_w = len(ev_calls) == 1 and len(fn_calls) >= 1
    if ok_w:
        facts = wcfg.facts_at(ev_calls[0])
        under_flag = any(R.flag in t and not p for t, p in facts) or any(R.flag in t and "not" in t and p for t, p in facts)
        # every path to the wrapped call either passed the evaluator or saw the flag set
        g = wcfg.g.copy()
        g.remove_node(ev_calls[0])
        for a, b, d in list(g.edges(data=True)):
            lab = d.get("label")
            if lab is not None and R.flag in u(lab[0]) and lab[1] is True:
                g.remove_edge(a, b)
        import networkx as nx
        bypass = any(nx.has_path(g, wcfg.entry, c) for c in fn_calls if c in g)
        ok_w = under_flag and not bypass
    ctx.ob("R11.2", "lazy-wrapper-evaluates-before-calling", ok_w, w.loc(),
           "the lazy wrapper calls the evaluator when the flag is unset, before the wrapped function, on every path")
    ctx.touched(w)
    common.flag_rule(ctx, R, "R11.2")

    # ---- R11.3 accessors are pure -----------------------------------------------------------
    g = prog.build_callgraph()
    roots = [a.qual for a in R.accessors] + [m.qual for m in R.cls.methods.values() if m.name.startswith("print_")]
    seen: set[str] = set()
    todo = [r for r in roots if r in g]
    while todo:
        q = todo.pop()
        if q in seen or q == R.evaluator.qual:
            continue
        seen.add(q)
        todo.extend(g.successors(q))
    holder_classes = {c.qual for c in prog.classes.values() if c.mod.name.endswith("core.holders")} | {R.cls.qual}
    n_fn = 0
    for q in sorted(seen):
        f = prog.funcs.get(q)
        if f is None or f.name == "__init__":
            continue
        n_fn += 1
        if f.cls is None or not any(k.qual in holder_classes for k in prog.mro(f.cls)):
            continue
        ctx.touched(f)
        for n in prog.walk_fn(f):
            if isinstance(n, ast.Attribute) and isinstance(n.ctx, (ast.Store, ast.Del)) and isinstance(n.value, ast.Name) and n.value.id == "self":
                par = prog.parent(n)
                if isinstance(par, ast.AnnAssign) and par.value is None:
                    continue  # bare annotation, no store
                ctx.ob("R11.3", f"accessor-pure:{f.cls.name}.{f.name}:store:{n.attr}", False, loc(f.mod, n),
                       f"`{u(prog.enclosing_stmt(n))[:70]}` stores state on the runner/holder from a result accessor: later calls (other arguments, other order) see it")
            elif isinstance(n, ast.Subscript) and isinstance(n.ctx, (ast.Store, ast.Del)) and is_self_attr(n.value):
                ctx.ob("R11.3", f"accessor-pure:{f.cls.name}.{f.name}:store:{n.value.attr}[]", False, loc(f.mod, n),
                       f"`{u(prog.enclosing_stmt(n))[:70]}` memoises into runner/holder state from a result accessor")
            elif isinstance(n, ast.Call) and isinstance(n.func, ast.Attribute) and n.func.attr in HOLDER_MUTATORS:
                recv = n.func.value
                root = recv
                while isinstance(root, (ast.Attribute, ast.Subscript)):
                    root = root.value
                if isinstance(root, ast.Name) and root.id == "self" and recv is not root:
                    ctx.ob("R11.3", f"accessor-pure:{f.cls.name}.{f.name}:mutates:{u(recv)}", False, loc(f.mod, n),
                           f"`{u(n)[:70]}` mutates runner/holder state from a result accessor")
                elif u(n.func.value) in ("nx",) and n.args and is_self_attr(n.args[0]):
                    ctx.ob("R11.3", f"accessor-pure:{f.cls.name}.{f.name}:mutates:{u(n.args[0])}", False, loc(f.mod, n),
                           f"`{u(n)[:70]}` mutates the holder's graph from a result accessor")
        # ... and through a local that is the stored object itself: `t = self._x; t |= more` / `t.add(..)` changes self._x in place
        for n in prog.walk_fn(f):
            tgt = None
            if isinstance(n, ast.AugAssign) and isinstance(n.target, ast.Name):
                tgt = n.target
            elif isinstance(n, ast.Call) and isinstance(n.func, ast.Attribute) and n.func.attr in MUTATING_METHODS and isinstance(n.func.value, ast.Name):
                tgt = n.func.value
            if tgt is None or tgt.id == "self":
                continue
            stored = [v for v in prog.value_sources(f, tgt) if isinstance(v, ast.Attribute) and isinstance(v.value, ast.Name) and v.value.id == "self"
                      and prog.find_method(f.cls, v.attr) is None]
            if stored:
                ctx.ob("R11.3", f"accessor-pure:{f.cls.name}.{f.name}:mutates-through-alias:{stored[0].attr}", False, loc(f.mod, n),
                       f"`{u(n)[:70]}`: `{tgt.id}` is the object stored in `self.{stored[0].attr}` itself, not a copy - the accessor changes it in place and the next accessor "
                       f"(or the same one called again) starts from the changed value")
        # functools caches on methods
        if any("cache" in d for d in f.decorators):
            ctx.ob("R11.3", f"accessor-pure:{f.cls.name}.{f.name}:cached", False, f.loc(), f"{f.name} is memoised by a decorator: later calls with other arguments or after state changes see stale results")
    ctx.ob("R11.3", "accessors-scanned", True, R.cls.loc(), f"{n_fn} functions reachable from {len(roots)} result accessors (not through the evaluator) scanned for stores and graph mutations", trivial=True)
    ctx.floor("functions reachable from result accessors", n_fn, 10)
    # ---- R11.4 the provider look-up keeps no memory between runs (= R13.5) -------------------------------
    common.import_rules(ctx, "C13", {"R13.5": "R11.4"})

    # ---- R11.5 nothing written during one analysis is visible to the next (= R12.2: shared caches make a result depend on history)
    common.import_rules(ctx, "C12", {"R12.2": "R11.5"})

    # ---- R11.6 no statement reads a loop variable after its loop -----------------------------------------------------------
    # (what is left in it is the last element in iteration order - or nothing, for an empty sequence; over a set that element depends on the hash seed)
    from ..loopvar import leftover_uses

    n_loops = 0
    for f in prog.funcs.values():
        if f.mod.name in ("sqllineage.cli", "sqllineage.drawing"):
            continue
        n_loops += len([1 for k in prog.walk_fn(f) if isinstance(k, ast.For)])
        for L, use in leftover_uses(prog, f):
            ctx.ob("R11.6", f"loop-variable-not-used-after-its-loop:{f.owner}:{use.id}", False, loc(f.mod, use),
                   f"`{use.id}` is read after `for {u(L.target)} in {u(L.iter)[:40]}` (line {L.lineno}) ended without break: it names whichever element came last")
    ctx.ob("R11.6", "loop-variable-not-used-after-its-loop:scanned", True, "sqllineage/", f"{n_loops} loops scanned", trivial=True)

    # ---- R11.7 nothing that can be consumed only once is kept in an attribute -------------------------------------------------------------
    # (`self.x = zip(..)` / `map(..)` / `filter(..)` / a generator expression / `iter(..)` / `reversed(..)`: the first accessor that walks it empties it,
    # so the same accessor called twice answers differently.  A value kept on the object must be a container.)
    one_shot = {"zip", "map", "filter", "iter", "reversed", "enumerate"}
    n_attr_stores = 0
    for f in prog.funcs.values():
        if f.cls is None:
            continue
        for k in prog.walk_fn(f):
            if not isinstance(k, (ast.Assign, ast.AnnAssign)) or k.value is None:
                continue
            tg = [t for t in (k.targets if isinstance(k, ast.Assign) else [k.target]) if isinstance(t, ast.Attribute) and isinstance(t.value, ast.Name) and t.value.id in ("self", "cls")]
            if not tg:
                continue
            n_attr_stores += 1
            for v in [k.value] + list(prog.value_sources(f, k.value)):
                once = isinstance(v, ast.GeneratorExp) or (isinstance(v, ast.Call) and isinstance(v.func, ast.Name) and v.func.id in one_shot and not prog.local_defs(f, v.func.id)) \
                    or (isinstance(v, ast.Call) and isinstance(v.func, ast.Attribute) and isinstance(v.func.value, ast.Name) and v.func.value.id == "itertools")
                if once:
                    ctx.ob("R11.7", f"no-one-shot-iterator-in-attribute:{f.owner}:{tg[0].attr}", False, loc(f.mod, k),
                           f"`{u(k)[:80]}` keeps an iterator on the object: it is exhausted by its first reader, a second call of the same accessor sees it empty")
                    break
    ctx.floor("attribute stores in methods", n_attr_stores, 20)
