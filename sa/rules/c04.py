"""C04 - column lineage chains across statements (DESIGN.md C04, rules R04.1-R04.4)."""

from __future__ import annotations

import ast
from dataclasses import replace

from ..astutil import controlling_atoms, u
from ..cfg import flow
from ..identity import identities
from typing import Optional

from ..model import AnalysisError, Fn, Prog, loc
from ..report import Ctx
from . import common

EXPLANATION = (
    "Static analysis of the runner's evaluation loop, the session store and the cross-statement repair. Decides: R04.1 each statement's "
    "target columns are registered before the next statement is analysed, inside the loop, on the provider the next statement consults "
    "(the session's own provider); R04.2 what is registered is what the statement wrote: the columns of the statement's write target as "
    "the holder reports them, with wildcards excluded; R04.3 distinct unresolved columns are distinct nodes (identity rule I4: Column "
    "equality must not go through a lossy projection of the owner set - known finding), and the late repair handles every (unresolved "
    "column, target) pair independently: inside the pair loop only the pair's own edge is removed, no node is removed and no pair is "
    "skipped on graph state; the orphan sweep runs after the loop; R04.4 a look-up after a registration sees it: the provider's look-up "
    "keeps no memo between the session store and the answer (= R13.5). Does not decide: relational composition of per-statement dataflows, "
    "wildcard expansion results."
    ' R04.7 (= R13.2) what a metadata look-up may be conditioned on.'
    " R04.8 (= R05.3) extractors are not kept across statements; R04.9 (= R11.1) the columns a script registers for a table keep the script's order; R04.10 every route is reported: the returned paths are enumerated exhaustively (all_simple_paths), never by the shortest-path family."
)
RULE_TEXT = "one obligation per registration site, per statement of the repair loop, per model identity clause"


def rules(ctx: Ctx) -> None:
    prog = ctx.prog
    R = common.runner(prog)
    ev = R.evaluator
    ctx.touched(ev)
    cfg = flow(prog, ev).cfg
    loops = [c for c in cfg.nodes.values() if c.kind == "for" and any(isinstance(k, ast.Call) and isinstance(k.func, ast.Attribute) and k.func.attr == "analyze" for b in c.ast.body for k in ast.walk(b))]
    if len(loops) != 1:
        raise AnalysisError("analysis loop not found")
    L = loops[0]
    in_loop = {n for n in cfg.nodes if n != L.id and cfg.reach(L.id, n) and cfg.reach(n, L.id)}
    analyze_nodes = [c for c in cfg.nodes.values() if c.ast is not None and c.kind in ("stmt", "cond") and any(isinstance(k, ast.Call) and isinstance(k.func, ast.Attribute) and k.func.attr == "analyze" for k in ast.walk(c.ast))]
    reg_nodes = [c for c in cfg.nodes.values() if c.ast is not None and c.kind in ("stmt", "cond") and any(isinstance(k, ast.Call) and isinstance(k.func, ast.Attribute) and k.func.attr == "register_session_metadata" for k in ast.walk(c.ast))]
    ctx.floor("registration sites in the evaluator", len(reg_nodes), 1)

    # ---- R04.1 ---------------------------------------------------------------------------------
    for r in reg_nodes:
        where = f"{ev.mod.path}:{r.lineno}"
        ctx.ob("R04.1", "registration-inside-the-loop", r.id in in_loop, where, "the statement's target columns are registered inside the per-statement loop (not after it)")
        ctx.ob("R04.1", "registration-after-this-statement's-analysis", any(cfg.dominates(a.id, r.id) and a.id in in_loop for a in analyze_nodes), where,
               "registration follows the analysis of the same statement within the iteration")
        call = next(k for k in ast.walk(r.ast) if isinstance(k, ast.Call) and isinstance(k.func, ast.Attribute) and k.func.attr == "register_session_metadata")
        recv = u(call.func.value)
        # the provider handed to analyze() is the session's provider, and registration goes through the same session
        an_call = next(k for a in analyze_nodes for k in ast.walk(a.ast) if isinstance(k, ast.Call) and isinstance(k.func, ast.Attribute) and k.func.attr == "analyze")
        prov_arg = u(an_call.args[1]) if len(an_call.args) > 1 else None
        same = prov_arg is not None and (prov_arg == f"{recv}.metadata_provider" or prov_arg == recv)
        ctx.ob("R04.1", "registered-on-the-provider-the-next-statement-consults", same, where,
               f"analyze() consults `{prov_arg}`, registration goes to `{recv}`: they must be the same session / provider")
        # the session object wraps the runner's provider
        withs = [n for n in prog.walk_fn(ev) if isinstance(n, ast.With)]
        bound = any(it.optional_vars is not None and u(it.optional_vars) == recv and "session()" in u(it.context_expr) for w in withs for it in w.items)
        ctx.ob("R04.1", "session-opened-on-the-runner's-provider", bound, where, f"`{recv}` is the session opened on the runner's metadata provider")
        # only conditioned on having a table target with columns
        # every condition the registration depends on is about the statement's write target or its columns: each name in it is computed from
        # `<holder>.write` or from `get_table_columns(...)` (whatever the locals are called)
        def _from_statement_holder(e: ast.AST) -> bool:
            return any(isinstance(v, ast.Call) and isinstance(v.func, ast.Attribute) and v.func.attr == "analyze" for v in prog.value_sources(ev, e))

        def _about_target(a: ast.AST) -> bool:
            nodes = list(prog.influences(ev, a))
            # what the session / provider already knows must not decide whether this statement's columns are registered
            if any(isinstance(k, ast.Call) and isinstance(k.func, ast.Attribute) and k.func.attr in ("get_table_columns", "_get_table_columns") and not _from_statement_holder(k.func.value) for k in nodes):
                return False
            return any(isinstance(k, ast.Attribute) and k.attr == "write" for k in nodes) or any(isinstance(k, ast.Call) and isinstance(k.func, ast.Attribute) and k.func.attr == "get_table_columns" for k in nodes)

        foreign = [u(a) for a in controlling_atoms(prog.parents, call) if not _about_target(a)]
        ctx.ob("R04.1", "registration-unconditional", not foreign, where, "registration depends only on the statement having a table target with columns" + (f" (also on `{foreign[0]}`)" if foreign else ""))

        # ---- R04.2 ------------------------------------------------------------------------------
        cols_arg = call.args[1] if len(call.args) > 1 else None
        tbl_arg = call.args[0] if call.args else None
        src = None
        if isinstance(cols_arg, ast.Name):
            defs = [node.value for kind, node in prog.local_defs(ev, cols_arg.id) if kind in ("assign", "walrus")]
            src = defs[0] if len(defs) == 1 else None
        elif cols_arg is not None:
            src = cols_arg
        ok_cols = isinstance(src, ast.Call) and isinstance(src.func, ast.Attribute) and src.func.attr == "get_table_columns" and src.args and tbl_arg is not None and u(src.args[0]) == u(tbl_arg)
        ctx.ob("R04.2", "registered-columns-are-the-target's-columns", ok_cols, where,
               f"the registered columns are `<holder>.get_table_columns(<the registered table>)` (registered: `{u(cols_arg) if cols_arg is not None else None}` <- `{u(src)[:50] if src is not None else None}`)")
        ok_tbl = tbl_arg is not None and any(isinstance(k, ast.Attribute) and k.attr == "write" for k in prog.influences(ev, tbl_arg))
        ctx.ob("R04.2", "registered-table-is-the-write-target", ok_tbl, where, "the registered table is the statement's write target")
    H = prog.cls("core.holders.SubQueryLineageHolder")
    gtc = H.methods.get("get_table_columns")
    ctx.touched(gtc)
    filt = any(isinstance(k, ast.Compare) and "raw_name" in u(k.left) and isinstance(k.ops[0], ast.NotEq) and prog.try_fold(k.comparators[0], gtc.mod, gtc) == "*" for k in prog.walk_fn(gtc))
    ctx.ob("R04.2", "wildcards-are-never-registered", filt, gtc.loc(), "the holder's get_table_columns excludes the unexpanded `*` column (registering it makes a later SELECT * expand to nothing)")

    # ---- R04.3 ------------------------------------------------------------------------------------
    ids = identities(prog)
    col = ids["Column"]
    lossy_used = [p for p in col.eq_projs if any(f"self.{name}" in p for name in col.lossy)]
    ctx.ob("R04.3", "column-identity-distinguishes-owner-candidates", not lossy_used, col.cls.loc(),
           f"Column.__eq__ compares {col.eq_projs}; `parent` is a lossy projection ({'; '.join(col.lossy.values())}), so two unresolved columns of the same name with different "
           f"owner candidates are one node")
    SH = prog.cls("core.holders.SQLLineageHolder")

    def _pair_list(fn: Fn, it: ast.AST) -> Optional[ast.ListComp]:
        """the iterated expression is (a local bound to) a list comprehension over <graph>.edges filtered on parent_candidates"""
        for v in prog.value_sources(fn, it):
            if isinstance(v, ast.ListComp) and isinstance(v.generators[0].iter, ast.Attribute) and v.generators[0].iter.attr == "edges" and "parent_candidates" in u(v):
                return v
        return None

    fold = None
    pair_loops = []
    for m in SH.methods.values():
        pls = [n for n in prog.walk_fn(m) if isinstance(n, ast.For) and isinstance(n.target, ast.Tuple) and len(n.target.elts) == 2 and _pair_list(m, n.iter) is not None]
        if pls:
            fold, pair_loops = m, pls
    if fold is None or len(pair_loops) != 1:
        if fold is None:
            bd = SH.methods.get("_build_digraph") or next(iter(SH.methods.values()))
            ctx.ob("R04.3", "repair:one-loop-over-the-recorded-pairs", False, bd.loc(),
                   "no loop runs over the recorded (unresolved column, target column) pairs: every recorded pair must be repaired - a collection keyed by the column alone "
                   "keeps one target per column and the other chains are never completed")
        raise AnalysisError("repair loop over (unresolved column, target) pairs not found")
    ctx.touched(fold)
    PL = pair_loops[0]
    a, b = u(PL.target.elts[0]), u(PL.target.elts[1])
    for k in ast.walk(PL):
        if isinstance(k, ast.Call) and isinstance(k.func, ast.Attribute) and k.func.attr in ("remove_node", "remove_nodes_from", "remove_edges_from"):
            ctx.ob("R04.3", "repair:pairs-independent:no-node-removal-in-the-loop", False, loc(fold.mod, k),
                   f"`{u(k)[:60]}` inside the pair loop also drops the unresolved column's edges to its other target columns")
        if isinstance(k, ast.Call) and isinstance(k.func, ast.Attribute) and k.func.attr == "remove_edge":
            ok = len(k.args) == 2 and u(k.args[0]) == a and u(k.args[1]) == b
            ctx.ob("R04.3", "repair:only-the-pair's-own-edge-is-removed", ok, loc(fold.mod, k), f"`{u(k)}` removes exactly the (unresolved, target) edge being repaired")
        if isinstance(k, (ast.Continue, ast.Break)):
            ctx.ob("R04.3", "repair:no-pair-is-skipped", False, loc(fold.mod, k), f"`{type(k).__name__.lower()}` in the pair loop: a pair is skipped depending on earlier iterations")
    ctx.ob("R04.3", "repair:pairs-independent", True, loc(fold.mod, PL), "pair loop scanned", trivial=True)
    # the list of pairs is computed before the loop from the whole graph
    plc = _pair_list(fold, PL.iter)
    ok_pairs = plc is not None and len(prog.value_sources(fold, PL.iter)) == 1 and len(plc.generators) == 1
    ctx.ob("R04.3", "repair:pairs-are-all-edges-leaving-unresolved-columns", ok_pairs, loc(fold.mod, PL), "every edge leaving a multi-candidate column is a pair to repair")
    # orphan sweep after the loop
    fcfg = flow(prog, fold).cfg
    sweeps = [c for c in fcfg.nodes.values() if c.kind == "for" and any(isinstance(k, ast.Attribute) and k.attr == "degree" for k in prog.influences(fold, c.ast.iter)) and any(isinstance(k, ast.Call) and isinstance(k.func, ast.Attribute) and k.func.attr == "remove_node" for k in ast.walk(c.ast))]
    pl_node = next(c for c in fcfg.nodes.values() if c.kind == "for" and c.ast is PL)
    ok_sweep = len(sweeps) == 1 and fcfg.reach(pl_node.id, sweeps[0].id) and not fcfg.reach(sweeps[0].id, pl_node.id)
    ctx.ob("R04.3", "repair:orphan-sweep-after-the-loop", ok_sweep, fold.loc(), "resolved (now orphan) multi-candidate columns are removed by one sweep after all pairs were handled")
    # look-up in the graph before asking the provider: columns defined by an earlier statement (present in the graph) win; the provider is
    # asked only when the graph had no answer
    graph_nodes = [c for c in fcfg.nodes.values() if c.ast is not None and c.kind in ("stmt", "cond") and any(isinstance(k, ast.Call) and isinstance(k.func, ast.Attribute) and k.func.attr == "has_edge" for k in ast.walk(c.ast))
                   and any(a is PL for a in prog.ancestors(c.ast))]
    prov_nodes = [c for c in fcfg.nodes.values() if c.ast is not None and c.kind in ("stmt", "cond", "for") and any(isinstance(k, ast.Call) and isinstance(k.func, ast.Attribute) and k.func.attr == "get_table_columns"
                  for k in ast.walk(c.ast.iter if c.kind == "for" else c.ast)) and any(a is PL for a in prog.ancestors(c.ast))]
    ctx.ob("R04.3", "repair:graph-before-provider", bool(graph_nodes), loc(fold.mod, PL), "the repair looks the column up in the graph (columns defined by an earlier statement)", trivial=True)
    # a candidate found in the graph is accepted because it is there - the look-up is the whole condition (a further condition on how the column got
    # there - "written by a statement" - leaves columns of declared tables unresolved)
    fl4 = flow(prog, fold)
    for gn in graph_nodes:
        if gn.kind != "cond":
            continue
        for k in [x for x in ast.walk(PL) if isinstance(x, ast.Call) and isinstance(x.func, ast.Attribute) and x.func.attr in ("append", "add") and fcfg.node_for(x) is not None and fcfg.reach(gn.id, fcfg.node_for(x))
                  and any(p_ and "has_edge" in t_ for t_, p_ in fl4.facts_for(x))]:
            # every condition between the pair loop and the insertion (conjuncts, disjuncts and negations alike) other than the look-up itself
            from ..astutil import controlling_atoms as _catoms
            extra = [u(a_)[:60] for a_ in _catoms(prog.parents, k) if "has_edge" not in u(a_) and any(anc is PL for anc in prog.ancestors(a_))]
            ctx.ob("R04.3", "repair:graph-candidate-accepted-because-it-is-in-the-graph", not extra, loc(fold.mod, k),
                   f"`{u(k)[:50]}` " + ("is conditioned on the graph look-up alone" if not extra else f"also depends on `{extra[0]}`"))
    # accumulators the graph look-up fills
    accs = set()
    for gnode in graph_nodes:
        for k in prog.walk_fn(fold):
            if isinstance(k, ast.Call) and isinstance(k.func, ast.Attribute) and k.func.attr in ("append", "extend", "add") and isinstance(k.func.value, ast.Name):
                atoms = [u(a) for a in controlling_atoms(prog.parents, k)] + [u(c) for x in ast.walk(k) if isinstance(x, ast.comprehension) for c in x.ifs]
                if any("has_edge" in a for a in atoms):
                    accs.add(k.func.value.id)
    for pn in prov_nodes:
        from ..cfg import controlling_facts

        facts = set(fcfg.facts_at(pn.id)) | set(controlling_facts(prog.parents, pn.ast))
        after_graph = any(fcfg.reach(gn.id, pn.id) and not fcfg.reach(pn.id, gn.id, avoid=[fcfg.node_for(PL)]) for gn in graph_nodes)
        only_if_empty = any((p and t.replace(" ", "") in {f"len({a})==0" for a in accs} | {f"not{a}" for a in accs}) or ((not p) and t in accs) for t, p in facts)
        ctx.ob("R04.3", "repair:provider-only-when-the-graph-has-no-answer", after_graph and only_if_empty, f"{fold.mod.path}:{pn.lineno}",
               "the provider is consulted after the graph look-up of the same pair and only when that look-up found nothing (a table created by an earlier "
               "statement is in the graph; the provider may know an older table of the same name)")
    # ---- R04.4 --------------------------------------------------------------------------------------
    common.import_rules(ctx, "C13", {"R13.5": "R04.4"})
    # ---- R04.5 / R04.6 ----------------------------------------------------------------------------------
    # same-named columns of different sub-queries (an alias re-used by a later statement) stay distinct nodes: Column equality compares the
    # owner object (= R06.4); session entries do not outlive a failed run (= R12.1)
    common.import_rules(ctx, "C06", {"R06.4": "R04.5"}, key_filter=lambda o: o.key == "column-equality-includes-the-owner-object")
    common.import_rules(ctx, "C12", {"R12.1": "R04.6"})

    # ---- R04.7 (= R13.2): what a metadata look-up may be conditioned on - a further condition (the written table has an explicit schema ...)
    # makes the chain through an intermediate table depend on how the script spells that table
    from .common import import_rules as _imp04

    _imp04(ctx, "C13", {"R13.2": "R04.7"}, key_filter=lambda o: o.key.startswith("lookup-guards-whitelisted"))
    # ---- R04.8 (= R05.3): the chain is the composition of the statements' own lineage - an extractor kept across statements adds an earlier
    # statement's columns / set-operation barriers to a later one
    _imp04(ctx, "C05", {"R05.3": "R04.8"}, key_filter=lambda o: o.key.startswith(("analyzer-state", "per-query-object")))
    # ---- R04.10 every route is reported: the paths that get_column_lineage returns are enumerated exhaustively (networkx all_simple_paths over the
    # column graph).  The shortest-path family reports one route per pair - a column that reaches a target both directly and through an
    # intermediate table loses the chain through the intermediate
    gcl = prog.cls("core.holders.ColumnLineageMixin").methods.get("get_column_lineage")
    if gcl is None:
        raise AnalysisError("ColumnLineageMixin.get_column_lineage not found")
    ctx.touched(gcl)
    EXHAUSTIVE = {"all_simple_paths", "all_simple_edge_paths", "shortest_simple_paths"}
    PARTIAL = {"shortest_path", "all_shortest_paths", "single_source_shortest_path", "single_target_shortest_path", "bidirectional_shortest_path", "dijkstra_path",
               "all_pairs_shortest_path", "bellman_ford_path", "astar_path", "dag_longest_path", "bfs_tree", "dfs_tree", "bfs_edges", "dfs_edges", "bfs_successors", "dfs_preorder_nodes"}
    n_ins = 0
    for k in prog.walk_fn(gcl):
        pv = None
        if isinstance(k, ast.Call) and isinstance(k.func, ast.Attribute) and k.func.attr == "add" and k.args and isinstance(k.args[0], ast.Call) and u(k.args[0].func) == "tuple" and k.args[0].args:
            pv = k.args[0].args[0]
        elif isinstance(k, (ast.SetComp, ast.ListComp, ast.GeneratorExp)) and isinstance(k.elt, ast.Call) and u(k.elt.func) == "tuple" and k.elt.args:
            pv = k.elt.args[0]
        if pv is None:
            continue
        n_ins += 1
        calls = {(c.func.attr if isinstance(c.func, ast.Attribute) else c.func.id) for c in prog.influences(gcl, pv) if isinstance(c, ast.Call) and isinstance(c.func, (ast.Attribute, ast.Name))}
        if isinstance(k, (ast.SetComp, ast.ListComp, ast.GeneratorExp)):
            for g_ in k.generators:
                calls |= {(c.func.attr if isinstance(c.func, ast.Attribute) else c.func.id) for c in prog.influences(gcl, g_.iter) if isinstance(c, ast.Call) and isinstance(c.func, (ast.Attribute, ast.Name))}
        partial = sorted(calls & PARTIAL)
        ctx.ob("R04.10", "every-route-is-reported", bool(calls & EXHAUSTIVE) and not partial, loc(gcl.mod, k),
               f"`{u(k)[:60]}`: the reported paths come from {sorted(calls & (EXHAUSTIVE | PARTIAL)) or 'no path enumeration of networkx'}" + (
                   f" - {partial[0]} yields one (shortest) route per pair, longer chains through intermediate tables are dropped" if partial else ""))
    ctx.floor("insertions into the result of get_column_lineage", n_ins, 1)

    # ---- R04.9 (= R11.1 in the provider): the columns a script registers for a table keep the order of the script (an INSERT without column list is
    # paired with them by position)
    _imp04(ctx, "C11", {"R11.1": "R04.9"}, key_filter=lambda o: o.key.startswith("MetaDataProvider."))
