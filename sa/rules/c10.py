"""C10 - total error contract; silent mode skips unsupported statements (DESIGN.md C10, rules R10.1-R10.6)."""

from __future__ import annotations

import ast
from typing import Optional

from ..astutil import controlling_atoms, u
from ..cfg import flow
from ..grammar import grammar, installed_dialects
from ..model import AnalysisError, Cls, Fn, Prog, loc
from ..report import Ctx
from ..safety import scan_function

EXPLANATION = (
    "Static analysis of the error discipline that totality needs (totality over all strings is not provable statically in Python). "
    "Decides: R10.1 every explicit raise in the package raises SQLLineageException or a subclass (or NotImplementedError in an abstract "
    "hook every concrete subclass overrides), and no raise statement evaluates an expression that can itself fail on model objects; "
    "R10.2 lex and parse violations are both converted to InvalidSyntaxException before any extractor runs, and the raise dominates every "
    "access to the parse tree; R10.3 no unchecked positional access, fixed-arity unpacking, next() without default or optional "
    "dereference on parser-derived data - sites are discharged by the repository's guard idioms (dominating length / truthiness / not-None "
    "proofs, enumerate / range(len) indices, try/except) or by an allow-table entry carrying the grammar or construction invariant "
    "(re-checked against the grammar model where it is a grammar fact); R10.4 third-party parse entry points are exception boundaries "
    "(known finding: not wrapped); R10.5 the silent-mode branch warns on every path and returns a fresh, effect-free holder; R10.6 model "
    "objects (no __lt__) are never ordered without a key. R10.9 an attribute read on a value that may be one of several repository classes is defined on each alternative or guarded by an isinstance test; R10.8 graph views (degree / nodes / edges ...) are subscripted only with keys known to be in that graph; R10.7 the evaluated flag is set last and on success only, so an accessor called after a failed one raises the library exception again instead of AttributeError. Does not decide: exceptions raised inside sqlfluff/sqlparse/networkx for "
    "well-formed calls, recursion depth."
    " R10.3 also covers %-formatting (conversions in the literal = arguments; a format string that is data). R10.11 an attribute a method establishes is assigned on every path before it is read, and the evaluation routine re-assigns everything it assigns on every path to its normal exit. R10.12 shared clauses: the session's exit does not swallow exceptions (= R12.1), nothing written while one statement is analysed is carried to the next (= R05.3)."
    ' R10.14 no assert on analysis data; R10.15 no networkx algorithm that is defined for acyclic graphs only (list read from the installed networkx sources) outside try/except; R10.16 UnsupportedStatementException is raised only where silent mode is decided. Allow entries resting on grammar facts are re-checked against the positional / nullability relation of every installed dialect grammar.'
)
RULE_TEXT = (
    "R10.1: per raise statement; R10.3: per positional / unpacking / next / optional-dereference site on parser-derived data (semantic key "
    "function:base:access); others per site. Non-trivial = sites not discharged by a trivially safe idiom"
)

# allow-table of R10.3: semantic key -> (reason, optional grammar re-check)
_GROUP_NONEMPTY = ("a sqlparse token group (Function / Identifier / Parenthesis) is never empty, so its last token exists", None)
_STMT_WRAPS_ONE = ("a sqlfluff `statement` node wraps exactly one child statement segment (StatementSegment grammar is a single OneOf)", "statement-wraps-one")
ALLOW = {
    "BaseExtractor._list_table_from_from_clause_or_join_clause:.segments:index:-1": ("a file_reference has at least one child (its path literal)", "reference-nonempty"),
    "SqlParseColumn._extract_source_columns:.tokens:index:-1": _GROUP_NONEMPTY,
    "get_subquery_parentheses:.tokens:index:-1": _GROUP_NONEMPTY,
    "get_parameters:.tokens:index:-1": _GROUP_NONEMPTY,
    "SwapPartitionHandler.handle:.tokens:index:-1": _GROUP_NONEMPTY,
    "remove_parenthesis_between_union:[list]:index:-1": ("`offsets` is created as the non-empty list [-1] and only ever appended to", None),
    "LineageRunner.__str__:statements():index:cross-sequence": ("holders and statements are index-aligned: exactly one holder is appended per statement on every non-raising path (rule R05.1)", None),
    "lazy_method.<locals>.wrapper:param:args:index:0": ("decorator wrapper of bound methods: args[0] is self by construction of the call", None),
    # the parse-and-validate routine is a private helper of both entry points (absorbed by the normaliser): one site per entry point
    "SqlFluffLineageAnalyzer.split_tsql:.segments:index:0": _STMT_WRAPS_ONE,
    "SqlFluffLineageAnalyzer.analyze:.segments:index:0": _STMT_WRAPS_ONE,
    "SqlFluffTable.of:.segments:index:0": ("an object/table reference node has at least one identifier child (ObjectReferenceSegment is Delimited(identifier, min 1))", "reference-nonempty"),
    "SqlFluffTable.of:.segments:index:i+1": ("dot_idx ranges over range(len(segments) - 2, -1, -1), so dot_idx + 1 <= len(segments) - 1", None),
    "is_subquery:.segments:index:0": ("a from_expression_element has at least one child (grammar: table expression is mandatory)", "fee-nonempty"),
    "BaseExtractor._list_table_from_from_clause_or_join_clause:[list]:index:0": ("a from_expression_element has at least one non-keyword child (its table expression)", "fee-nonempty"),
    "MergeExtractor.extract:list_child_segments():index:i+1": ("the merge_statement grammar requires the join condition and match clauses after the USING source, so a bracketed source is never the last child", "merge-source-not-last"),
    "SqlParseLineageAnalyzer.analyze:token_first():optional-deref": ("statements reach analyze() only through split(), which keeps only pieces with a non-comment first token (rule R05.2)", None),
    "TargetHandler._handle:token_first():optional-deref": ("an Identifier group has at least one token", None),
}


def grammar_recheck(tag: Optional[str]) -> tuple[bool, str]:
    """Re-check, on every run, the grammar fact an allow entry rests on - against the positional / nullability relation of EVERY
    installed dialect grammar (child sets alone do not carry "never empty" or "never last")."""
    if tag is None:
        return True, ""
    g = grammar("ansi")
    dialects = installed_dialects()

    def never_empty(*types: str) -> tuple[bool, str]:
        bad, unknown = [], 0
        for d in dialects:
            gd = grammar(d)
            for t in types:
                if t not in gd.types():
                    continue
                e = gd.can_be_empty(t)
                if e:
                    bad.append(f"{d}:{t}")
                elif e is None:
                    unknown += 1
        return not bad, (f"can be empty in {bad[:4]}" if bad else f"{'/'.join(types)} has at least one code child in all {len(dialects)} dialect grammars"
                         + (f" ({unknown} class(es) without a readable grammar)" if unknown else ""))

    if tag == "statement-wraps-one":
        ch = g.children("statement")
        ok, why = never_empty("statement")
        firsts = {d: grammar(d).edge_types("statement", last=False) for d in dialects}
        kw = sorted(d for d, ts in firsts.items() if "keyword" in ts or "symbol" in ts)
        return len(ch) > 10 and "keyword" not in ch and ok and not kw, f"statement -> {len(ch)} alternative statement types, no sibling tokens; {why}" + (f"; a token can stand first in {kw[:4]}" if kw else "")
    if tag == "reference-nonempty":
        ok, why = never_empty("table_reference", "object_reference", "file_reference")
        return ok and "table_reference" in g.types() and "object_reference" in g.types(), why
    if tag == "alias-nonempty":
        return never_empty("alias_expression")
    if tag == "fee-nonempty":
        ch = g.children("from_expression_element")
        ok, why = never_empty("from_expression_element")
        return ok and "table_expression" in ch, why
    if tag == "merge-source-not-last":
        ch = g.children("merge_statement")
        lasts = {d: grammar(d).edge_types("merge_statement", last=True) for d in dialects if "merge_statement" in grammar(d).types()}
        bad = sorted(d for d, ts in lasts.items() if "bracketed" in ts or "table_reference" in ts or "alias_expression" in ts)
        return "merge_match" in ch and "join_on_condition" in ch and not bad, (
            f"the USING source can stand last in {bad[:4]}" if bad else f"no merge_statement of {len(lasts)} dialect grammars can end in its source (last child types: {sorted(set().union(*lasts.values()))})")
    return False, f"unknown re-check {tag}"


def _dag_only_algorithms() -> dict[str, str]:
    """name -> evidence, for the public functions of the installed networkx/algorithms/dag.py that refuse graphs with cycles."""
    import os
    import sys as _sys

    path = next((os.path.join(p_, "networkx", "algorithms", "dag.py") for p_ in _sys.path if p_ and os.path.exists(os.path.join(p_, "networkx", "algorithms", "dag.py"))), None)
    if path is None:
        raise AnalysisError("networkx sources not found on sys.path (algorithms/dag.py)")
    tree = ast.parse(open(path, encoding="utf-8").read())
    fns = {n.name: n for n in tree.body if isinstance(n, ast.FunctionDef)}
    direct: dict[str, str] = {}
    for name, fn in fns.items():
        raises = [r for r in ast.walk(fn) if isinstance(r, ast.Raise) and r.exc is not None and "NetworkXUnfeasible" in ast.unparse(r.exc)]
        doc = ast.get_docstring(fn) or ""
        if raises:
            direct[name] = "raises NetworkXUnfeasible"
        elif "NetworkXUnfeasible" in doc or "not a directed acyclic graph" in doc.lower() or "must be a dag" in doc.lower():
            direct[name] = "documented to refuse cyclic graphs"
    # functions that run one of them on their own argument
    changed = True
    while changed:
        changed = False
        for name, fn in fns.items():
            if name in direct:
                continue
            in_try = {id(x) for t in ast.walk(fn) if isinstance(t, ast.Try) for b in t.body for x in ast.walk(b)}
            for c in ast.walk(fn):
                if isinstance(c, ast.Call) and id(c) not in in_try:
                    cn = c.func.id if isinstance(c.func, ast.Name) else c.func.attr if isinstance(c.func, ast.Attribute) else None
                    if cn in direct and cn in fns and c.args and isinstance(c.args[0], ast.Name) and c.args[0].id in [a.arg for a in fn.args.args[:1]]:
                        direct[name] = f"runs {cn} on its argument"
                        changed = True
                        break
    return {k: v for k, v in direct.items() if not k.startswith("_") and k not in ("is_directed_acyclic_graph", "is_aperiodic")}


def canon_test(prog: Prog, fn: Fn, e: ast.AST) -> str:
    from ..canon import canon
    try:
        return canon(prog, fn, e)[:60]
    except Exception:  # noqa
        return u(e)[:60]


def raised_class(prog: Prog, fn: Fn, r: ast.Raise):
    """("class", qual) of what a raise statement raises, looking through a local that holds the exception built earlier."""
    exc = r.exc
    if exc is None:
        return (None, None)
    if isinstance(exc, ast.Name) and prog.local_defs(fn, exc.id):
        built = [v for v in prog.value_sources(fn, exc) if isinstance(v, ast.Call)]
        if len(built) == 1:
            exc = built[0]
    return prog.resolve_expr(exc.func if isinstance(exc, ast.Call) else exc, fn.mod, fn)


def rules(ctx: Ctx) -> None:
    prog = ctx.prog
    base_exc = prog.try_cls("exceptions.SQLLineageException")
    if base_exc is None:
        raise AnalysisError("SQLLineageException not found")
    model_classes = {prog.cls(f"core.models.{n}").qual for n in ("Table", "Column", "SubQuery", "Path", "Schema")}
    orderable = {q for q in model_classes if any(m in prog.classes[q].methods for m in ("__lt__", "__gt__"))}

    # ---- R10.1 explicit raises ---------------------------------------------------------------
    n_raise = 0
    for f in prog.funcs.values():
        if f.mod.name in ("sqllineage.cli", "sqllineage.drawing"):
            continue  # the web application / command line wrap the analysis; the contract is about the analysis
        for n in prog.walk_fn(f):
            if not isinstance(n, ast.Raise):
                continue
            n_raise += 1
            owner = f.owner
            where = loc(f.mod, n)
            if n.exc is None:
                ctx.ob("R10.1", f"raise-in-family:{owner}:re-raise", True, where, "bare re-raise", trivial=True)
                continue
            exc = n.exc
            if isinstance(exc, ast.Name) and prog.local_defs(f, exc.id):
                # `raise err` where err was built earlier (an exception factory, possibly absorbed): what it was built from decides
                built = [v for v in prog.value_sources(f, exc) if isinstance(v, ast.Call)]
                if len(built) == 1:
                    exc = built[0]
            target = exc.func if isinstance(exc, ast.Call) else exc
            sym = prog.resolve_expr(target, f.mod, f)
            name = u(target)
            ok = sym[0] == "class" and prog.is_subclass(prog.classes[sym[1]], base_exc)
            if not ok and name == "NotImplementedError" and f.cls is not None:
                # abstract hook: every concrete (leaf) subclass overrides it
                subs = prog.subclasses(f.cls)
                leaves = [k for k in subs if not prog.direct_subclasses(k)]
                ok = bool(leaves) and all(prog.find_method(k, f.name) is not f for k in leaves)
            ctx.ob("R10.1", f"raise-in-family:{owner}:{name}", ok, where, f"`{u(n)[:60]}` must raise SQLLineageException or a subclass (or NotImplementedError in an overridden abstract hook)")
            # the raise expression itself must not be able to fail: ordering of model objects, indexing
            if isinstance(n.exc, ast.Call):
                for k in ast.walk(n.exc):
                    if isinstance(k, ast.Call) and isinstance(k.func, ast.Name) and k.func.id in ("sorted", "min", "max") and k.args and not any(kw.arg == "key" for kw in k.keywords):
                        et = prog.infer(k.args[0], f).elem()
                        if any(a.kind == "inst" and a.name in model_classes - orderable for a in et.alts()) or et.kind == "unknown":
                            ctx.ob("R10.1", f"raise-expression-cannot-fail:{owner}", False, loc(f.mod, k),
                                   f"`{u(k)[:60]}` inside a raise orders objects that define no ordering: TypeError would escape instead of the library's exception")
    ctx.floor("explicit raise statements", n_raise, 14)

    # ---- R10.6 no ordering of model objects without key ----------------------------------------
    n_sorted = 0
    for f in prog.funcs.values():
        for k in prog.walk_fn(f):
            if isinstance(k, ast.Call) and (isinstance(k.func, ast.Name) and k.func.id in ("sorted", "min", "max") or isinstance(k.func, ast.Attribute) and k.func.attr == "sort"):
                arg = k.args[0] if k.args and isinstance(k.func, ast.Name) else (k.func.value if isinstance(k.func, ast.Attribute) else None)
                if arg is None:
                    continue
                et = prog.infer(arg, f).elem()
                is_model = any(a.kind == "inst" and a.name in model_classes - orderable for a in et.alts()) or any(a.kind == "tuple" and any(x.kind == "inst" and x.name in model_classes for x in a.args) for a in et.alts())
                if not is_model:
                    continue
                n_sorted += 1
                has_key = any(kw.arg == "key" for kw in k.keywords)
                owner = f"{f.cls.name}.{f.name}" if f.cls else f.name
                ctx.ob("R10.6", f"ordering-has-key:{owner}", has_key, loc(f.mod, k), f"`{u(k)[:60]}` orders model objects, which define no __lt__: a key is required (TypeError otherwise)")
    ctx.extra["orderings_of_model_objects"] = n_sorted

    # ---- R10.2 syntax errors converted before any extractor runs --------------------------------
    an = prog.cls("sqlfluff.analyzer.SqlFluffLineageAnalyzer")
    inv = prog.cls("exceptions.InvalidSyntaxException")
    # every routine that parses text (after normalisation the private parse-and-validate helper is part of each entry point)
    listers = [m for m in prog.funcs.values() if m.mod.name.startswith("sqllineage.core.parser.sqlfluff") and any(isinstance(k, ast.Call) and isinstance(k.func, ast.Attribute) and k.func.attr == "parse_string" for k in prog.walk_fn(m))]
    ctx.floor("routines calling the sqlfluff parser", len(listers), 1)
    for lister in listers:
        ctx.touched(lister)
        lname = f"{lister.cls.name}.{lister.name}" if lister.cls else lister.name
        lcfg = flow(prog, lister).cfg
        raises = [c for c in lcfg.nodes.values() if c.kind == "stmt" and isinstance(c.ast, ast.Raise) and c.ast.exc is not None and tuple(raised_class(prog, lister, c.ast))[:2] == ("class", inv.qual)]
        raises = [r for r in raises if any("violation" in t and p for t, p in lcfg.facts_at(r.id))]
        ctx.ob("R10.2", "violations-raise-invalid-syntax", len(raises) == 1, lister.loc(), f"{lname} raises InvalidSyntaxException when the parse recorded violations")
        # the filter keeps both lexing and parsing errors
        kinds: set[str] = set()
        for k in prog.walk_fn(lister):
            if isinstance(k, ast.Call) and isinstance(k.func, ast.Name) and k.func.id == "isinstance" and len(k.args) == 2 and any(isinstance(a, ast.comprehension) for a in list(prog.ancestors(k))[:3]):
                kinds |= {u(x) for x in (k.args[1].elts if isinstance(k.args[1], ast.Tuple) else [k.args[1]])}
        unfiltered = not kinds and any(isinstance(k, ast.comprehension) and "violations" in u(k.iter) and not k.ifs for k in prog.walk_fn(lister))
        ctx.ob("R10.2", "lex-and-parse-errors-both-count", kinds >= {"SQLLexError", "SQLParseError"} or unfiltered, lister.loc(),
               f"{lname}: text the lexer or the parser cannot handle is reported as invalid syntax; the filter keeps {sorted(kinds) or 'everything'}")
        if raises:
            r = raises[0]
            facts = lcfg.facts_at(r.id)
            # a condition is about the violations when what it tests is computed from them (whatever the local is called)
            def _about_violations(t: str) -> bool:
                if "violation" in t:
                    return True
                try:
                    e_ = ast.parse(t, mode="eval").body
                except SyntaxError:
                    return False
                return any(isinstance(k_, ast.Attribute) and k_.attr == "violations" for x in ast.walk(e_) if isinstance(x, ast.Name) for k_ in prog.influences(lister, x))

            vio = [(t, p) for t, p in facts if _about_violations(t)]
            other = [(t, p) for t, p in facts if not _about_violations(t) and "tsql_split_cache" not in t]
            ctx.ob("R10.2", "raise-iff-violations", bool(vio) and len(vio) <= 2 and not other, f"{lister.mod.path}:{r.lineno}",
                   f"{lname}: the raise is conditioned on the presence of violations only" + (f" (also on `{other[0][0]}`)" if other else ""))
            tree_uses = [c for c in lcfg.nodes.values() if c.ast is not None and c.kind in ("stmt", "cond", "for") and any(isinstance(k, ast.Attribute) and k.attr == "tree" for k in ast.walk(c.ast.iter if c.kind == "for" else c.ast))]
            cond = next((c for c in lcfg.nodes.values() if c.kind == "cond" and lcfg.reach(c.id, r.id) and "violation" in u(c.ast)), None)
            ok = bool(tree_uses) and cond is not None and all(lcfg.dominates(cond.id, t.id) for t in tree_uses)
            ctx.ob("R10.2", "violations-check-dominates-tree-access", ok, lister.loc(), f"{lname}: every access to parsed.tree is dominated by the violations test")
            # when nothing was parsed at all the report cannot come out empty (sqlfluff may have skipped the text without recording a
            # violation): on the paths where `parsed_variants` is falsy, what the raise condition tests is either raised on directly or given a
            # value that is never empty (`x or [<literal>]`, a non-empty literal), and that value is what the condition looks at
            from ..cfg import controlling_facts as _cf3

            def _nonempty_value(v: ast.AST) -> bool:
                if isinstance(v, ast.BoolOp) and isinstance(v.op, ast.Or):
                    return _nonempty_value(v.values[-1])
                return isinstance(v, (ast.List, ast.Tuple)) and bool(v.elts)

            fl_l = flow(prog, lister)
            ok_np = False
            cond_names = {x.id for a_ in controlling_atoms(prog.parents, r.ast) for x in prog.influences(lister, a_) if isinstance(x, ast.Name)}
            for st_ in prog.walk_fn(lister):
                facts_ = None
                if isinstance(st_, ast.Assign) and _nonempty_value(st_.value) and any(isinstance(t_, ast.Name) and t_.id in cond_names for t_ in st_.targets):
                    facts_ = set(fl_l.facts_for(st_)) | set(_cf3(prog.parents, st_))
                elif isinstance(st_, ast.Raise) and st_.exc is not None and tuple(raised_class(prog, lister, st_))[:2] == ("class", inv.qual):
                    facts_ = set(fl_l.facts_for(st_)) | set(_cf3(prog.parents, st_))
                if facts_ is not None and any("parsed_variants" in t_ and ((not p_ and not t_.startswith("not ")) or (p_ and t_.startswith("not "))) for t_, p_ in facts_):
                    ok_np = True
            ctx.ob("R10.2", "nothing-parsed-is-invalid-syntax", ok_np, lister.loc(),
                   f"{lname}: when no variant was parsed at all (templater failure) the violations are reported as invalid syntax before `.tree` (which asserts) is touched")
    # no other routine reads the tree of a parse result
    for m in prog.funcs.values():
        if m.mod.name.startswith("sqllineage.core.parser.sqlfluff") and m not in listers:
            for k in prog.walk_fn(m):
                if isinstance(k, ast.Attribute) and k.attr == "tree" and isinstance(k.ctx, ast.Load):
                    ctx.ob("R10.2", "violations-check-dominates-tree-access", False, loc(m.mod, k), f"`{u(k)}` reads a parse tree outside the routines that validate the parse")
    # analyze(): extractors run only on segments coming from a validated parse (directly or via the cache filled from one)
    analyze = an.methods["analyze"]
    ctx.touched(analyze)
    disp_calls = [k for k in prog.walk_fn(analyze) if isinstance(k, ast.Call) and isinstance(k.func, ast.Attribute) and k.func.attr == "can_extract" and k.args]
    segs = [a.value for k in disp_calls for a in [k.args[0]] if isinstance(a, ast.Attribute) and isinstance(a.value, ast.Name)]
    ok_src = bool(segs)
    srcs = set()
    for sg in segs:
        roots = set()
        for k in prog.influences(analyze, sg):
            if isinstance(k, ast.Attribute) and k.attr == "tree":
                roots.add("validated-parse")
            elif isinstance(k, ast.Attribute) and k.attr == "tsql_split_cache":
                roots.add("cache")
            elif isinstance(k, ast.Call) and not (isinstance(k.func, ast.Attribute) and k.func.attr in ("parse_string", "get", "get_children", "append", "extend", "join", "warn") or isinstance(k.func, ast.Name) and k.func.id in ("getattr", "str", "isinstance", "len", "type", "Linter", "InvalidSyntaxException")):
                roots.add(f"call:{u(k.func)}")
        srcs |= roots
        ok_src = ok_src and bool(roots) and roots <= {"validated-parse", "cache"}
    cache_writers = {m for m in an.methods.values() for k in prog.walk_fn(m) if isinstance(k, ast.Subscript) and isinstance(k.ctx, ast.Store) and "tsql_split_cache" in u(k.value)}
    ok_cache = cache_writers <= set(listers)
    ctx.ob("R10.2", "extractors-only-see-validated-segments", ok_src and ok_cache, analyze.loc(),
           f"analyze() takes its statement segment from a validated parse or from the cache that only validating routines fill (sources: {sorted(srcs)}; cache writers: {sorted(m.name for m in cache_writers)})")

    # ---- R10.3 -----------------------------------------------------------------------------------
    n_sites = 0
    used_allow: set[str] = set()
    for f in prog.funcs.values():
        if f.mod.name in ("sqllineage.cli", "sqllineage.drawing"):
            continue
        for s in scan_function(prog, f):
            n_sites += 1
            ctx.touched(f)
            where = loc(f.mod, s.node)
            if s.discharged:
                ctx.ob("R10.3", s.key, True, where, f"{s.detail}: {s.discharged}", trivial=s.kind.startswith("index:var"))
                continue
            if s.key in ALLOW:
                reason, tag = ALLOW[s.key]
                ok, info = grammar_recheck(tag)
                used_allow.add(s.key)
                if ok:
                    ctx.allow("R10.3", s.key, where, s.detail, reason + (f" [grammar re-check: {info}]" if info else ""))
                else:
                    ctx.ob("R10.3", s.key, False, where, f"{s.detail}; the grammar fact that made it safe no longer holds: {info}")
                continue
            ctx.ob("R10.3", s.key, False, where, f"{s.detail}: no dominating guard (length / truthiness / not-None proof, enumerate index, try/except) protects it")
    ctx.floor("positional / optional access sites on parser-derived data", n_sites, 80)
    ctx.extra["stale_allow_entries"] = sorted(set(ALLOW) - used_allow)
    # optional result passed straight into a function that dereferences its parameter
    for f in prog.funcs.values():
        for n in prog.walk_fn(f):
            if not (isinstance(n, ast.Call) and n.args):
                continue
            for i, a in enumerate(n.args):
                if not isinstance(a, ast.Call):
                    continue
                rt = prog.infer(a, f)
                if not rt.is_optional():
                    continue
                for cal in prog.resolve_call(n, f):
                    if not isinstance(cal, Fn) or cal.name == "__init__":
                        continue
                    ps = cal.params()
                    if cal.cls is not None and cal.kind in ("method", "classmethod") and ps and ps[0] in ("self", "cls"):
                        ps = ps[1:]
                    if i >= len(ps):
                        continue
                    pn = ps[i]
                    pt = prog.param_type(cal, pn)
                    if pt is not None and pt.is_optional():
                        continue
                    cfl = flow(prog, cal)
                    derefs = [k for k in prog.walk_fn(cal) if isinstance(k, ast.Attribute) and isinstance(k.value, ast.Name) and k.value.id == pn
                              and not any((t == pn and p) or (t == f"{pn} is not None" and p) for t, p in cfl.facts_for(k))]
                    if derefs:
                        owner = f"{f.cls.name}.{f.name}" if f.cls else f.name
                        ctx.ob("R10.3", f"{owner}:{u(a.func).split('.')[-1]}()->{cal.name}:optional-arg", False, loc(f.mod, n),
                               f"`{u(n)[:70]}` passes a result that may be None to {cal.name}, which dereferences `{pn}.{derefs[0].attr}` unguarded (AttributeError)")

    # ---- R10.4 third-party parse entry points -------------------------------------------------------
    entry = {"parse_string", "from_path"}
    for f in prog.funcs.values():
        for n in prog.walk_fn(f):
            if isinstance(n, ast.Call) and isinstance(n.func, ast.Attribute) and n.func.attr in entry and f.mod.name.endswith("sqlfluff.analyzer"):
                wrapped = False
                for a in prog.ancestors(n):
                    if isinstance(a, ast.Try) and any(n is x for b in a.body for x in ast.walk(b)):
                        for h in a.handlers:
                            converts = any(isinstance(k, ast.Raise) and k.exc is not None and raised_class(prog, f, k)[0] == "class"
                                           and prog.is_subclass(prog.classes[raised_class(prog, f, k)[1]], base_exc) for b in h.body for k in ast.walk(b))
                            # the third-party parser fails in many ways on adversarial text (RuntimeError at the recursion limit, AssertionError /
                            # KeyError / ValueError inside the templater and inline-directive handling): only a handler for Exception is a boundary
                            if converts and (h.type is None or u(h.type) in ("Exception", "BaseException")):
                                wrapped = True
                if n.func.attr == "from_path":
                    ctx.allow("R10.4", f"parse-boundary:{f.name}:{n.func.attr}", loc(f.mod, n), f"`{u(n)[:60]}`",
                              "configuration loading fails only for an unknown dialect or a malformed user .sqlfluff file; the property quantifies over listed dialects and input text")
                    continue
                ctx.ob("R10.4", f"parse-boundary:{f.name}:{n.func.attr}", wrapped, loc(f.mod, n),
                       f"`{u(n)[:60]}` is where foreign exceptions originate before the tree exists: it must convert parser-internal runtime errors to the library's own")

    # ---- R10.5 silent mode ---------------------------------------------------------------------------
    acfg = flow(prog, analyze).cfg
    SH = prog.cls("core.holders.StatementLineageHolder")
    silent_returns = []
    for c in acfg.nodes.values():
        if c.kind == "stmt" and isinstance(c.ast, ast.Return) and c.ast.value is not None:
            facts = acfg.facts_at(c.id)
            if any("silent" in t and p for t, p in facts):
                silent_returns.append(c)
    ctx.ob("R10.5", "silent-branch-present", len(silent_returns) == 1, analyze.loc(), "analyze() has one return under silent mode", trivial=True)
    for c in silent_returns:
        v = c.ast.value
        fresh = isinstance(v, ast.Call) and not v.args and not v.keywords and prog.resolve_expr(v.func, analyze.mod, analyze) == ("class", SH.qual)
        ctx.ob("R10.5", "silent-returns-fresh-empty-holder", fresh, f"{analyze.mod.path}:{c.lineno}", f"`{u(c.ast)}`: the skipped statement contributes a fresh, empty holder (the identity of the fold)")
        # warn on every path from the silent test to this return
        cond = next((k for k in acfg.nodes.values() if k.kind == "cond" and "silent" in u(k.ast) and acfg.reach(k.id, c.id)), None)
        warns = [k.id for k in acfg.nodes.values() if k.ast is not None and k.kind == "stmt" and any(isinstance(x, ast.Call) and u(x.func) in ("warnings.warn", "warn") for x in ast.walk(k.ast))]
        ok = cond is not None and bool(warns) and not acfg.reach(cond.id, c.id, avoid=warns)
        ctx.ob("R10.5", "silent-skip-always-warns", ok, f"{analyze.mod.path}:{c.lineno}", "every path from the silent-mode test to the skip emits a warning")
        facts = acfg.facts_at(c.id)
        def _about_dispatch(t: str) -> bool:
            """the fact only says that no extractor accepts the statement type (however the search for one is written)"""
            try:
                e = ast.parse(t, mode="eval").body
            except SyntaxError:
                return False
            for x in ast.walk(e):
                if isinstance(x, ast.Name) and any(isinstance(k, ast.Call) and isinstance(k.func, ast.Attribute) and k.func.attr == "can_extract" for k in prog.influences(analyze, x)):
                    return True
            return False

        foreign = [t for t, p in facts if "silent" not in t and "can_extract" not in t and "statement_segments" not in t and "tsql_split_cache" not in t and not _about_dispatch(t)]
        ctx.ob("R10.5", "silent-skip-unconditional", not foreign, f"{analyze.mod.path}:{c.lineno}", "the skip depends on silent mode only" + (f" (also on `{foreign[0]}`)" if foreign else ""))
    # the non-silent alternative raises UnsupportedStatementException
    uns = prog.cls("exceptions.UnsupportedStatementException")
    r_uns = [c for c in acfg.nodes.values() if c.kind == "stmt" and isinstance(c.ast, ast.Raise) and c.ast.exc is not None and tuple(raised_class(prog, analyze, c.ast))[:2] == ("class", uns.qual)]
    ctx.ob("R10.5", "unsupported-raises-outside-silent-mode", any(any("silent" in t and not p for t, p in acfg.facts_at(c.id)) for c in r_uns), analyze.loc(),
           "outside silent mode an unsupported statement type raises UnsupportedStatementException")
    # multi-write guard (named by the property's anchors)
    guard = False
    for f in prog.funcs.values():
        for n in prog.walk_fn(f):
            if isinstance(n, ast.Raise) and any(p and t.startswith("len(") and t.endswith(".write) > 1") for t, p in flow(prog, f).facts_for(n)):
                guard = True
    ctx.ob("R10.5", "multi-write-guard", guard, base_exc.loc(), "more than one write target raises the library's exception")
    # ---- R10.8 graph views are subscripted only with keys known to be in the graph ------------------------------
    # (networkx raises KeyError / NetworkXError for an absent node or edge: a graph-library exception the contract forbids)
    VIEWS = {"degree", "in_degree", "out_degree", "nodes", "edges", "adj", "pred", "succ"}
    n_view = 0
    for f in prog.funcs.values():
        if f.mod.name in ("sqllineage.cli", "sqllineage.drawing", "sqllineage.io"):
            continue
        for n in prog.walk_fn(f):
            if not (isinstance(n, ast.Subscript) and isinstance(n.ctx, ast.Load) and isinstance(n.value, ast.Attribute) and n.value.attr in VIEWS):
                continue
            recv_t = prog.infer(n.value.value, f)
            def _graphish(v: ast.AST) -> bool:
                if isinstance(v, ast.Attribute) and v.attr.endswith("graph"):
                    return True
                if isinstance(v, ast.Call):
                    fn_txt = u(v.func)
                    return fn_txt.split(".")[-1] in ("DiGraph", "Graph", "MultiDiGraph", "compose", "compose_all", "relabel_nodes", "subgraph", "edge_subgraph", "copy", "reverse")
                return False

            if not ("Graph" in repr(recv_t) or u(n.value.value).endswith("graph") or any(_graphish(v) for v in prog.value_sources(f, n.value.value))):
                continue
            n_view += 1
            G = u(n.value.value)
            K = n.slice
            kt = u(K)
            where = loc(f.mod, n)
            facts = set(flow(prog, f).facts_for(n))
            from ..cfg import controlling_facts as _cf

            facts |= set(_cf(prog.parents, n))
            guarded = any(p and t in (f"{G}.has_node({kt})", f"{kt} in {G}", f"{kt} in {G}.nodes", f"{G}.has_edge(*{kt})", f"{kt} in {G}.edges") for t, p in facts)
            # the key is an element of a view of the same graph (loop / comprehension variable, possibly one component of it)
            from_view = False
            why = ""
            for x in ast.walk(K):
                if isinstance(x, ast.Name):
                    for src in prog.value_sources(f, x):
                        it = getattr(src, "iter", None)
                        if it is not None and any(isinstance(k, ast.Attribute) and u(k.value) == G for k in ast.walk(it)) or it is not None and u(it).startswith(G + "."):
                            from_view = True
            if not guarded and not from_view:
                # a lambda parameter ranging over a property of the graph's owner that enumerates the graph's own edges / nodes
                lam = next((a for a in prog.ancestors(n) if isinstance(a, ast.Lambda)), None)
                call = prog.parent(prog.parent(lam)) if lam is not None and isinstance(prog.parent(lam), ast.keyword) else None
                if lam is not None and isinstance(call, ast.Call) and call.args and isinstance(K, ast.Name) and K.id in [a.arg for a in lam.args.args]:
                    itx = call.args[0]
                    if isinstance(itx, ast.Attribute) and G.startswith(u(itx.value)):
                        for getter in prog.property_getters(itx, f):
                            if any(isinstance(k, ast.Attribute) and k.attr in ("edges", "nodes") and "graph" in u(k.value) for k in prog.walk_fn(getter)):
                                from_view = True
                                why = f" (elements of `{u(itx)}` are enumerated from the same graph by {getter.owner})"
            ctx.ob("R10.8", f"graph-view-key-present:{f.owner}:{n.value.attr}", guarded or from_view, where,
                   f"`{u(n)}`: the key must be known to be in the graph (has_node / has_edge / membership test, or an element of a view of the same graph){why}; "
                   f"networkx raises KeyError otherwise")
    ctx.floor("subscripts of graph views", n_view, 2)

    # ---- R10.9 an attribute read on a value that may be one of several model / handler classes exists on each of them -------------------
    # (Column.parent is a Table, a SubQuery or a Path: `.raw_name` exists on the first only - AttributeError for the others)
    def _has_attr(c: Cls, a: str) -> bool:
        for k in prog.mro(c):
            if a in k.methods or a in k.setters or a in k.consts or a in k.annots or prog._has_instance_attr(k, a):
                return True
        return False

    n_union = 0
    for f in prog.funcs.values():
        if not f.mod.name.startswith("sqllineage.core"):
            continue
        fl_ = None
        for x in prog.walk_fn(f):
            if not (isinstance(x, ast.Attribute) and isinstance(x.ctx, ast.Load)):
                continue
            t = prog.infer(x.value, f)
            alts = [a for a in t.alts() if a.kind == "inst" and a.name in prog.classes]
            if len(alts) < 2 or len(alts) != len([a for a in t.alts() if a.kind != "none"]):
                continue
            if fl_ is None:
                fl_ = flow(prog, f)
            if isinstance(x.value, ast.Name):
                # only the definitions that can reach this use decide what the name may hold
                rts = [prog._def_type(kind, node, f, 0) for kind, node in fl_.reaching_defs(x, x.value.id)]
                ralts = [a for rt in rts for a in rt.alts() if a.kind == "inst" and a.name in prog.classes]
                if rts and all(rt.kind != "unknown" for rt in rts) and ralts:
                    alts = [a for a in alts if a in ralts]
            missing = [a.name.rsplit(".", 1)[-1] for a in alts if not _has_attr(prog.classes[a.name], x.attr)]
            if not missing or len(missing) == len(alts):
                continue
            n_union += 1
            from ..cfg import controlling_facts as _cf2

            facts = set(fl_.facts_for(x)) | set(_cf2(prog.parents, x))
            vt = u(x.value)
            narrowed = set()
            for t_, p_ in facts:
                if p_ and t_.startswith(f"isinstance({vt},"):
                    try:
                        call_ = ast.parse(t_, mode="eval").body
                        narrowed |= {n_.id if isinstance(n_, ast.Name) else n_.attr for n_ in ast.walk(call_.args[1]) if isinstance(n_, (ast.Name, ast.Attribute))}
                    except (SyntaxError, IndexError):
                        pass
            ok = bool(narrowed) and not any(m in narrowed or any(prog.is_subclass(prog.classes[a.name], c2) for c2 in prog.classes.values() if c2.name in narrowed and a.name.endswith("." + m)) for m in missing for a in alts if a.name.endswith("." + m))
            ctx.ob("R10.9", f"attribute-exists-on-every-alternative:{f.owner}:{x.attr}", ok, loc(f.mod, x),
                   f"`{u(x)}`: `{vt}` may be {sorted(a.name.rsplit('.', 1)[-1] for a in alts)}; `{x.attr}` is not defined on {missing} - needs an isinstance test that excludes them")
    ctx.extra["attribute_reads_on_class_unions_with_partial_support"] = n_union

    # ---- R10.7 a failed evaluation is retried, not half-visible -------------------------------------
    # (after a library exception every later accessor must raise the same library exception again, not AttributeError on a holder
    # that was never assigned)
    from . import common as _common

    _common.flag_rule(ctx, _common.runner(prog), "R10.7")

    # ---- R10.11 an attribute that a method establishes (it is not set by the constructor or at class level) is established on every path
    # before it is read: a branch that only warns and falls through leaves the object without it, and the next read is an AttributeError
    R_ = _common.runner(prog)
    n_est = 0
    for c in prog.classes.values():
        if not c.mod.name.startswith("sqllineage."):
            continue
        init_like = [m for nm, m in c.methods.items() if nm in ("__init__", "__new__", "__post_init__")]
        preset = set(c.consts)
        for k in [c] + [b for b in prog.classes.values() if b is not c and prog.is_subclass(c, b)]:
            preset |= set(k.consts)
            for m in k.methods.values():
                if m.name in ("__init__", "__new__", "__post_init__"):
                    preset |= {n.attr for n in prog.walk_fn(m) if isinstance(n, ast.Attribute) and isinstance(n.ctx, ast.Store) and isinstance(n.value, ast.Name) and n.value.id == "self"}
        for m in c.methods.values():
            if m in init_like or not m.params() or m.params()[0] != "self":
                continue
            stores: dict[str, list[ast.AST]] = {}
            for n in prog.walk_fn(m):
                # (the evaluation routine re-establishes the object's state on every run: there, a value left over from the constructor is as wrong
                # as no value - the statement list would stay empty and nothing be analysed)
                if isinstance(n, ast.Attribute) and isinstance(n.ctx, ast.Store) and isinstance(n.value, ast.Name) and n.value.id == "self" and (n.attr not in preset or m is R_.evaluator):
                    stores.setdefault(n.attr, []).append(n)
            if not stores:
                continue
            cfg_ = flow(prog, m).cfg
            for attr, sts in sorted(stores.items()):
                # set by another method as well: which one runs first is not visible here
                if any(o is not m and o not in init_like and any(isinstance(n, ast.Attribute) and isinstance(n.ctx, ast.Store) and n.attr == attr and isinstance(n.value, ast.Name) and n.value.id == "self" for n in prog.walk_fn(o))
                       for o in c.methods.values()):
                    continue
                snodes = {cfg_.node_for(n) for n in sts}
                if None in snodes:
                    continue
                n_est += 1
                ctx.touched(m)
                for n in prog.walk_fn(m):
                    if isinstance(n, ast.Attribute) and isinstance(n.ctx, ast.Load) and n.attr == attr and isinstance(n.value, ast.Name) and n.value.id == "self":
                        ln = cfg_.node_for(n)
                        if ln is None:
                            continue
                        unset = ln not in snodes and cfg_.reach(cfg_.entry, ln, avoid=snodes)
                        ctx.ob("R10.11", f"established-before-read:{m.owner}:{attr}", not unset, loc(m.mod, n),
                               f"`self.{attr}` is read here; " + ("some path from the start of the method reaches this read without assigning it" if unset else "every path to this read assigns it first"),
                               trivial=not unset)
                if m is R_.evaluator:
                    unset = cfg_.reach(cfg_.entry, cfg_.exit, avoid=snodes)
                    ctx.ob("R10.11", f"established-on-return:{m.owner}:{attr}", not unset, m.loc(),
                           f"the evaluation routine returns normally only after assigning `self.{attr}` (the accessors read it afterwards)" if not unset else
                           f"some path through the evaluation routine returns normally without assigning `self.{attr}`: the accessors then fail with AttributeError or see what the constructor left there")
    ctx.floor("attributes established by a method other than the constructor", n_est, 2)

    # ---- R10.10 no state shared between analyses can change what a text is reported as (= R12.2: e.g. a parse cache keyed by text only and
    # shared by analyzers of different dialects answers "valid" for text the current dialect cannot parse)
    _common.import_rules(ctx, "C12", {"R12.2": "R10.10"})

    # ---- R10.12 (= R12.1, exit does not swallow; = R05.3, analyzer state): an exception raised while session metadata is registered must
    # leave the session's `with` block, and nothing written while one statement is analysed is carried into the next (objects that keep
    # per-query lists then fail inside networkx on the second statement)
    _common.import_rules(ctx, "C12", {"R12.1": "R10.12"}, key_filter=lambda o: "swallow" in o.key)
    _common.import_rules(ctx, "C05", {"R05.3": "R10.12"}, key_filter=lambda o: o.key.startswith(("analyzer-state", "per-query-object")))

    # ---- R10.13 no attribute of a third-party module is re-bound (limits, tables and functions of sqlparse / sqlfluff / networkx stay what the
    # library ships: a tightened recursion or token limit makes sqlparse raise its own error on input the contract covers)
    n_patch = 0
    for f in prog.funcs.values():
        for k in prog.walk_fn(f):
            if isinstance(k, ast.Attribute) and isinstance(k.ctx, ast.Store) and isinstance(k.value, (ast.Name, ast.Attribute)):
                root = k.value
                while isinstance(root, ast.Attribute):
                    root = root.value
                if isinstance(root, ast.Name) and not prog.local_defs(f, root.id) and root.id not in f.params() and prog.resolve(f.mod.name, root.id, f)[0] in ("ext", "extmod"):
                    n_patch += 1
                    ctx.ob("R10.13", f"third-party-attribute-not-rebound:{f.owner}:{u(k)}", False, loc(f.mod, k), f"`{u(prog.enclosing_stmt(k))[:70]}` changes `{u(k)}` of a third-party module for the whole process")
    ctx.ob("R10.13", "third-party-attribute-not-rebound:scanned", True, "sqllineage/", f"{n_patch} assignment(s) to attributes of third-party modules found", trivial=True)

    # ---- R10.14 an `assert` on analysis data is a raise of AssertionError (and vanishes under -O): the contract names the library's exceptions only
    n_assert = 0
    for f in prog.funcs.values():
        if f.mod.name in ("sqllineage.cli", "sqllineage.drawing"):
            continue
        for k in prog.walk_fn(f):
            if isinstance(k, ast.Assert):
                n_assert += 1
                always = isinstance(k.test, ast.Constant) and bool(k.test.value)
                ctx.ob("R10.14", f"no-assert:{f.owner}:{canon_test(prog, f, k.test)}", always, loc(f.mod, k),
                       f"`{u(k)[:70]}`: when the condition fails, AssertionError escapes instead of SQLLineageException")
    ctx.ob("R10.14", "no-assert:scanned", True, "sqllineage/", f"{n_assert} assert statement(s) in the analysis package", trivial=True)

    # ---- R10.15 lineage graphs have cycles (a statement that reads what it writes, two statements feeding each other): an algorithm that networkx
    # defines for acyclic graphs only raises NetworkXUnfeasible / NetworkXError on them.  The list of such algorithms is read from the
    # installed networkx sources (functions of algorithms/dag.py whose body raises, or whose documentation announces, NetworkXUnfeasible /
    # "is not a directed acyclic graph"), never imported.
    dag_only = _dag_only_algorithms()
    ctx.floor("networkx algorithms defined for acyclic graphs only (read from the installed sources)", len(dag_only), 5)
    n_nx = 0
    for f in prog.funcs.values():
        for k in prog.walk_fn(f):
            if isinstance(k, ast.Call):
                nm = k.func.attr if isinstance(k.func, ast.Attribute) else k.func.id if isinstance(k.func, ast.Name) else None
                if nm is None:
                    continue
                tgt = prog.resolve_expr(k.func, f.mod, f)
                if tgt[0] in ("ext", "extmod") and str(tgt[1]).split(".")[0] == "networkx":
                    n_nx += 1
                    if nm in dag_only:
                        guarded = any(isinstance(a, ast.Try) and any(k is x for b in a.body for x in ast.walk(b)) for a in prog.ancestors(k))
                        ctx.ob("R10.15", f"no-dag-only-algorithm:{f.owner}:{nm}", guarded, loc(f.mod, k),
                               f"`{u(k)[:70]}`: networkx.{nm} is defined for acyclic graphs only ({dag_only[nm]}); a script whose lineage has a cycle makes it raise")
    ctx.floor("calls into networkx", n_nx, 8)

    # ---- R10.16 who may refuse a statement: silent mode turns "unsupported" into a warning at the one place where the statement is dispatched; an
    # UnsupportedStatementException raised anywhere below that place (inside an extractor or handler) passes the silent-mode branch by
    unsupported = prog.try_cls("exceptions.UnsupportedStatementException")
    if unsupported is None:
        raise AnalysisError("UnsupportedStatementException not found")
    n_uns = 0
    for f in prog.funcs.values():
        for k in prog.walk_fn(f):
            if not isinstance(k, ast.Raise) or k.exc is None:
                continue
            sym = raised_class(prog, f, k)
            if sym[0] == "class" and prog.is_subclass(prog.classes[sym[1]], unsupported):
                n_uns += 1
                reads_silent = any(isinstance(x, ast.Attribute) and "silent" in x.attr.lower() for x in prog.walk_fn(f)) or \
                    any(isinstance(x, ast.Name) and "silent" in x.id.lower() for x in prog.walk_fn(f))
                ctx.ob("R10.16", f"unsupported-raised-where-silent-mode-is-decided:{f.owner}", reads_silent, loc(f.mod, k),
                       f"`{u(k)[:60]}` in {f.owner}: " + ("the function decides on silent mode itself" if reads_silent else
                                                         "silent mode is decided by the analyzer's dispatch, not here - with silent_mode=True this statement aborts the script instead of being skipped with a warning"))
    ctx.floor("raise sites of UnsupportedStatementException", n_uns, 2)
