"""C05 - a script is analysed as exactly the sequence of its statements (DESIGN.md C05, rules R05.1-R05.4)."""

from __future__ import annotations

import ast
from dataclasses import replace
from typing import Optional

from ..astutil import controlling_atoms, is_self_attr, u
from ..cfg import MUTATORS, flow
from ..model import AnalysisError, Cls, Fn, Prog, loc
from ..report import Ctx
from . import common

EXPLANATION = (
    "Static analysis of the runner's evaluator, the two splitters and the per-statement machinery. Decides: R05.1 reported statements "
    "and analysed statements are the same list: the statement list is assigned only by a splitter call on the stripped input, never "
    "mutated, iterated directly by the analysis loop, reported by an unfiltered comprehension, one holder is appended per iteration on "
    "every non-raising path and all holders are assembled in order; R05.2 in split() a piece is dropped exactly for the two stated "
    "reasons (no non-comment token; first non-comment token is the `;` punctuation) and every other piece is appended unmodified; "
    "R05.3 statements are analysed independently: extractor / handler objects (which carry per-query lists) are constructed inside the "
    "call that uses them and never stored, the analyzer's only loop-carried field is the T-SQL split cache written by the splitter alone, "
    "and session metadata is inert without a provider (every provider look-up gated by truthiness, = R13.2); R05.4 the T-SQL splitter "
    "returns one entry per statement segment, in order, and caches exactly those segments. Does not decide: lexing of semicolons in "
    "literals/comments (sqlparse) and T-SQL batch boundaries (sqlfluff grammar)."
    ' R05.5 (= R10.11 on the evaluation routine): the statement list and the results are assigned on every path of a run.'
    " R05.6 also requires that each holder's graph is composed into a fresh result before its effects are applied (= R03.2, compose-first)."
)
RULE_TEXT = "one obligation per store/iteration/append of the statement list, per skip path of split(), per constructor site of extractors/handlers"


def rules(ctx: Ctx) -> None:
    prog = ctx.prog
    R = common.runner(prog)
    ev = R.evaluator
    ctx.touched(ev)
    split = prog.try_fn("utils.helpers.split")
    if split is None:
        raise AnalysisError("utils.helpers.split not found")

    # ---- R05.1 ----------------------------------------------------------------------------
    # the statement list attribute: the attribute the analysis loop iterates
    loops = [n for n in prog.walk_fn(ev) if isinstance(n, ast.For) and any(isinstance(k, ast.Call) and isinstance(k.func, ast.Attribute) and k.func.attr == "analyze" for b in n.body for k in ast.walk(b))]
    if len(loops) != 1:
        raise AnalysisError(f"analysis loop not found in {ev.qual} ({len(loops)} candidates)")
    L = loops[0]
    it = L.iter
    plain = is_self_attr(it)
    ctx.ob("R05.1", "loop-iterates-the-statement-list-directly", plain, loc(ev.mod, L),
           f"`for {u(L.target)} in {u(it)}`: the analysis loop iterates the statement list itself (no slice / filter / reordering)")
    if not plain:
        attr_candidates = [x.attr for x in ast.walk(it) if is_self_attr(x)]
        if not attr_candidates:
            raise AnalysisError("cannot identify the statement list attribute")
        stmt_attr = attr_candidates[0]
    else:
        stmt_attr = it.attr
    ctx.extra["anchors"] = {"evaluator": ev.qual, "statement_list": stmt_attr, "split": split.qual}
    n_stores = 0
    for f in prog.funcs.values():
        for n in prog.walk_fn(f):
            if isinstance(n, ast.Attribute) and n.attr == stmt_attr and isinstance(n.value, ast.Name) and n.value.id == "self" and f.cls is R.cls:
                par = prog.parent(n)
                st = prog.enclosing_stmt(n)
                if isinstance(n.ctx, ast.Store):
                    n_stores += 1
                    val = st.value if isinstance(st, (ast.Assign, ast.AnnAssign)) else None
                    if f.name == "__init__":
                        ok = isinstance(val, ast.List) and not val.elts
                        ctx.ob("R05.1", "stmt-list:init-empty", ok, loc(f.mod, n), f"`{u(st)}`: empty until evaluated", trivial=True)
                    elif f is ev:
                        # whatever reaches the store (directly, or through a local that the branches fill) is a splitter's answer for the input
                        srcs = prog.value_sources(ev, val) if val is not None else []
                        ok = bool(srcs)
                        for v_ in srcs:
                            if not isinstance(v_, ast.Call):
                                ok = False
                                continue
                            callees = prog.resolve_call(v_, ev)
                            is_splitter = split in callees or (isinstance(v_.func, ast.Attribute) and v_.func.attr.startswith("split"))
                            arg_ok = len(v_.args) == 1 and u(v_.args[0]) in ("self._sql.strip()", "self._sql")
                            ok = ok and is_splitter and arg_ok
                        ctx.ob("R05.1", "stmt-list:assigned-by-splitter", ok, loc(f.mod, n), f"`{u(st)[:70]}`: the statement list is exactly what a splitter returns for the stripped input")
                    else:
                        ctx.ob("R05.1", f"stmt-list:stored-elsewhere:{f.name}", False, loc(f.mod, n), f"`{u(st)[:70]}` re-assigns the statement list outside the evaluator")
                elif isinstance(par, ast.Attribute) and isinstance(prog.parent(par), ast.Call) and par.attr in MUTATORS:
                    ctx.ob("R05.1", f"stmt-list:mutated:{f.name}", False, loc(f.mod, n), f"`{u(prog.parent(par))[:70]}` mutates the statement list in place")
                elif isinstance(par, ast.Subscript) and isinstance(par.ctx, (ast.Store, ast.Del)):
                    ctx.ob("R05.1", f"stmt-list:mutated:{f.name}", False, loc(f.mod, n), f"`{u(st)[:70]}` mutates the statement list in place")
    ctx.floor("stores of the statement list", n_stores, 1)
    # one holder appended per iteration, unconditionally
    cfg = flow(prog, ev).cfg
    lnode = next(c for c in cfg.nodes.values() if c.kind == "for" and c.ast is L)
    appends = []
    for c in cfg.nodes.values():
        if c.kind == "stmt" and c.ast is not None and cfg.reach(lnode.id, c.id) and cfg.reach(c.id, lnode.id):
            for k in ast.walk(c.ast):
                if isinstance(k, ast.Call) and isinstance(k.func, ast.Attribute) and k.func.attr == "append" and isinstance(k.func.value, ast.Name):
                    appends.append((c.id, k))
    holder_appends = [(cid, k) for cid, k in appends if k.args and _bound_from_analyze(prog, ev, k.args[0])]
    ok_append = len(holder_appends) == 1
    if ok_append:
        cid, k = holder_appends[0]
        body_starts = [b for b in cfg.g.successors(lnode.id) if cfg.g[lnode.id][b].get("label") and cfg.g[lnode.id][b]["label"][1] is True]
        ok_append = not any(b != cid and cfg.reach(b, lnode.id, avoid=[cid]) for b in body_starts)
        hl = k.func.value.id
        # the list of holders becomes _stmt_holders and is passed whole to the assembler
        star = [n for n in prog.walk_fn(ev) if isinstance(n, ast.Starred)]
        def _is_holder_list(e: ast.AST) -> bool:
            if u(e) == hl or _alias_of(prog, ev, e, hl):
                return True
            if is_self_attr(e):  # self.<attr> assigned from the list (possibly through a result variable)
                for n_ in prog.walk_fn(ev):
                    if isinstance(n_, ast.Assign) and any(is_self_attr(t_, e.attr) for t_ in n_.targets):
                        if any(isinstance(v_, ast.Name) and v_.id == hl for v_ in prog.value_sources(ev, n_.value)) or any(isinstance(k_, ast.Name) and k_.id == hl for k_ in prog.influences(ev, n_.value)):
                            return True
            return False

        assembled = any(isinstance(prog.parent(s), ast.Call) and "of" == getattr(prog.parent(s).func, "attr", "") and _is_holder_list(s.value) for s in star)
        ctx.ob("R05.1", "all-holders-assembled-in-order", assembled, ev.loc(), "every statement holder, in order, is passed to SQLLineageHolder.of(...)")
    ctx.ob("R05.1", "one-holder-per-statement", ok_append, loc(ev.mod, L),
           "exactly one holder (the result of analyze) is appended on every non-raising path of an iteration, so holders and statements stay index-aligned")
    # statements() reports the same list
    rep = R.cls.methods.get("statements")
    if rep is None:
        raise AnalysisError("LineageRunner.statements not found")
    ctx.touched(rep)
    rets = [n for n in prog.walk_fn(rep) if isinstance(n, ast.Return) and n.value is not None]
    ok_rep = False
    if len(rets) == 1:
        v = rets[0].value
        if isinstance(v, ast.ListComp) and len(v.generators) == 1:
            g = v.generators[0]
            ok_rep = is_self_attr(g.iter, stmt_attr) and not g.ifs and (u(v.elt) == u(g.target) or (common.strips_comments(prog, rep, v.elt) and any(isinstance(x, ast.Name) and x.id == u(g.target) for x in ast.walk(v.elt))))
        elif is_self_attr(v, stmt_attr) or (isinstance(v, ast.Call) and u(v.func) == "list" and is_self_attr(v.args[0], stmt_attr)):
            ok_rep = True
    ctx.ob("R05.1", "reported-statements-are-the-analysed-list", ok_rep, rep.loc(), "statements() maps the statement list one-to-one (comment trimming only), without filter or reordering")

    # ---- R05.2 split() ----------------------------------------------------------------------
    # In normal form (continue guards as branches, accumulator loops as comprehensions, negations at the atoms) split() is
    #     return [piece.value for piece in sqlparse.parse(sql) if <keep condition>]
    # and the rule compares the keep condition, as a boolean function of three atoms, with the one the property states:
    #     keep  <=>  the piece has a first non-comment token  and not (that token is Punctuation and its text is ';')
    ctx.touched(split)
    rets = [n for n in prog.walk_fn(split) if isinstance(n, ast.Return) and n.value is not None]
    comps = [v for r_ in rets for v in prog.value_sources(split, r_.value) if isinstance(v, (ast.ListComp, ast.GeneratorExp))]
    if len(rets) != 1 or len(comps) != 1 or len(comps[0].generators) != 1:
        ctx.ob("R05.2", "split:one-pass-keep-or-drop", False, split.loc(),
               "split() does not return a list built by one pass over the parser's pieces in which each piece is kept or dropped as it is (normal form: one comprehension): "
               "pieces that are merged, re-joined or re-split no longer are the statements of the script")
        raise AnalysisError("split(): the returned list is not built by one pass over the parsed pieces (normal form: one comprehension)")
    comp = comps[0]
    g0 = comp.generators[0]
    piece = u(g0.target)
    it_srcs = prog.value_sources(split, g0.iter)
    ok_iter = len(it_srcs) == 1 and isinstance(it_srcs[0], ast.Call) and u(it_srcs[0].func) in ("sqlparse.parse", "parse") and len(it_srcs[0].args) == 1 and u(it_srcs[0].args[0]) == split.params()[0]
    ctx.ob("R05.2", "split:iterates-parser-pieces", ok_iter, loc(split.mod, comp), f"`for {piece} in {u(g0.iter)[:50]}`: pieces are the parser's statement boundaries of the whole input")
    unmodified = u(comp.elt) in (f"{piece}.value", f"str({piece})")
    ctx.ob("R05.2", "split:piece-appended-unmodified", unmodified, loc(split.mod, comp), f"`{u(comp.elt)}` keeps the piece's text unmodified")

    first_names: set[tuple[str, str]] = set()

    def atom_of(e: ast.AST, fn: Fn = None, pc: str = None):
        """-> (atom, polarity) or None.  Atoms: F (first non-comment token exists), P (its type is Punctuation), S (its text is ';').
        `fn` / `pc`: the function the expression stands in and its name for the piece (split itself, or a predicate it calls with the piece)."""
        fn = fn or split
        pc = pc or piece
        if isinstance(e, ast.NamedExpr):
            r_ = atom_of(e.value, fn, pc)
            if r_ == ("F", True):
                first_names.add((fn.qual, u(e.target)))
            return r_
        if isinstance(e, ast.Compare) and len(e.ops) == 1 and isinstance(e.ops[0], (ast.Is, ast.IsNot)) and isinstance(e.comparators[0], ast.Constant) and e.comparators[0].value is None:
            r_ = atom_of(e.left, fn, pc)
            return (r_[0], r_[1] == isinstance(e.ops[0], ast.IsNot)) if r_ and r_[0] == "F" else None
        if isinstance(e, ast.Call) and isinstance(e.func, ast.Attribute) and e.func.attr == "token_first" and u(e.func.value) == pc:
            kw = {k.arg: prog.try_fold(k.value, fn.mod, fn) for k in e.keywords}
            return ("F", True) if kw.get("skip_cm") is True else None
        if isinstance(e, ast.Name):
            srcs_ = [v for v in prog.value_sources(fn, e) if not (isinstance(v, ast.Name) and v.id == e.id)]
            if (fn.qual, e.id) in first_names or (len(srcs_) == 1 and atom_of(srcs_[0], fn, pc) == ("F", True)):
                first_names.add((fn.qual, e.id))
                return ("F", True)
            return None
        if isinstance(e, ast.Compare) and len(e.ops) == 1 and isinstance(e.ops[0], (ast.Eq, ast.NotEq, ast.Is, ast.IsNot)):
            pol = isinstance(e.ops[0], (ast.Eq, ast.Is))
            l_, r2 = e.left, e.comparators[0]
            for x, y in ((l_, r2), (r2, l_)):
                if isinstance(x, ast.Attribute) and isinstance(x.value, ast.Name) and atom_of(x.value, fn, pc) == ("F", True):
                    if x.attr == "ttype" and u(y).split(".")[-1] == "Punctuation":
                        return ("P", pol)
                    if x.attr in ("value", "normalized") and prog.try_fold(y, fn.mod, fn) == ";":
                        return ("S", pol)
        return None

    unknown: list[str] = []

    def run(stmts: list, val: dict, fn: Fn, pc: str, depth: int):
        """truth value a predicate function returns under the valuation (None: falls off the end of the block)"""
        for st in stmts:
            if isinstance(st, ast.Expr) and isinstance(st.value, ast.Constant):
                continue
            if isinstance(st, (ast.Assign, ast.AnnAssign)):
                continue  # locals are followed by value flow
            if isinstance(st, ast.If):
                r_ = run(st.body if ev(st.test, val, fn, pc, depth) else st.orelse, val, fn, pc, depth)
                if r_ is not None:
                    return r_
                continue
            if isinstance(st, ast.Return):
                if st.value is None or (isinstance(st.value, ast.Constant) and st.value.value is None):
                    return False
                if isinstance(st.value, ast.Constant) and isinstance(st.value.value, bool):
                    return st.value.value
                return ev(st.value, val, fn, pc, depth)
            unknown.append(u(st)[:60])
            return True
        return None

    def ev(e: ast.AST, val: dict, fn: Fn = None, pc: str = None, depth: int = 0) -> bool:
        fn = fn or split
        pc = pc or piece
        if isinstance(e, ast.BoolOp):
            rs = [ev(v, val, fn, pc, depth) for v in e.values]
            return all(rs) if isinstance(e.op, ast.And) else any(rs)
        if isinstance(e, ast.UnaryOp) and isinstance(e.op, ast.Not):
            return not ev(e.operand, val, fn, pc, depth)
        if isinstance(e, ast.Constant) and isinstance(e.value, bool):
            return e.value
        if isinstance(e, ast.Call) and isinstance(e.func, ast.Attribute) and e.func.attr == "match" and isinstance(e.func.value, ast.Name) and atom_of(e.func.value, fn, pc) == ("F", True) \
                and len(e.args) == 2 and u(e.args[0]).split(".")[-1] == "Punctuation" and prog.try_fold(e.args[1], fn.mod, fn) == ";":
            return val["P"] and val["S"]
        # a predicate of the package applied to the piece: its body decides
        if isinstance(e, ast.Call) and len(e.args) == 1 and not e.keywords and u(e.args[0]) == pc and depth < 3:
            cal = [c_ for c_ in prog.resolve_call(e, fn) if isinstance(c_, Fn)]
            if len(cal) == 1 and len([p_ for p_ in cal[0].params() if p_ not in ("self", "cls")]) == 1 and isinstance(cal[0].node, (ast.FunctionDef, ast.Lambda)):
                g_ = cal[0]
                ctx.touched(g_)
                gp = [p_ for p_ in g_.params() if p_ not in ("self", "cls")][0]
                if isinstance(g_.node, ast.Lambda):
                    return ev(g_.node.body, val, g_, gp, depth + 1)
                r_ = run(g_.node.body, val, g_, gp, depth + 1)
                return bool(r_)
        at = atom_of(e, fn, pc)
        if at is None:
            unknown.append(u(e)[:60])
            return True
        return val[at[0]] == at[1]

    keep = ast.BoolOp(op=ast.And(), values=list(g0.ifs)) if g0.ifs else ast.Constant(value=True)
    wrong = []
    for F_ in (True, False):
        for P_ in (True, False):
            for S_ in (True, False):
                if not F_ and (P_ or S_):
                    continue  # no token: nothing to ask about its type / text
                got = ev(keep, {"F": F_, "P": P_, "S": S_}) if g0.ifs else True
                want = F_ and not (P_ and S_)
                if got != want:
                    wrong.append(f"first token {'present' if F_ else 'absent'}, punctuation={P_}, text-is-semicolon={S_}: kept={got}, must be {want}")
    ctx.ob("R05.2", "split:keep-drop-decided-by-the-two-stated-reasons", not wrong and not unknown, loc(split.mod, comp),
           "a piece is dropped exactly when it has no non-comment token or its first non-comment token is the `;` punctuation"
           + (f"; the condition also depends on `{unknown[0]}`" if unknown else "") + (f"; {wrong[0]}" if wrong else ""))
    ctx.ob("R05.2", "split:returns-the-kept-list", True, split.loc(), "split() returns the list of kept pieces, in order", trivial=True)

    # ---- R05.4 T-SQL splitter ---------------------------------------------------------------
    stsql = next((f for f in prog.funcs.values() if f.name == "split_tsql" and f.cls is not None), None)
    if stsql is None:
        raise AnalysisError("split_tsql not found")
    ctx.touched(stsql)
    rets = [n for n in prog.walk_fn(stsql) if isinstance(n, ast.Return) and n.value is not None]
    ok_t = False
    why = "unknown shape"
    if len(rets) == 1 and isinstance(rets[0].value, ast.Name):
        rname = rets[0].value.id
        # every statement that adds to the returned list
        apps = [k for k in prog.walk_fn(stsql) if isinstance(k, ast.Call) and isinstance(k.func, ast.Attribute) and k.func.attr in ("append", "extend", "insert") and isinstance(k.func.value, ast.Name) and k.func.value.id == rname]
        other_defs = [kind for kind, node in prog.local_defs(stsql, rname) if not (kind == "assign" and isinstance(node.value, ast.List) and not node.value.elts)]
        tcfg = flow(prog, stsql).cfg
        psql = stsql.params()[1]

        def from_parse_of_input(e: ast.AST) -> bool:
            """the iterated list derives from parsing the whole input text"""
            for k in prog.influences(stsql, e):
                if isinstance(k, ast.Call) and isinstance(k.func, ast.Attribute) and k.func.attr == "parse_string" and k.args:
                    if any(isinstance(x, ast.Name) and x.id == psql for x in prog.value_sources(stsql, k.args[0])):
                        return True
            return False

        if other_defs:
            why = f"`{rname}` is re-bound ({other_defs})"
        elif len(apps) == 1 and apps[0].func.attr == "append":
            TL = next((a for a in prog.ancestors(apps[0]) if isinstance(a, ast.For)), None)
            if TL is None:
                why = "the entry is not added in a loop over the statement segments"
            else:
                seg = u(TL.target)
                lid = tcfg.node_for(TL)
                aid = tcfg.node_for(apps[0])
                starts = [b for b in tcfg.g.successors(lid) if tcfg.g[lid][b].get("label") and tcfg.g[lid][b]["label"][1] is True]
                uncond = not any(b != aid and tcfg.reach(b, lid, avoid=[aid]) for b in starts)
                text_ok = u(apps[0].args[0]) == f"{seg}.raw"
                iter_ok = from_parse_of_input(TL.iter)
                ok_t = uncond and text_ok and iter_ok
                why = "" if ok_t else f"append unconditional={uncond}, text={text_ok}, iterates all segments of the input={iter_ok}"
        elif len(apps) == 1 and apps[0].func.attr == "extend" and apps[0].args and isinstance(apps[0].args[0], (ast.ListComp, ast.GeneratorExp)):
            comp = apps[0].args[0]
            g0 = comp.generators[0]
            ok_t = len(comp.generators) == 1 and not g0.ifs and u(comp.elt) == f"{u(g0.target)}.raw" and from_parse_of_input(g0.iter)
            why = "" if ok_t else "the comprehension filters or transforms the statement segments"
        else:
            why = f"`{rname}` receives entries at {len(apps)} sites"
    elif rets:
        why = f"the returned value `{u(rets[0].value)[:50]}` is not a list built by one append per statement segment"
    ctx.ob("R05.4", "tsql-splitter:one-entry-per-segment-in-order", ok_t, stsql.loc(), "split_tsql returns one entry per statement segment (repeats included), in order" + (f" - {why}" if why else ""))

    # the splitter is chosen by the mode alone: in T-SQL no-semicolon mode the whole text goes to the parser-based splitter, whatever the
    # text looks like (a script mixing `;` and newline-separated statements has more than one `;`-piece and still needs it)
    R_ = common.runner(prog)
    evf = R_.evaluator
    from ..cfg import controlling_facts

    calls = [k for k in prog.walk_fn(evf) if isinstance(k, ast.Call) and isinstance(k.func, ast.Attribute) and k.func.attr == stsql.name]
    ctx.floor("calls of the T-SQL splitter in the evaluator", len(calls), 1)
    for k in calls:
        facts = set(flow(prog, evf).facts_for(k)) | set(controlling_facts(prog.parents, k))
        foreign = sorted(t for t, p in facts if not ("TSQL_NO_SEMICOLON" in t or "dialect" in t.lower()))
        mode = any("TSQL_NO_SEMICOLON" in t and p for t, p in facts) and any("tsql" in t and "dialect" in t.lower() and p for t, p in facts)
        ctx.ob("R05.4", "tsql-splitter:chosen-by-the-mode-alone", mode and not foreign, loc(evf.mod, k),
               "the parser-based splitter is used exactly when the no-semicolon mode is on and the dialect is tsql" + (f"; it also depends on `{foreign[0]}`" if foreign else ""))
        arg_ok = bool(k.args) and any(isinstance(x, ast.Attribute) and x.attr == "_sql" or isinstance(x, ast.Name) and x.id in evf.params() for x in prog.influences(evf, k.args[0]))
        ctx.ob("R05.4", "tsql-splitter:gets-the-whole-text", arg_ok, loc(evf.mod, k), f"`{u(k)[:60]}` splits the runner's whole input text")

    # ---- R05.3 independence -------------------------------------------------------------------
    bases = [prog.try_cls("extractors.base.BaseExtractor"), prog.try_cls("handlers.base.NextTokenBaseHandler"), prog.try_cls("handlers.base.CurrentTokenBaseHandler")]
    if any(b is None for b in bases):
        raise AnalysisError("extractor / handler base classes not found")
    per_query = set()
    for b in bases:
        per_query |= {k.qual for k in [b] + prog.subclasses(b)}
    n_ctor = 0
    for f in list(prog.funcs.values()):
        for n in prog.walk_fn(f):
            if not isinstance(n, ast.Call):
                continue
            t = prog.infer(n, f)
            if not any(a.kind == "inst" and a.name in per_query for a in t.alts()):
                continue
            ft = prog.infer(n.func, f) if isinstance(n.func, (ast.Name, ast.Attribute, ast.IfExp)) else None
            if ft is None or not any(a.kind == "cls" for a in ft.alts()):
                continue
            n_ctor += 1
            st = prog.enclosing_stmt(n)
            escapes = None
            if isinstance(st, (ast.Assign, ast.AnnAssign, ast.AugAssign)):
                tgts = st.targets if isinstance(st, ast.Assign) else [st.target]
                for t_ in tgts:
                    if isinstance(t_, (ast.Attribute, ast.Subscript)):
                        root = t_
                        while isinstance(root, (ast.Attribute, ast.Subscript)):
                            root = root.value
                        if not (isinstance(root, ast.Name) and prog.local_defs(f, root.id) and root.id not in ("self", "cls")):
                            escapes = u(t_)
                    if isinstance(t_, ast.Name) and t_.id in {nm for g in prog.walk_fn(f) if isinstance(g, ast.Global) for nm in g.names}:
                        escapes = f"global {t_.id}"
            par = prog.parent(n)
            if isinstance(par, ast.Call) and isinstance(par.func, ast.Attribute) and par.func.attr in ("append", "add", "setdefault", "__setitem__") and n in par.args:
                recv = par.func.value
                if is_self_attr(recv) or (isinstance(recv, ast.Name) and not prog.local_defs(f, recv.id)):
                    escapes = u(recv)
            owner = f"{f.cls.name}.{f.name}" if f.cls else f.name
            ctx.ob("R05.3", f"per-query-object-not-stored:{owner}", escapes is None, loc(f.mod, n),
                   f"`{u(n)[:60]}` creates an object with per-query state: it must live in a local of the call that uses it" + (f" (stored into `{escapes}`)" if escapes else ""))
    ctx.floor("constructor sites of extractors / token handlers", n_ctor, 3)
    for m in prog.mods.values():
        for n in prog.import_time_nodes(m):
            if isinstance(n, ast.Call):
                t = prog.infer(n, None, mod=m)
                if any(a.kind == "inst" and a.name in per_query for a in t.alts()):
                    ctx.ob("R05.3", f"per-query-object-at-import:{m.name}", False, loc(m, n), f"`{u(n)[:60]}` creates an extractor/handler at import time: it would be shared by all statements")
    # analyzer fields: only the splitter writes the cache; analyze() writes nothing on self
    for an in [c for c in prog.classes.values() if "LineageAnalyzer" in c.name and c.name != "LineageAnalyzer"]:
        for m in an.methods.values():
            if m.name in ("__init__",):
                continue
            for n in prog.walk_fn(m):
                store = None
                if isinstance(n, (ast.Attribute, ast.Subscript)) and isinstance(n.ctx, (ast.Store, ast.Del)):
                    root = n
                    while isinstance(root, (ast.Attribute, ast.Subscript)):
                        root = root.value
                    if isinstance(root, ast.Name) and root.id in ("self", "cls"):
                        store = n
                elif isinstance(n, ast.Call) and isinstance(n.func, ast.Attribute) and n.func.attr in MUTATORS and is_self_attr(n.func.value):
                    store = n
                if store is None:
                    continue
                ok = m is stsql
                ctx.ob("R05.3", f"analyzer-state:{an.name}.{m.name}", ok, loc(m.mod, store),
                       f"`{u(prog.enclosing_stmt(store))[:60]}`: the analyzer lives across statements; only the T-SQL splitter may write its cache"
                       + ("" if ok else " (state written while analysing a statement is carried into the next one)"))
    # session metadata inert without a provider: reuse R13.2's truthiness gating
    common.import_rules(ctx, "C13", {"R13.2": "R05.3"}, key_filter=lambda o: o.key.startswith("lookup-gated-by-truthiness"),
                        key_map=lambda o: "session-metadata-inert-without-provider:" + o.key.split(":", 1)[1])
    # R05.5 (= R10.11 on the evaluation routine): the statement list, the per-statement results and the combined result are assigned on every
    # path of a run - a branch that falls through without splitting leaves the list of the constructor (empty) and nothing is analysed
    ev_owner = common.runner(prog).evaluator.owner
    common.import_rules(ctx, "C10", {"R10.11": "R05.5"}, key_filter=lambda o: f":{ev_owner}:" in o.key)

    # R05.6 (= R03.2, accumulator): combining the statements never edits a statement's own result
    common.import_rules(ctx, "C03", {"R03.2": "R05.6"}, key_filter=lambda o: o.key.startswith(("fold:accumulator", "fold:compose-first")))


def _bound_from_analyze(prog: Prog, fn: Fn, e: ast.AST) -> bool:
    if isinstance(e, ast.Call):
        return isinstance(e.func, ast.Attribute) and e.func.attr == "analyze"
    if isinstance(e, ast.Name):
        defs = prog.local_defs(fn, e.id)
        return bool(defs) and all(kind == "assign" and isinstance(node.value, ast.Call) and isinstance(node.value.func, ast.Attribute) and node.value.func.attr == "analyze" for kind, node in defs)
    return False


def _alias_of(prog: Prog, fn: Fn, e: ast.AST, name: str) -> bool:
    """`self._stmt_holders` assigned from the local list `name`."""
    if is_self_attr(e):
        for n in prog.walk_fn(fn):
            if isinstance(n, ast.Assign) and any(is_self_attr(t, e.attr) for t in n.targets) and isinstance(n.value, ast.Name) and n.value.id == name:
                return True
    return False
