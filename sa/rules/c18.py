"""C18 - the graph export is faithful to the lineage graph (DESIGN.md C18, rules R18.1-R18.4)."""

from __future__ import annotations

import ast
from typing import Optional

from ..astutil import is_self_attr, u
from ..identity import identities
from ..model import AnalysisError, Cls, Fn, Prog, loc
from ..report import Ctx
from . import common

EXPLANATION = (
    "Static analysis of the serialiser (sqllineage/io.py), the level selection and sub-graph views (runner.py, core/holders.py) and "
    "the text summary. Decides: R18.1 referential integrity by construction - node ids and edge endpoints are the same function of a "
    "graph node (str), nodes come from graph.nodes and edges from graph.edges of the same graph object with no filter on either side; "
    "at column level the `parent` reference of a node and the id of the emitted compound parent are the same projection of the same "
    "dictionary entry, built from all nodes without filter; R18.2 ids are unique iff the printed name determines node identity (identity "
    "rule I3 of DESIGN.md section 4, per exported class); R18.3 level selection: column level exports the column sub-graph with compound "
    "parents, otherwise the dataset sub-graph, both node-induced by an isinstance filter (no edge filter, so isolated nodes and all edges "
    "among kept nodes are exported); R18.4 the text summary reads the runner's sorted accessors, each `sorted(<set>, key=str)`. "
    "R18.5 the export is recomputed from this runner's own graph on every call: no memo, no class-level store (= R11.3). Does not decide: that the graph itself is right (C01-C06)."
    ' R18.2 also requires, for the classes whose objects are exported nodes, that equal objects print the same (identity compares the printed name or exactly the plain fields it prints). R18.7 (= R03.1 / R03.2) the tags behind the summary describe the exported graph.'
    " R18.1 the graph given is the graph serialised (the parameter is not re-bound to a copy); R18.8 (= R17.4) the /lineage response is built from the request's own locals."
)
RULE_TEXT = "one obligation per comprehension of the serialiser, per exported class (I3), per sub-graph view and per summary section"


def canon_str_of(e: ast.AST) -> Optional[str]:
    """str(x) / f"{x}" / x.__str__() / "%s" % x  ->  text of x."""
    if isinstance(e, ast.Call) and isinstance(e.func, ast.Name) and e.func.id == "str" and len(e.args) == 1:
        return u(e.args[0])
    if isinstance(e, ast.JoinedStr) and len(e.values) == 1 and isinstance(e.values[0], ast.FormattedValue) and e.values[0].conversion in (-1, 115) and e.values[0].format_spec is None:
        return u(e.values[0].value)
    if isinstance(e, ast.Call) and isinstance(e.func, ast.Attribute) and e.func.attr == "__str__" and not e.args:
        return u(e.func.value)
    if isinstance(e, ast.BinOp) and isinstance(e.op, ast.Mod) and isinstance(e.left, ast.Constant) and e.left.value == "%s":
        return u(e.right)
    return None


def data_dict(elt: ast.AST) -> Optional[dict[str, ast.AST]]:
    """{"data": {k: v, ...}} -> {k: v}."""
    if isinstance(elt, ast.Dict) and len(elt.keys) == 1 and isinstance(elt.keys[0], ast.Constant) and elt.keys[0].value == "data" and isinstance(elt.values[0], ast.Dict):
        d = elt.values[0]
        out = {}
        for k, v in zip(d.keys, d.values):
            if isinstance(k, ast.Constant) and isinstance(k.value, str):
                out[k.value] = v
        return out
    return None


def rules(ctx: Ctx) -> None:
    prog = ctx.prog
    R = common.runner(prog)
    # the serialiser: function of sqllineage.io called by the runner's export method
    ser = None
    export = None
    for m in R.cls.methods.values():
        for n in prog.walk_fn(m):
            if isinstance(n, ast.Call):
                for cal in prog.resolve_call(n, m):
                    if isinstance(cal, Fn) and cal.mod.name == "sqllineage.io":
                        ser, export = cal, m
    if ser is None:
        raise AnalysisError("serialiser (function of sqllineage.io called by the runner) not found")
    ctx.touched(ser, export)
    gparam = ser.params()[0]
    ctx.extra["anchors"] = {"serialiser": ser.qual, "export_method": export.qual}

    # ---- R18.1 ----------------------------------------------------------------------------
    comps = [n for n in prog.walk_fn(ser) if isinstance(n, (ast.ListComp, ast.GeneratorExp))]
    node_comps, edge_comps, parent_comps = [], [], []
    for c in comps:
        d = data_dict(c.elt)
        if d is None:
            continue
        if "source" in d and "target" in d:
            edge_comps.append((c, d))
        elif "id" in d and "parent" in d:
            node_comps.append((c, d, True))
        elif "id" in d:
            # plain nodes or emitted parents
            it = u(c.generators[0].iter)
            if it.startswith(f"{gparam}."):
                node_comps.append((c, d, False))
            else:
                parent_comps.append((c, d))
    # the graph that is serialised is the graph that was handed in: re-bound to a re-ordered / cleaned-up copy, "its" nodes and edges are the copy's
    rebinds = [node for kind, node in prog.local_defs(ser, gparam)]
    ctx.ob("R18.1", "graph:the-graph-given-is-the-graph-serialised", not rebinds, loc(ser.mod, rebinds[0]) if rebinds else ser.loc(),
           f"`{u(rebinds[0])[:70]}` re-binds `{gparam}` before it is serialised: nodes and edges are then those of another graph object (a copy that lost self-loops, attributes or nodes exports a different lineage)"
           if rebinds else f"`{gparam}` is serialised as given")
    ctx.floor("node comprehensions in the serialiser", len(node_comps), 1)
    ctx.floor("edge comprehensions in the serialiser", len(edge_comps), 1)
    id_proj = None
    for c, d, compound in node_comps:
        g = c.generators[0]
        where = loc(ser.mod, c)
        kind = "compound" if compound else "plain"
        ok_iter = len(c.generators) == 1 and u(g.iter) == f"{gparam}.nodes" and not g.ifs
        ctx.ob("R18.1", f"nodes:{kind}:all-nodes-no-filter", ok_iter, where, f"`for {u(g.target)} in {u(g.iter)}`: every node of the graph is exported, without filter")
        cs = canon_str_of(d["id"])
        ok_id = cs is not None and cs == u(g.target)
        ctx.ob("R18.1", f"nodes:{kind}:id-is-str-of-node", ok_id, where, f"id = `{u(d['id'])}` must be the printed name of the node itself")
        id_proj = "str"
    for c, d in edge_comps:
        where = loc(ser.mod, c)
        g = c.generators[0]
        it = g.iter
        # enumerate(graph.edges) or graph.edges
        inner = it.args[0] if isinstance(it, ast.Call) and isinstance(it.func, ast.Name) and it.func.id == "enumerate" and it.args else it
        ok_iter = len(c.generators) == 1 and u(inner) in (f"{gparam}.edges", f"{gparam}.edges()") and not g.ifs
        ctx.ob("R18.1", "edges:all-edges-of-the-same-graph", ok_iter, where, f"`{u(it)}`: edges come from the same graph object as the nodes, without filter")
        tgt = g.target
        # the loop target that stands for the edge: `e`, `(i, e)`, `(s, t)` or `(i, (s, t))`
        etgt = tgt.elts[1] if inner is not it and isinstance(tgt, ast.Tuple) and len(tgt.elts) == 2 else (tgt if inner is it else None)
        if isinstance(etgt, ast.Name):
            ends = {0: f"{etgt.id}[0]", 1: f"{etgt.id}[1]"}
        elif isinstance(etgt, (ast.Tuple, ast.List)) and len(etgt.elts) == 2 and all(isinstance(e_, ast.Name) for e_ in etgt.elts):
            ends = {0: etgt.elts[0].id, 1: etgt.elts[1].id}
        else:
            ends = {}
        for end, idx in (("source", 0), ("target", 1)):
            cs = canon_str_of(d[end])
            ok = cs is not None and cs == ends.get(idx)
            ctx.ob("R18.1", f"edges:{end}-is-str-of-endpoint", ok, where, f"{end} = `{u(d[end])}` must be the printed name of edge endpoint {idx} (same projection as node ids)")
    # compound parents
    pd_defs = [(k, n) for k, n in prog.local_defs(ser, "parents_dict")] if prog.local_defs(ser, "parents_dict") else []
    dict_comps = [n for n in prog.walk_fn(ser) if isinstance(n, ast.DictComp)]
    compound_nodes = [x for x in node_comps if x[2]]
    ctx.ob("R18.1", "nodes:compound:present", bool(compound_nodes) or not any(a_ == "compound" for a_ in ser.params()), ser.loc(),
           "the compound export lists every node with its parent reference in one pass over the graph's nodes", trivial=bool(compound_nodes))
    if compound_nodes:
        c, d, _ = compound_nodes[0]
        where = loc(ser.mod, c)
        pref = d["parent"]
        # parent reference: <dict>[K(node)]["name"]
        ok_shape = isinstance(pref, ast.Subscript) and isinstance(pref.value, ast.Subscript) and isinstance(pref.value.value, ast.Name)
        get_shape = (isinstance(pref, ast.Subscript) and isinstance(pref.value, ast.Call) and isinstance(pref.value.func, ast.Attribute) and pref.value.func.attr == "get"
                     and isinstance(pref.value.func.value, ast.Name) and pref.value.args)
        if ok_shape:
            dname, kexpr, field_ = pref.value.value.id, u(pref.value.slice), prog.try_fold(pref.slice, ser.mod, ser)
        elif get_shape:
            dname, kexpr, field_ = pref.value.func.value.id, u(pref.value.args[0]), prog.try_fold(pref.slice, ser.mod, ser)
        else:
            ctx.ob("R18.1", "parents:reference-is-the-dictionary-entry", False, where,
                   f"the parent reference `{u(pref)[:70]}` is not a look-up of the compound-parent dictionary: a parent named this way need not be among the emitted parents "
                   f"(owners that compare equal share one entry but may print differently)")
            dname = None
        dc = next((x for x in dict_comps if any(isinstance(t, ast.Name) and t.id == dname for st in [prog.enclosing_stmt(x)] if isinstance(st, ast.Assign) for t in st.targets)), None)
        if dname is None:
            dc = False
        if dc is None:
            # the same dictionary written as a loop: `for n in graph.nodes: ... d[K(n)] = {...}` with a store on every path of the body
            from ..cfg import flow as _flow18

            scfg = _flow18(prog, ser).cfg
            loops_ = [L_ for L_ in prog.walk_fn(ser) if isinstance(L_, ast.For) and u(L_.iter) == f"{gparam}.nodes"
                      and any(isinstance(k_, ast.Subscript) and isinstance(k_.ctx, ast.Store) and isinstance(k_.value, ast.Name) and k_.value.id == dname for k_ in ast.walk(L_))]
            if len(loops_) != 1:
                raise AnalysisError(f"R18.1: dictionary `{dname}` of compound parents is built neither by a dict comprehension nor by one loop over the graph's nodes")
            L_ = loops_[0]
            stores_ = [k_ for k_ in ast.walk(L_) if isinstance(k_, ast.Subscript) and isinstance(k_.ctx, ast.Store) and isinstance(k_.value, ast.Name) and k_.value.id == dname]
            hdr = scfg.node_for(L_)
            snodes = [scfg.node_for(k_) for k_ in stores_]
            starts = [b_ for b_ in scfg.g.successors(hdr) if scfg.g[hdr][b_].get("label") and scfg.g[hdr][b_]["label"][1] is True]
            every_path = all(x is not None for x in snodes) and not any((b_ not in snodes) and scfg.reach(b_, hdr, avoid=snodes) for b_ in starts)
            ctx.ob("R18.1", "parents:built-from-all-nodes-no-filter", every_path, loc(ser.mod, L_),
                   f"`for {u(L_.target)} in {u(L_.iter)}`: every node contributes its parent entry on every path of the loop body (a node that is skipped leaves a dangling parent reference)")
            lv = u(L_.target)

            def _key_text(k_: ast.Subscript) -> str:
                e_ = k_.slice
                if isinstance(e_, ast.Name):
                    srcs_ = [v_ for v_ in prog.value_sources(ser, e_) if not (isinstance(v_, ast.Name) and v_.id == e_.id)]
                    if len(srcs_) == 1:
                        e_ = srcs_[0]
                return u(e_).replace(lv, "§")

            keys_ = {_key_text(k_) for k_ in stores_}
            nodevar = u(c.generators[0].target)
            ctx.ob("R18.1", "parents:reference-uses-the-dictionary-key", keys_ == {kexpr.replace(nodevar, "§")}, where,
                   f"the parent reference looks up `{kexpr}`, the dictionary is keyed by {sorted(keys_)}: same projection of the node")
            plain = not any(isinstance(x, ast.Call) and isinstance(x.func, ast.Attribute) and x.func.attr == "get" for x in ast.walk(pref)) and not isinstance(prog.parent(pref), (ast.IfExp, ast.BoolOp))
            ctx.ob("R18.1", "parents:reference-has-no-fallback", plain, where, "the parent reference is a plain look-up of the dictionary entry (no placeholder that is never emitted)")
            dc = False
        if dc is not False:
            g = dc.generators[0]
            nodevar = u(c.generators[0].target)
            ok_dict = len(dc.generators) == 1 and u(g.iter) == f"{gparam}.nodes" and not g.ifs
            ctx.ob("R18.1", "parents:built-from-all-nodes-no-filter", ok_dict, loc(ser.mod, dc),
                   f"`for {u(g.target)} in {u(g.iter)}" + (f" if {u(g.ifs[0])}" if g.ifs else "") + "`: every node contributes its parent entry (a filter leaves dangling parent references)")
            same_key = u(dc.key).replace(u(g.target), "§") == kexpr.replace(nodevar, "§")
            ctx.ob("R18.1", "parents:reference-uses-the-dictionary-key", same_key, where,
                   f"the parent reference looks up `{kexpr}`, the dictionary is keyed by `{u(dc.key)}`: same projection of the node")
            # the reference must be a plain look-up (no fallback / default)
            plain = not any(isinstance(x, ast.Call) and isinstance(x.func, ast.Attribute) and x.func.attr == "get" for x in ast.walk(pref)) and not isinstance(prog.parent(pref), (ast.IfExp, ast.BoolOp))
            ctx.ob("R18.1", "parents:reference-has-no-fallback", plain, where, "the parent reference is a plain look-up of the dictionary entry (no placeholder that is never emitted)")
        if dname is not None:
            # emitted parent nodes: id = entry[field], all entries
            emitted = [(pc, pdct) for pc, pdct in parent_comps if dname in u(pc.generators[0].iter)]
            ctx.ob("R18.1", "parents:emitted", len(emitted) == 1, where, "the compound parents are emitted as nodes")
            for pc, pdct in emitted:
                pg = pc.generators[0]
                idv = pdct["id"]
                same_field = isinstance(idv, ast.Subscript) and prog.try_fold(idv.slice, ser.mod, ser) == field_
                ctx.ob("R18.1", "parents:id-is-the-referenced-field", same_field and not pg.ifs, loc(ser.mod, pc),
                       f"emitted parent id `{u(idv)}` and the nodes' parent reference are the same field {field_!r} of the same entry, for every entry")
    # nodes and edges are both returned
    rets = [n for n in prog.walk_fn(ser) if isinstance(n, ast.Return) and n.value is not None]
    def _holder_names(comp_nodes):
        out = set()
        for c in comp_nodes:
            st = prog.enclosing_stmt(c)
            if isinstance(st, (ast.Assign, ast.AnnAssign, ast.AugAssign)):
                tg = st.targets if isinstance(st, ast.Assign) else [st.target]
                out |= {t.id for t in tg if isinstance(t, ast.Name)}
        return out

    node_names = _holder_names([c for c, _, _ in node_comps])
    edge_names = _holder_names([c for c, _ in edge_comps])
    # the returned value is computed from the node lists and the edge list (whether or not they were given names first)
    infl_of = [{id(k) for k in prog.influences(ser, r_.value)} for r_ in rets]
    infl = set().union(*infl_of) if infl_of else set()
    def _pure_concat(e: ast.AST, depth: int = 0) -> bool:
        """the value is the node / edge lists themselves, concatenated - nothing is selected, merged or re-keyed on the way out"""
        if depth > 6:
            return False
        if isinstance(e, ast.BinOp) and isinstance(e.op, ast.Add):
            return _pure_concat(e.left, depth + 1) and _pure_concat(e.right, depth + 1)
        if isinstance(e, (ast.ListComp, ast.List)):
            return True
        if isinstance(e, ast.Name):
            srcs_ = [v for v in prog.value_sources(ser, e) if not (isinstance(v, ast.Name) and v.id == e.id)]
            return bool(srcs_) and all(_pure_concat(v, depth + 1) for v in srcs_)
        return False

    # (one return, or one per branch of the compound switch: each hands out node lists and an edge list, and every list built is handed out)
    ok_ret = bool(rets) and all(id(c) in infl for c, _, _ in node_comps) and all(id(c) in infl for c, _ in edge_comps) and all(
        _pure_concat(r_.value) and any(id(c) in i_ for c, _, _ in node_comps) and any(id(c) in i_ for c, _ in edge_comps) for r_, i_ in zip(rets, infl_of))
    ctx.ob("R18.1", "returns-nodes-and-edges", ok_ret, loc(ser.mod, rets[0]) if rets else ser.loc(), "the export is nodes + edges")
    # nodes list is only extended (never filtered / de-duplicated by dropping)
    for n in prog.walk_fn(ser):
        if isinstance(n, ast.Assign) and any(isinstance(t, ast.Name) and t.id in (node_names | edge_names) for t in n.targets) and not _pure_concat(n.value):
            ctx.ob("R18.1", "no-post-filtering", False, loc(ser.mod, n), f"`{u(n)[:70]}` rewrites the exported list after it was built")

    # ---- R18.2 identity rule I3 -------------------------------------------------------------
    ids = identities(prog)
    for name in ("Table", "Path", "SubQuery", "Column"):
        i = ids.get(name)
        if i is None:
            raise AnalysisError(f"model class {name} not found")
        ctx.touched(i.eq_fn, i.str_fn)
        missing = sorted(i.eq_fields - i.str_fields)
        ok = not missing
        msg = f"{name}: printed name (fields {sorted(i.str_fields)}) must determine identity (__eq__ compares fields {sorted(i.eq_fields)})"
        if name == "Column" and ok:
            # the owner is printed through its own name: injective only if the owner classes' names are
            owners_bad = [o for o in ("SubQuery",) if ids[o].eq_fields - ids[o].str_fields]
            if owners_bad or "parent" in i.lossy:
                ok = False
                msg += f"; the owner is printed by name and {owners_bad or ['parent']} does not print injectively / unresolved columns print without owner"
        ctx.ob("R18.2", f"id-injective:{name}", ok, i.cls.loc(), msg + (f" - not determined: {missing}" if missing else ""))
        if name in ("Table", "Path", "Column"):
            # the converse, for the classes whose objects are exported nodes: objects that compare equal are one node in the graph but each edge keeps
            # the object it was added with, so they must also print the same - identity compares the printed name itself, or exactly the plain
            # fields it prints (a coarser projection such as a stripped / lower-cased field makes an edge end print differently from its node)
            plain = {p_[5:] for p_ in i.eq_projs if p_.startswith("self.") and p_[5:].isidentifier() and prog.find_method(i.cls, p_[5:]) is None}
            same = "str(self)" in i.eq_projs or (i.str_fn is not None and i.str_fields <= plain)
            ctx.ob("R18.2", f"equal-objects-print-equally:{name}", same, i.cls.loc(),
                   f"{name}.__eq__ compares {i.eq_projs}; the printed name reads fields {sorted(i.str_fields)}: "
                   + ("equal objects print the same" if same else "two objects can compare equal and print differently - one node id, but edge ends / parent references under the other spelling"))

    # ---- R18.3 level selection and views ----------------------------------------------------
    H = prog.try_cls("core.holders.SQLLineageHolder")
    if H is None:
        raise AnalysisError("SQLLineageHolder not found")
    views = {}
    for pname, want in (("table_lineage_graph", {"Path", "Table"}), ("column_lineage_graph", {"Column"})):
        m = H.methods.get(pname)
        if m is None:
            raise AnalysisError(f"{pname} not found")
        ctx.touched(m)
        rets = [n for n in prog.walk_fn(m) if isinstance(n, ast.Return) and n.value is not None]
        ok = False
        why = ""
        if len(rets) == 1 and isinstance(rets[0].value, ast.Call) and isinstance(rets[0].value.func, ast.Attribute):
            call = rets[0].value
            if call.func.attr != "subgraph":
                why = f"`{u(call.func)}` is not a node-induced sub-graph (edges or isolated nodes can be lost)"
            elif u(call.func.value) != "self.graph":
                why = f"view taken on `{u(call.func.value)}`, not on the holder's graph"
            else:
                arg = call.args[0]
                comp = arg
                if isinstance(arg, ast.Name):
                    dd = [n for k, n in prog.local_defs(m, arg.id) if k == "assign"]
                    comp = dd[0].value if len(dd) == 1 else None
                if isinstance(comp, (ast.ListComp, ast.SetComp, ast.GeneratorExp)) and len(comp.generators) == 1:
                    g = comp.generators[0]
                    from .c03 import _class_names
                    flt = [c for c in g.ifs]
                    if u(g.iter) in ("self.graph.nodes", "self.graph.nodes()", "self.graph") and len(flt) == 1 and isinstance(flt[0], ast.Call) and u(flt[0].func) == "isinstance" and u(comp.elt) == u(g.target):
                        classes = _class_names(prog, flt[0].args[1], m)
                        ok = classes == want
                        why = "" if ok else f"keeps {sorted(classes)}, expected {sorted(want)}"
                    else:
                        why = "node selection is not a plain isinstance filter over all nodes"
                else:
                    why = "node selection has an unknown shape"
        ctx.ob("R18.3", f"view:{pname}", ok, m.loc(), f"{pname} is the sub-graph induced by all nodes of class {sorted(want)}" + (f" - {why}" if why else ""))
    # level selection in the export method
    sel_ok = False
    calls = [n for n in prog.walk_fn(export) if isinstance(n, ast.Call) and ser in prog.resolve_call(n, export)]
    col_calls = [c for c in calls if c.args and u(c.args[0]).endswith("column_lineage_graph")]
    tab_calls = [c for c in calls if c.args and u(c.args[0]).endswith("table_lineage_graph")]
    from ..cfg import flow
    fl = flow(prog, export)
    col_ok = bool(col_calls) and all(any(kw.arg == "compound" and isinstance(kw.value, ast.Constant) and kw.value.value is True for kw in c.keywords) or (len(c.args) > 1 and isinstance(c.args[1], ast.Constant) and c.args[1].value is True) for c in col_calls)
    col_guard = bool(col_calls) and all(any(("COLUMN" in t or "'column'" in t) and p for t, p in fl.facts_for(c)) for c in col_calls)
    tab_guard = bool(tab_calls) and all(any(("COLUMN" in t or "'column'" in t) and not p for t, p in fl.facts_for(c)) or not any("COLUMN" in t for t, p in fl.facts_for(c)) for c in tab_calls)
    ctx.ob("R18.3", "level:column-exports-column-graph-with-compound-parents", col_ok and col_guard, export.loc(),
           "for the column level the column sub-graph is exported with compound parents")
    ctx.ob("R18.3", "level:otherwise-dataset-graph", tab_guard and all(not c.keywords and len(c.args) == 1 for c in tab_calls), export.loc(),
           "otherwise the dataset sub-graph is exported")

    # ---- R18.4 text summary -------------------------------------------------------------------
    summ = R.cls.methods.get("__str__")
    if summ is None:
        raise AnalysisError("LineageRunner.__str__ not found")
    ctx.touched(summ)
    roles = ("source_tables", "target_tables", "intermediate_tables")
    for role in roles:
        direct = [n for n in prog.walk_fn(summ) if isinstance(n, ast.Attribute) and n.attr == role and not (isinstance(n.value, ast.Name) and n.value.id == "self")]
        uses = [n for n in prog.walk_fn(summ) if isinstance(n, ast.Attribute) and n.attr == role and isinstance(n.value, ast.Name) and n.value.id == "self"]
        ctx.ob("R18.4", f"summary:{role}:reads-sorted-accessor", bool(uses) and not direct, summ.loc() if not direct else loc(summ.mod, direct[0]),
               f"the summary lists {role} through the runner's sorted accessor" + (f" (reads `{u(direct[0])}` directly: set order)" if direct else ""))
        acc = R.cls.methods.get(role)
        if acc is None:
            raise AnalysisError(f"runner accessor {role} not found")
        ctx.touched(acc)
        rets = [n for n in prog.walk_fn(acc) if isinstance(n, ast.Return) and n.value is not None]
        ok = False
        rv = prog.value_sources(acc, rets[0].value) if len(rets) == 1 else []
        if len(rv) == 1 and isinstance(rv[0], ast.Call) and isinstance(rv[0].func, ast.Name) and rv[0].func.id == "sorted":
            call = rv[0]
            src_ok = call.args and u(call.args[0]).endswith(f".{role}")
            key = next((k.value for k in call.keywords if k.arg == "key"), None)
            key_ok = key is not None and (isinstance(key, ast.Lambda) and canon_str_of(key.body) == key.args.args[0].arg or u(key) == "str")
            rev = any(k.arg == "reverse" for k in call.keywords)
            ok = bool(src_ok and key_ok and not rev)
        ctx.ob("R18.4", f"accessor:{role}:sorted-by-printed-name", ok, acc.loc(),
               f"{role} returns sorted(<holder set>, key=str): each table once (set), in sorted order, by a key that determines Table identity")

    # ---- R18.5 the export is computed from this runner's graph on every call (= R11.3: accessors are pure, nothing memoised) ---------
    common.import_rules(ctx, "C11", {"R11.3": "R18.5", "R11.2": "R18.6"})  # R18.6: accessors evaluate first and hand out fresh values (= R11.2)

    # ---- R18.7 (= R03.1 / R03.2): the tables the summary lists are computed from the exported graph's degrees plus three tags - the tags must
    # describe that graph (a tag that outlives the self loop it stood for lists a table under roles the exported edges do not show)
    from .common import import_rules as _imp18

    # ---- R18.8 (= R17.4): the POST /lineage response is built from the request's own runner - kept on the shared application object, a concurrent
    # request's graph is exported instead
    _imp18(ctx, "C17", {"R17.4": "R18.8"})

    _imp18(ctx, "C03", {"R03.1": "R18.7", "R03.2": "R18.7"})
