"""C08 - lineage is invariant under renaming of statement-local names (DESIGN.md C08, rules R08.1-R08.5)."""

from __future__ import annotations

import ast
from dataclasses import replace

from ..astutil import controlling_atoms, u
from ..cfg import flow
from ..identity import identities
from ..model import AnalysisError, Fn, Prog, loc
from ..normform import N1, N2, RAW, NormForm
from ..report import Ctx
from . import scope

EXPLANATION = (
    "Static analysis of how statement-local names (table aliases, derived-table aliases, CTE names) are resolved; the property itself is a "
    "relation between two runs and is not decidable statically - these are its structural necessary conditions. Decides: R08.1 the scope "
    "map offers alias / bare / qualified keys and an alias must shadow a bare table name (= R02.2; merge priority and implicit alias are "
    "known findings); R08.2 look-ups of statement-local names compare like with like: the key of every look-up in a dictionary keyed by "
    "normalised aliases is itself normalised exactly once (normal-form analysis), otherwise the answer depends on the spelling chosen for "
    "the name; R08.3 whether a name may denote a CTE is decided on the SQL text (absence of a dot), never on the table object's schema "
    "(which a configured default makes non-empty); R08.4 sub-query identity is its text and Column identity includes the owner object, so "
    "that re-using an alias for another derived table does not merge their columns; R08.5 reading a table leaves the same trace in the "
    "graph whether or not it carries an alias (the DROP guard relies on it), so adding or removing an alias cannot change what a later "
    "DROP removes. Does not decide: clashes between derived tables sharing an alias in sibling scopes beyond identity (reported under C18)."
)
RULE_TEXT = "one obligation per alias-keyed dictionary look-up, per CTE look-up guard, per identity clause, per read-trace site"


def rules(ctx: Ctx) -> None:
    prog = ctx.prog
    # ---- R08.1 -------------------------------------------------------------------------------
    scope.scope_map_rules(ctx, "R08.1")
    scope.alias_precedence_rules(ctx, "R08.1")

    # ---- R08.2 / R08.3 CTE look-ups ------------------------------------------------------------
    nf = NormForm(prog)
    n_lookups = 0
    for f in prog.funcs.values():
        dicts = {}
        for n in prog.walk_fn(f):
            if isinstance(n, ast.Assign) and isinstance(n.value, ast.DictComp) and u(n.value.key).endswith(".alias") and len(n.targets) == 1 and isinstance(n.targets[0], ast.Name):
                dicts[n.targets[0].id] = n.value
        inline = [n for n in prog.walk_fn(f) if isinstance(n, ast.Call) and isinstance(n.func, ast.Attribute) and n.func.attr == "get" and isinstance(n.func.value, ast.DictComp) and u(n.func.value.key).endswith(".alias")]
        if not dicts and not inline:
            continue
        ctx.touched(f)
        fl = flow(prog, f)
        owner = f"{f.cls.name}.{f.name}" if f.cls else f.name
        # every CTE in scope is a candidate: the dictionary is built from all of them (a WITH RECURSIVE body refers to the CTE being defined)
        for dc in list(dicts.values()) + [n.func.value for n in inline]:
            filt = [c for g_ in dc.generators for c in g_.ifs]
            ctx.ob("R08.3", f"cte-dictionary-holds-every-cte-in-scope:{owner}", not filt, loc(f.mod, dc),
                   f"`{u(dc)[:70]}`: a filter removes CTE names from resolution, and the removed name is then read as a real table" + (f" (filter `{u(filt[0])}`)" if filt else ""))
        for n in prog.walk_fn(f):
            key = None
            if isinstance(n, ast.Call) and isinstance(n.func, ast.Attribute) and n.func.attr == "get" and isinstance(n.func.value, ast.Name) and n.func.value.id in dicts and n.args:
                key = n.args[0]
            elif n in inline and n.args:
                key = n.args[0]
            elif isinstance(n, ast.Subscript) and isinstance(n.value, ast.Name) and n.value.id in dicts and isinstance(n.ctx, ast.Load):
                key = n.slice
            if key is None:
                continue
            n_lookups += 1
            st = nf.state(key, f)
            ok = st <= {N1} and bool(st)
            ctx.ob("R08.2", f"alias-lookup-key-normalised-once:{owner}", ok, loc(f.mod, n),
                   f"`{u(n)[:70]}`: the dictionary is keyed by normalised aliases (N1); the look-up key is {sorted(st)} - a raw or twice-normalised key makes the match depend on the name's spelling")
            # R08.3 dot test on the SQL text
            atoms = [u(a) for a in controlling_atoms(prog.parents, n)]
            dot_text = any("'.'" in a and (".raw" in a or ".value" in a) for a in atoms)
            schema_based = [a for a in atoms if "schema" in a]
            ctx.ob("R08.3", f"cte-candidates-decided-on-the-text:{owner}", dot_text and not schema_based, loc(f.mod, n),
                   "only an undotted identifier may denote a CTE; the test must look at the raw text ('.' not in <raw>), " + (f"not at `{schema_based[0]}`" if schema_based else f"guards are {atoms[:3]}"))
    ctx.floor("look-ups in alias-keyed dictionaries", n_lookups, 2)
    # a CTE reference keeps the referencing alias or the CTE's own name
    # ---- R08.4 identity -------------------------------------------------------------------------
    ids = identities(prog)
    sq = ids["SubQuery"]
    ctx.ob("R08.4", "subquery-identity-is-its-text", sq.eq_fields == {"query_raw"}, sq.cls.loc(), f"SubQuery.__eq__ compares {sq.eq_projs}: identity does not depend on the alias chosen")
    col = ids["Column"]
    ctx.ob("R08.4", "column-identity-includes-the-owner-object", any(p in ("self.parent", "self._parent") for p in col.eq_projs), col.cls.loc(),
           f"Column.__eq__ compares {col.eq_projs}: the owner object must be compared, because two derived tables may share an alias (and thus a printed name)")
    # alias re-assignment after construction only in the CTE extractor (alias is not an identity field)
    ctx.ob("R08.4", "alias-is-not-an-identity-field", "alias" not in sq.eq_fields | sq.hash_fields, sq.cls.loc(), "re-labelling a sub-query (CTE naming) does not move a graph key")

    # ---- R08.5 read trace ----------------------------------------------------------------------------
    H = prog.cls("core.holders.SubQueryLineageHolder")
    ar = H.methods.get("add_read")
    if ar is None:
        raise AnalysisError("add_read not found")
    ctx.touched(ar)
    edges = [k for k in prog.walk_fn(ar) if isinstance(k, ast.Call) and isinstance(k.func, ast.Attribute) and k.func.attr == "add_edge"]
    # the READ member of the tag enumeration is handed to a call (the tagging helper, or - once the helper is absorbed - add_node itself)
    tagged = any(isinstance(k, ast.Call) and any(isinstance(x, ast.Attribute) and x.attr == "READ" for a_ in list(k.args) + [kw.value for kw in k.keywords] for x in ast.walk(a_))
                 for k in prog.walk_fn(ar))
    ctx.ob("R08.5", "read-is-tagged", tagged, ar.loc(), "every read dataset gets the READ tag", trivial=True)
    for e in edges:
        atoms = [u(a) for a in controlling_atoms(prog.parents, e)]
        foreign = [a for a in atoms if not a.startswith("hasattr(")]
        ctx.ob("R08.5", "read-trace-independent-of-the-alias-spelling", not foreign, loc(ar.mod, e),
               "whether reading a table leaves an incident edge must not depend on the alias it carries (DROP removes tables of degree 0: an un-aliased, read-only table would vanish "
               "while the aliased spelling survives)" + (f"; depends on `{foreign[0]}`" if foreign else ""))
    ctx.floor("alias edge sites in add_read", len(edges), 1)

    # ---- R08.5 an alias handed to a sub-query / table constructor is not already normalised (= R16.2): the constructor normalises again and a
    # quoted mixed-case CTE or alias name no longer equals the qualifier that refers to it
    from .common import import_rules as _imp8

    _imp8(ctx, "C16", {"R16.2": "R08.5"}, key_filter=lambda o: "(alias)" in o.key or "->alias" in o.key)
