"""C08 - lineage is invariant under renaming of statement-local names (DESIGN.md C08, rules R08.1-R08.5)."""

from __future__ import annotations

import ast
from dataclasses import replace
from typing import Optional

from ..astutil import controlling_atoms, u
from ..cfg import flow
from ..identity import identities
from ..model import AnalysisError, Fn, Prog, loc
from ..normform import N1, N2, RAW, NormForm
from ..report import Ctx
from . import scope

EXPLANATION = (
    "Static analysis of how statement-local names (table aliases, derived-table aliases, CTE names) are resolved; the property itself is a "
    "relation between two runs and is not decidable statically - these are its structural necessary conditions. Decides: R08.1 the scope "
    "map offers alias / bare / qualified keys and an alias must shadow a bare table name (= R02.2; merge priority and implicit alias are "
    "known findings); R08.2 look-ups of statement-local names compare like with like: the key of every look-up in a dictionary keyed by "
    "normalised aliases is itself normalised exactly once (normal-form analysis), otherwise the answer depends on the spelling chosen for "
    "the name; R08.3 whether a name may denote a CTE is decided on the SQL text (absence of a dot), never on the table object's schema "
    "(which a configured default makes non-empty); R08.4 sub-query identity is its text and Column identity includes the owner object, so "
    "that re-using an alias for another derived table does not merge their columns; R08.5 reading a table leaves the same trace in the "
    "graph whether or not it carries an alias (the DROP guard relies on it), so adding or removing an alias cannot change what a later "
    "DROP removes. Does not decide: clashes between derived tables sharing an alias in sibling scopes beyond identity (reported under C18)."
    ' R08.6 the alias name is never picked at a child position where the grammar of the installed dialects allows the alias operator, the column list or a keyword (first / last child types computed from the grammar, minus the types the code filters out). R08.2 also covers look-ups written as a scan over the CTE collection.'
    ' R08.7 whether a statement-local name is used or visible is never decided by searching SQL text for it.'
)
RULE_TEXT = "one obligation per alias-keyed dictionary look-up, per CTE look-up guard, per identity clause, per read-trace site"


def rules(ctx: Ctx) -> None:
    prog = ctx.prog
    # ---- R08.1 -------------------------------------------------------------------------------
    scope.scope_map_rules(ctx, "R08.1")
    scope.alias_precedence_rules(ctx, "R08.1")

    # ---- R08.2 / R08.3 CTE look-ups ------------------------------------------------------------
    nf = NormForm(prog)
    n_lookups = 0
    for f in prog.funcs.values():
        dicts = {}
        for n in prog.walk_fn(f):
            if isinstance(n, ast.Assign) and isinstance(n.value, ast.DictComp) and u(n.value.key).endswith(".alias") and len(n.targets) == 1 and isinstance(n.targets[0], ast.Name):
                dicts[n.targets[0].id] = n.value
        inline = [n for n in prog.walk_fn(f) if isinstance(n, ast.Call) and isinstance(n.func, ast.Attribute) and n.func.attr == "get" and isinstance(n.func.value, ast.DictComp) and u(n.func.value.key).endswith(".alias")]
        if not dicts and not inline:
            continue
        ctx.touched(f)
        fl = flow(prog, f)
        owner = f"{f.cls.name}.{f.name}" if f.cls else f.name
        # every CTE in scope is a candidate: the dictionary is built from all of them (a WITH RECURSIVE body refers to the CTE being defined)
        for dc in list(dicts.values()) + [n.func.value for n in inline]:
            filt = [c for g_ in dc.generators for c in g_.ifs]
            ctx.ob("R08.3", f"cte-dictionary-holds-every-cte-in-scope:{owner}", not filt, loc(f.mod, dc),
                   f"`{u(dc)[:70]}`: a filter removes CTE names from resolution, and the removed name is then read as a real table" + (f" (filter `{u(filt[0])}`)" if filt else ""))
        for n in prog.walk_fn(f):
            key = None
            if isinstance(n, ast.Call) and isinstance(n.func, ast.Attribute) and n.func.attr == "get" and isinstance(n.func.value, ast.Name) and n.func.value.id in dicts and n.args:
                key = n.args[0]
            elif n in inline and n.args:
                key = n.args[0]
            elif isinstance(n, ast.Subscript) and isinstance(n.value, ast.Name) and n.value.id in dicts and isinstance(n.ctx, ast.Load):
                key = n.slice
            if key is None:
                continue
            n_lookups += 1
            st = nf.query(key, f)
            ok = st <= {N1} and bool(st)
            ctx.ob("R08.2", f"alias-lookup-key-normalised-once:{owner}", ok, loc(f.mod, n),
                   f"`{u(n)[:70]}`: the dictionary is keyed by normalised aliases (N1); the look-up key is {sorted(st)} - a raw or twice-normalised key makes the match depend on the name's spelling")
            # R08.3 dot test on the SQL text
            atoms = [u(a) for a in controlling_atoms(prog.parents, n)]
            dot_text = any("'.'" in a and (".raw" in a or ".value" in a) for a in atoms)
            schema_based = [a for a in atoms if "schema" in a]
            ctx.ob("R08.3", f"cte-candidates-decided-on-the-text:{owner}", dot_text and not schema_based, loc(f.mod, n),
                   "only an undotted identifier may denote a CTE; the test must look at the raw text ('.' not in <raw>), " + (f"not at `{schema_based[0]}`" if schema_based else f"guards are {atoms[:3]}"))
    # the same look-up written as a scan: `next(s for s in <ctes> if s.alias == key)` / a loop comparing `.alias` with a key
    for f in prog.funcs.values():
        if not f.mod.name.startswith("sqllineage.core.parser"):
            continue
        for n in prog.walk_fn(f):
            if not (isinstance(n, ast.Compare) and len(n.ops) == 1 and isinstance(n.ops[0], (ast.Eq, ast.NotEq))):
                continue
            sides = [n.left, n.comparators[0]]
            al = next((x for x in sides if isinstance(x, ast.Attribute) and x.attr == "alias" and isinstance(x.value, ast.Name)), None)
            if al is None:
                continue
            key = sides[1] if sides[0] is al else sides[0]
            # the object whose alias is compared is an element of a CTE collection
            from_ctes = any(isinstance(v, (ast.For, ast.comprehension)) and u(v.iter).endswith(".cte") for _k, v in prog.local_defs(f, al.value.id)) or any(
                isinstance(g_, ast.comprehension) and isinstance(g_.target, ast.Name) and g_.target.id == al.value.id and u(g_.iter).endswith(".cte")
                for a_ in prog.ancestors(n) for g_ in getattr(a_, "generators", []))
            if not from_ctes:
                continue
            n_lookups += 1
            ctx.touched(f)
            st = nf.query(key, f)
            ok = st <= {N1} and bool(st)
            ctx.ob("R08.2", f"alias-lookup-key-normalised-once:{f.owner}", ok, loc(f.mod, n),
                   f"`{u(n)[:70]}`: CTE aliases are stored normalised (N1); the key they are compared with is {sorted(st)} - a raw or twice-normalised key makes the match depend on "
                   f"the name's spelling (quotes, letter case)")
    ctx.floor("look-ups in alias-keyed dictionaries", n_lookups, 2)
    # a CTE reference keeps the referencing alias or the CTE's own name
    # ---- R08.4 identity -------------------------------------------------------------------------
    ids = identities(prog)
    sq = ids["SubQuery"]
    ctx.ob("R08.4", "subquery-identity-is-its-text", sq.eq_fields == {"query_raw"}, sq.cls.loc(), f"SubQuery.__eq__ compares {sq.eq_projs}: identity does not depend on the alias chosen")
    col = ids["Column"]
    ctx.ob("R08.4", "column-identity-includes-the-owner-object", any(p in ("self.parent", "self._parent") for p in col.eq_projs), col.cls.loc(),
           f"Column.__eq__ compares {col.eq_projs}: the owner object must be compared, because two derived tables may share an alias (and thus a printed name)")
    # alias re-assignment after construction only in the CTE extractor (alias is not an identity field)
    ctx.ob("R08.4", "alias-is-not-an-identity-field", "alias" not in sq.eq_fields | sq.hash_fields, sq.cls.loc(), "re-labelling a sub-query (CTE naming) does not move a graph key")

    # ---- R08.5 read trace ----------------------------------------------------------------------------
    H = prog.cls("core.holders.SubQueryLineageHolder")
    ar = H.methods.get("add_read")
    if ar is None:
        raise AnalysisError("add_read not found")
    ctx.touched(ar)
    edges = [k for k in prog.walk_fn(ar) if isinstance(k, ast.Call) and isinstance(k.func, ast.Attribute) and k.func.attr == "add_edge"]
    # the READ member of the tag enumeration is handed to a call (the tagging helper, or - once the helper is absorbed - add_node itself)
    tagged = any(isinstance(k, ast.Call) and any(isinstance(x, ast.Attribute) and x.attr == "READ" for a_ in list(k.args) + [kw.value for kw in k.keywords] for x in ast.walk(a_))
                 for k in prog.walk_fn(ar))
    ctx.ob("R08.5", "read-is-tagged", tagged, ar.loc(), "every read dataset gets the READ tag", trivial=True)
    for e in edges:
        atoms = [u(a) for a in controlling_atoms(prog.parents, e)]
        foreign = [a for a in atoms if not a.startswith("hasattr(")]
        ctx.ob("R08.5", "read-trace-independent-of-the-alias-spelling", not foreign, loc(ar.mod, e),
               "whether reading a table leaves an incident edge must not depend on the alias it carries (DROP removes tables of degree 0: an un-aliased, read-only table would vanish "
               "while the aliased spelling survives)" + (f"; depends on `{foreign[0]}`" if foreign else ""))
    ctx.floor("alias edge sites in add_read", len(edges), 1)

    # ---- R08.5 an alias handed to a sub-query / table constructor is not already normalised (= R16.2): the constructor normalises again and a
    # quoted mixed-case CTE or alias name no longer equals the qualifier that refers to it
    from .common import import_rules as _imp8

    _imp8(ctx, "C16", {"R16.2": "R08.5"}, key_filter=lambda o: "(alias)" in o.key or "->alias" in o.key)

    # ---- R08.6 the alias name is not picked by a position at which the alias operator or the column list can stand
    _alias_name_rule(ctx)

    # ---- R08.8 (= R02.11): the qualifier of a dotted column reference is the part next to the column (removing an alias turns `a.c` into `t.c` or
    # `s.t.c`: all must name the same relation)
    _imp8(ctx, "C02", {"R02.11": "R08.8"})

    # ---- R08.7 whether a statement-local name is used, visible or shadowed is never decided by searching SQL text for it: `name in query_text`
    # finds a name inside other identifiers, strings and comments, and misses it when the text spells it in another case or quoted - a renaming
    # that changes neither the structure nor the references changes the answer.  (A literal searched in text - `"." in ref.raw` - is a test of
    # the text's form and is not meant here.)
    n_txt = 0
    TEXT_ATTRS = ("raw", "raw_upper", "query_raw", "value", "normalized")
    for f in prog.funcs.values():
        if not (f.mod.name.startswith("sqllineage.core.parser") or f.mod.name in ("sqllineage.core.holders", "sqllineage.core.models")):
            continue
        for k in prog.walk_fn(f):
            hay = needle = None
            if isinstance(k, ast.Compare) and len(k.ops) == 1 and isinstance(k.ops[0], (ast.In, ast.NotIn)):
                needle, hay = k.left, k.comparators[0]
            elif isinstance(k, ast.Call) and isinstance(k.func, ast.Attribute) and k.func.attr in ("find", "rfind", "index", "count", "startswith", "endswith") and k.args:
                needle, hay = k.args[0], k.func.value
            if hay is None or isinstance(prog.try_fold(needle, f.mod, f), (str, tuple, list)):
                continue
            texty = [x for x in prog.influences(f, hay) if isinstance(x, ast.Attribute) and x.attr in TEXT_ATTRS]
            if not texty:
                continue
            # the haystack must be text itself (a string), not a collection computed from text
            ht = prog.infer(hay, f)
            is_str = any(a.kind in ("str",) or (a.kind == "inst" and a.name in ("str", "builtins.str")) for a in ht.alts())
            direct = isinstance(hay, ast.Attribute) and hay.attr in TEXT_ATTRS or (isinstance(hay, ast.Call) and isinstance(hay.func, ast.Attribute) and hay.func.attr in ("lower", "upper", "casefold", "strip") and any(isinstance(x, ast.Attribute) and x.attr in TEXT_ATTRS for x in prog.influences(f, hay.func.value)))
            if not (is_str or direct):
                srcs = [v for v in prog.value_sources(f, hay)] if isinstance(hay, ast.Name) else []
                direct = any(isinstance(v, ast.Attribute) and v.attr in TEXT_ATTRS or (isinstance(v, ast.Call) and isinstance(v.func, ast.Attribute) and v.func.attr in ("lower", "upper", "casefold", "strip")
                             and any(isinstance(x, ast.Attribute) and x.attr in TEXT_ATTRS for x in ast.walk(v.func.value))) for v in srcs)
            if not (is_str or direct):
                continue
            named = any(isinstance(x, ast.Attribute) and x.attr in ("alias", "raw_name") for x in prog.influences(f, needle)) or any(
                isinstance(x, ast.Call) and isinstance(x.func, ast.Name) and x.func.id in ("str", "escape_identifier_name") for x in prog.influences(f, needle))
            if not named:
                continue
            n_txt += 1
            ctx.ob("R08.7", f"names-are-not-searched-in-sql-text:{f.owner}", False, loc(f.mod, k),
                   f"`{u(k)[:70]}` searches SQL text for a name: substring matches, case and quoting decide instead of the statement's structure")
    ctx.ob("R08.7", "names-are-not-searched-in-sql-text:scanned", True, "sqllineage/core", f"{n_txt} textual search(es) for a name found", trivial=True)



# ---- R08.6 -------------------------------------------------------------------------------------------------------------------
_NOT_A_NAME = {"bracketed", "alias_operator", "keyword", "symbol"}


def _alias_name_rule(ctx: Ctx) -> None:
    """The name of an alias is taken from an `alias_expression` node whose grammar (read from the installed dialects) is
    [operator] name [column list] - and, in tsql, name operator.  A pick by position among its children is acceptable only if no child that
    is not a name can stand at that position once the children the code filters out by type are removed."""
    from ..grammar import grammar, installed_dialects
    from ..safety import _const_index

    prog = ctx.prog
    T = "alias_expression"
    fns = [f for f in prog.funcs.values() if f.mod.name.startswith("sqllineage.core.parser.sqlfluff")]

    def is_alias_here(f: Fn, site: ast.AST, e: ast.AST) -> bool:
        txt = u(e)
        if any(p and t == f"{txt}.type == {T!r}" for t, p in flow(prog, f).facts_for(site)):
            return True
        for v in prog.value_sources(f, e):
            if isinstance(v, ast.Call) and isinstance(v.func, ast.Attribute) and v.func.attr == "get_child" and v.args and prog.try_fold(v.args[0], f.mod, f) == T:
                return True
        return False

    # routines that are handed an alias_expression: (callee, parameter name)
    subjects: dict[tuple[str, str], tuple[Fn, str]] = {}
    n_calls = 0
    for f in fns:
        for n in prog.walk_fn(f):
            if isinstance(n, ast.Call) and n.args:
                for i, a in enumerate(n.args):
                    if isinstance(a, ast.Starred) or not is_alias_here(f, n, a):
                        continue
                    for cal in prog.resolve_call(n, f):
                        if isinstance(cal, Fn) and cal.mod.name.startswith("sqllineage."):
                            ps = [p_ for p_ in cal.params() if p_ not in ("self", "cls")]
                            if i < len(ps):
                                subjects[(cal.qual, ps[i])] = (cal, ps[i])
                                n_calls += 1
    ctx.floor("calls that hand an alias_expression to a routine of the package", n_calls, 2)

    def children_of(f: Fn, e: ast.AST, site: ast.AST, seg: str, assume: bool, depth: int = 0) -> Optional[list[frozenset]]:
        """If `e` is (a filtered copy of) the children of segment `seg`: the type sets filtered out, one per way the value can be built."""
        if depth > 4:
            return None
        if isinstance(e, ast.Call):
            nm = e.func.attr if isinstance(e.func, ast.Attribute) else e.func.id if isinstance(e.func, ast.Name) else ""
            if nm == "list_child_segments" and e.args and u(e.args[0]) == seg:
                return [frozenset()]
            if nm in ("get_children", "iter_segments") and isinstance(e.func, ast.Attribute) and u(e.func.value) == seg:
                return [frozenset()]
            if nm in ("list", "tuple") and e.args:
                return children_of(f, e.args[0], site, seg, assume, depth + 1)
            return None
        if isinstance(e, ast.Attribute) and e.attr == "segments" and u(e.value) == seg:
            return [frozenset()]
        if isinstance(e, (ast.ListComp, ast.GeneratorExp)) and len(e.generators) == 1 and isinstance(e.elt, ast.Name) and isinstance(e.generators[0].target, ast.Name) \
                and e.elt.id == e.generators[0].target.id:
            inner = children_of(f, e.generators[0].iter, e, seg, assume, depth + 1)
            if inner is None:
                return None
            var = e.elt.id
            drop: set[str] = set()
            for c in e.generators[0].ifs:
                for atom in (c.values if isinstance(c, ast.BoolOp) and isinstance(c.op, ast.And) else [c]):
                    if isinstance(atom, ast.Compare) and len(atom.ops) == 1 and u(atom.left) == f"{var}.type":
                        cmp_ = atom.comparators[0]
                        if isinstance(cmp_, ast.Name):
                            # the excluded types held in a local that is chosen by the segment's type: take the alternative for an alias expression
                            srcs_ = [getattr(node_, "value", None) for kind_, node_ in prog.local_defs(f, cmp_.id) if kind_ in ("assign", "walrus", "annassign")]
                            picked = []
                            for v in srcs_:
                                if isinstance(v, ast.IfExp) and u(v.test) == f"{seg}.type == {T!r}":
                                    picked.append(v.body)
                                elif isinstance(v, ast.IfExp) and u(v.test) == f"{seg}.type != {T!r}":
                                    picked.append(v.orelse)
                                else:
                                    picked.append(v)
                            if len(picked) == 1:
                                cmp_ = picked[0]
                        val = prog.try_fold(cmp_, f.mod, f)
                        if isinstance(atom.ops[0], ast.NotEq) and isinstance(val, str):
                            drop.add(val)
                        elif isinstance(atom.ops[0], ast.NotIn) and isinstance(val, (tuple, list, set, frozenset)):
                            drop |= {x for x in val if isinstance(x, str)}
            return [s_ | frozenset(drop) for s_ in inner]
        if isinstance(e, ast.Name):
            fl = flow(prog, f)
            defs = fl.reaching_defs_assuming(site, e.id, f"{seg}.type == {T!r}", True) if assume else fl.reaching_defs(site, e.id)
            out: list[frozenset] = []
            for kind, dn in defs:
                val = getattr(dn, "value", None)
                if kind not in ("assign", "walrus", "annassign") or val is None:
                    return None
                r = children_of(f, val, dn, seg, assume, depth + 1)
                if r is None:
                    return None
                out += r
            return out or None
        return None

    dialects = installed_dialects()
    n_picks = 0
    for f in fns:
        segs = {p_ for (q, p_) in subjects if q == f.qual}
        for n in prog.walk_fn(f):
            if not (isinstance(n, ast.Subscript) and isinstance(n.ctx, ast.Load) and not isinstance(n.slice, ast.Slice)):
                continue
            idx = _const_index(prog, f, n.slice)
            if idx is None or idx[0] != "const":
                continue
            # segments known to be alias expressions here: parameters handed one, and locals tested for the type
            here = set(segs)
            for t, p in flow(prog, f).facts_for(n):
                if p and t.endswith(f".type == {T!r}"):
                    here.add(t[: -len(f".type == {T!r}")])
            for seg in sorted(here):
                filt = children_of(f, n.value, n, seg, assume=True)
                if filt is None:
                    continue
                n_picks += 1
                ctx.touched(f)
                bad: dict[str, list[str]] = {}
                for drop in filt:
                    for d in dialects:
                        g = grammar(d)
                        if idx[1] in (0, -1):
                            poss = g.edge_types(T, last=idx[1] == -1, skip=drop)
                        else:
                            poss = g.children(T) - drop  # any child can stand in the middle
                        for b in sorted(poss & _NOT_A_NAME):
                            bad.setdefault(b, []).append(d)
                what = f"`{u(n)[:60]}` picks the alias name by position among the children of an alias_expression" + (f" after dropping {sorted(set().union(*filt))}" if any(filt) else "")
                if not bad:
                    ctx.ob("R08.6", f"alias-name-by-type:{f.owner}:{idx[1]}", True, loc(f.mod, n), what + ": every child that can stand there is a name")
                for b, ds in sorted(bad.items()):
                    ctx.ob("R08.6", f"alias-name-by-type:{f.owner}:{idx[1]}:{b}", False, loc(f.mod, n),
                           what + f": a `{b}` can stand there ({', '.join(ds[:4])}{' ...' if len(ds) > 4 else ''}) - the alias would be the operator, the column list or a keyword, "
                           "and the spelling of the alias decides which")
    ctx.floor("positional picks of an alias name", n_picks, 1)
