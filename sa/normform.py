"""Normal-form analysis of identifier strings (rule R16.2): how many times the (non-idempotent) normaliser is applied between
SQL text and a model field / look-up key.

Abstract states of a string expression:
  RAW   text taken from the parse tree (.raw, .value, get_real_name(), ...)
  N1    normalised exactly once (also: name fields of model objects, by their constructors' summaries)
  N2    normalised more than once
  PROV  name delivered by a metadata provider / session store (a fixed point of the normaliser)
  CONST literal
  ?     unknown
"""

from __future__ import annotations

import ast
from typing import Optional

from .astutil import u
from .model import Cls, Fn, Prog

RAW, N1, N2, PROV, CONST, UNK = "RAW", "N1", "N2", "PROV", "CONST", "?"
RAW_ATTRS = {"raw", "value", "normalized", "raw_upper"}
RAW_CALLS = {"get_real_name", "get_alias", "get_parent_name", "get_name", "group", "groups", "_get_first_name"}
NAME_FIELDS = {"raw_name", "alias", "uri"}


def bump(s: str) -> str:
    return {RAW: N1, N1: N2, N2: N2, PROV: PROV, CONST: CONST, UNK: UNK}[s]


class NormForm:
    def __init__(self, prog: Prog):
        self.prog = prog
        self.norm = prog.try_fn("utils.helpers.escape_identifier_name")
        self.models = {prog.cls(f"core.models.{n}").qual: n for n in ("Table", "Column", "SubQuery", "Path", "Schema")}
        self.model_quals = set(self.models)
        for q in list(self.models):
            for k in prog.subclasses(prog.classes[q]):
                self.model_quals.add(k.qual)
        self._param_cache: dict = {}
        self._ret_cache: dict = {}
        self._param_fn: dict = {}
        self._ret_fn: dict = {}
        self._sites_cache: dict = {}
        self._stack: set = set()
        self.cqt = prog.try_cls("utils.entities.ColumnQualifierTuple")
        # the provider's session map (names stored there were registered from normalised Column objects)
        self._session_attr = None
        P = prog.try_cls("core.metadata_provider.MetaDataProvider")
        reg = P.methods.get("register_session_metadata") if P is not None else None
        if reg is not None:
            for n in ast.walk(reg.node):
                if isinstance(n, ast.Subscript) and isinstance(n.ctx, ast.Store) and isinstance(n.value, ast.Attribute) and isinstance(n.value.value, ast.Name) and n.value.value.id == "self":
                    self._session_attr = n.value.attr

    def is_norm_call(self, e: ast.AST, fn: Optional[Fn]) -> bool:
        return isinstance(e, ast.Call) and self.norm is not None and fn is not None and self.norm in self.prog.resolve_call(e, fn)

    def model_typed(self, e: ast.AST, fn: Fn) -> bool:
        t = self.prog.infer(e, fn)
        return any(a.kind == "inst" and a.name in self.model_quals for a in t.alts())

    def state(self, e: ast.AST, fn: Fn, depth: int = 0) -> set[str]:
        prog = self.prog
        if e is None or depth > 8:
            return {UNK}
        if isinstance(e, ast.Constant):
            return {CONST} if isinstance(e.value, str) else {UNK}
        if isinstance(e, ast.JoinedStr):
            out = set()
            for v in e.values:
                if isinstance(v, ast.FormattedValue):
                    out |= self.state(v.value, fn, depth + 1)
            return out or {CONST}
        if isinstance(e, ast.NamedExpr):
            return self.state(e.value, fn, depth + 1)
        if self.is_norm_call(e, fn):
            return {bump(s) for s in self.state(e.args[0], fn, depth + 1)} if e.args else {UNK}
        if isinstance(e, ast.IfExp):
            return self.state(e.body, fn, depth + 1) | self.state(e.orelse, fn, depth + 1)
        if isinstance(e, ast.BoolOp):
            out = set()
            for v in e.values:
                out |= self.state(v, fn, depth + 1)
            return out
        if isinstance(e, ast.BinOp) and isinstance(e.op, (ast.Add, ast.Mod)):
            return (self.state(e.left, fn, depth + 1) | self.state(e.right, fn, depth + 1)) - {CONST} or {CONST}
        if isinstance(e, ast.Attribute):
            if e.attr in RAW_ATTRS:
                return {RAW}
            if e.attr in NAME_FIELDS and self.model_typed(e.value, fn):
                return {N1}
            if e.attr == "raw_name":
                return {N1}  # only model objects carry this field
            if e.attr == "schema" and self.model_typed(e.value, fn):
                return {N1}
            # NamedTuple fields: state of the tuple's construction
            bt = prog.infer(e.value, fn)
            if self.cqt is not None and any(a.kind == "inst" and a.name == self.cqt.qual for a in bt.alts()):
                return self.tuple_field_state(e.value, e.attr, fn, depth + 1)
            return {UNK}
        if isinstance(e, ast.Call):
            f = e.func
            nm = f.attr if isinstance(f, ast.Attribute) else f.id if isinstance(f, ast.Name) else ""
            if nm in RAW_CALLS:
                return {RAW}
            if nm == "raw_normalized" and isinstance(f, ast.Attribute):
                return {N1}  # sqlfluff's own normaliser: the quotes are gone, and with them what the repository's normaliser needs to keep the case
            if nm == "str" and e.args:
                if self.model_typed(e.args[0], fn):
                    return {N1}
                return self.state(e.args[0], fn, depth + 1)
            if nm == "join" and e.args:
                a = e.args[0]
                if isinstance(a, (ast.ListComp, ast.GeneratorExp)):
                    return self.state(a.elt, fn, depth + 1)
                return self.state(a, fn, depth + 1)
            if nm in ("strip", "lstrip", "rstrip", "lower", "upper", "replace", "format"):
                return self.state(f.value, fn, depth + 1) if isinstance(f, ast.Attribute) else {UNK}
            if nm in ("pop", "get") and isinstance(f, ast.Attribute) and len(e.args) >= 1:
                # kwargs.pop("alias", default): caller supplied value or default
                out = set()
                if len(e.args) > 1:
                    out |= self.state(e.args[1], fn, depth + 1)
                k = prog.try_fold(e.args[0], fn.mod, fn)
                if isinstance(k, str):
                    out |= self.kwarg_states(fn, k)
                return out or {UNK}
            # repo functions: state of their return value
            for cal in prog.resolve_call(e, fn):
                if isinstance(cal, Fn) and cal.name != "__init__":
                    return self.return_state(cal, depth + 1)
            return {UNK}
        if isinstance(e, ast.Subscript):
            # element of a split / list of names keeps the state
            return self.state(e.value, fn, depth + 1)
        if isinstance(e, ast.Name):
            key = (fn.qual, e.id)
            if key in self._stack:
                return set()
            self._stack.add(key)
            try:
                out: set[str] = set()
                defs = prog.local_defs(fn, e.id)
                for kind, node in defs:
                    if kind in ("assign", "walrus", "annassign") and getattr(node, "value", None) is not None:
                        out |= self.state(node.value, fn, depth + 1)
                    elif kind in ("for", "comp"):
                        out |= self.elem_state(node.iter, fn, depth + 1, None)
                    elif kind.startswith("unpack:"):
                        idx = kind.split(":")[1]
                        src = node.value if isinstance(node, ast.Assign) else getattr(node, "iter", None)
                        if src is not None:
                            if isinstance(node, ast.Assign):
                                out |= self.unpack_state(src, idx, fn, depth + 1)
                            else:
                                out |= self.elem_state(src, fn, depth + 1, int(idx) if idx.isdigit() else None)
                if not defs:
                    pt = prog.param_type(fn, e.id)
                    if pt is not None:
                        out |= self.param_state(fn, e.id, depth + 1)
                return out or {UNK}
            finally:
                self._stack.discard(key)
        if isinstance(e, ast.Tuple):
            out = set()
            for x in e.elts:
                out |= self.state(x, fn, depth + 1)
            return out
        return {UNK}

    def unpack_state(self, src: ast.AST, idx: str, fn: Fn, depth: int) -> set[str]:
        if isinstance(src, ast.Tuple) and idx.isdigit() and int(idx) < len(src.elts):
            return self.state(src.elts[int(idx)], fn, depth)
        if isinstance(src, ast.Call) and isinstance(src.func, ast.Attribute) and src.func.attr in ("rsplit", "split", "partition"):
            return self.state(src.func.value, fn, depth)
        return self.state(src, fn, depth)

    def elem_state(self, it: ast.AST, fn: Fn, depth: int, idx: Optional[int]) -> set[str]:
        """State of the elements (or of component idx of tuple elements) of an iterable of names."""
        prog = self.prog
        if isinstance(it, ast.Attribute) and it.attr == "source_columns" and self.model_typed(it.value, fn):
            return {N1}  # Column.__init__ normalises every (name, qualifier) once
        if isinstance(it, ast.Call):
            nm = it.func.attr if isinstance(it.func, ast.Attribute) else it.func.id if isinstance(it.func, ast.Name) else ""
            if nm in ("_get_table_columns",):
                return {PROV}
            if nm in ("enumerate", "list", "sorted", "reversed") and it.args:
                return self.elem_state(it.args[0], fn, depth + 1, idx)
            if nm in ("split", "rsplit") and isinstance(it.func, ast.Attribute):
                return self.state(it.func.value, fn, depth + 1)
            if nm in ("pop", "get") and isinstance(it.func, ast.Attribute) and it.args:
                out = set()
                if len(it.args) > 1:
                    out |= self.elem_state(it.args[1], fn, depth + 1, idx)
                k = prog.try_fold(it.args[0], fn.mod, fn)
                if isinstance(k, str):
                    out |= self.kwarg_states(fn, k, elem=True, idx=idx)
                return out or {UNK}
        if isinstance(it, ast.Subscript) and self._session_attr is not None and any(isinstance(k, ast.Attribute) and k.attr == self._session_attr for k in ast.walk(it)):
            return {PROV}
        if isinstance(it, (ast.Tuple, ast.List)):
            out = set()
            for x in it.elts:
                if isinstance(x, ast.Tuple) and idx is not None and idx < len(x.elts):
                    out |= self.state(x.elts[idx], fn, depth + 1)
                else:
                    out |= self.state(x, fn, depth + 1)
            return out or {UNK}
        if isinstance(it, ast.Name):
            out = set()
            for kind, node in prog.local_defs(fn, it.id):
                if kind in ("assign", "walrus") and getattr(node, "value", None) is not None:
                    out |= self.elem_state(node.value, fn, depth + 1, idx)
            return out or {UNK}
        return {UNK}

    def kwarg_states(self, fn: Fn, key: str, elem: bool = False, idx: Optional[int] = None) -> set[str]:
        """States of keyword argument `key` over all constructor call sites of fn's class."""
        prog = self.prog
        out: set[str] = set()
        if fn.cls is None:
            return out
        targets = {fn.cls.qual} | {k.qual for k in prog.subclasses(fn.cls)}
        for g in prog.funcs.values():
            for n in prog.walk_fn(g):
                if isinstance(n, ast.Call) and isinstance(n.func, (ast.Name, ast.Attribute)):
                    t = prog.infer(n.func, g)
                    if any(a.kind == "cls" and a.name in targets for a in t.alts()):
                        for kw in n.keywords:
                            if kw.arg == key:
                                out |= (self.elem_state(kw.value, g, 2, idx) if elem else self.state(kw.value, g, 2))
                            elif kw.arg is None and isinstance(kw.value, ast.Name):
                                # **kwargs built as {"alias": alias}
                                for kind, node in prog.local_defs(g, kw.value.id):
                                    v = getattr(node, "value", None)
                                    for d in ([v] if v is not None else []):
                                        for dd in ast.walk(d):
                                            if isinstance(dd, ast.Dict):
                                                for kk, vv in zip(dd.keys, dd.values):
                                                    if isinstance(kk, ast.Constant) and kk.value == key:
                                                        out |= self.state(vv, g, 2)
        return out

    def tuple_field_state(self, tup: ast.AST, field: str, fn: Fn, depth: int) -> set[str]:
        """State of ColumnQualifierTuple.<field> for the tuple expression `tup`."""
        prog = self.prog
        fields = ["column", "qualifier"]
        idx = fields.index(field) if field in fields else 0
        out: set[str] = set()

        def from_ctor(call: ast.Call, g: Fn):
            if idx < len(call.args):
                out.update(self.state(call.args[idx], g, depth + 1))

        exprs: list[tuple[ast.AST, Fn]] = []
        if isinstance(tup, ast.Name):
            for kind, node in prog.local_defs(fn, tup.id):
                v = getattr(node, "value", None)
                if kind in ("assign", "walrus") and v is not None:
                    exprs.append((v, fn))
                elif kind in ("for", "comp"):
                    return self.elem_state(node.iter, fn, depth + 1, idx)
        else:
            exprs.append((tup, fn))
        for v, g in exprs:
            if isinstance(v, ast.Call):
                ft = prog.infer(v.func, g) if isinstance(v.func, (ast.Name, ast.Attribute)) else None
                if ft is not None and any(a.kind == "cls" and self.cqt is not None and a.name == self.cqt.qual for a in ft.alts()):
                    from_ctor(v, g)
                    continue
                for cal in prog.resolve_call(v, g):
                    if isinstance(cal, Fn):
                        for r in prog.walk_fn(cal):
                            if isinstance(r, ast.Assign) and isinstance(r.value, ast.Call):
                                ft2 = prog.infer(r.value.func, cal) if isinstance(r.value.func, (ast.Name, ast.Attribute)) else None
                                if ft2 is not None and any(a.kind == "cls" and self.cqt is not None and a.name == self.cqt.qual for a in ft2.alts()):
                                    from_ctor(r.value, cal)
        return out or {UNK}

    # ---- summaries of functions: state of the return value, state of a parameter over all call sites -----------------------------
    # Both are least fixed points over the call graph.  A first demand computes an approximation (a summary that is being computed
    # answers with what is known so far); `solve()` then re-computes every summary from the others until nothing grows.  Rules call
    # `solve()` after a warm-up pass over their sites, so that verdicts do not depend on the order in which sites are visited.
    def _compute_return(self, f: Fn) -> set[str]:
        out: set[str] = set()
        for r in self.prog.walk_fn(f):
            if isinstance(r, ast.Return) and r.value is not None:
                out |= self.state(r.value, f, 1)
        return out

    def return_state(self, f: Fn, depth: int) -> set[str]:
        key = f.qual
        if key in self._ret_cache:
            return self._ret_cache[key] or {UNK}
        self._ret_cache[key] = set()
        self._ret_fn[key] = f
        self._ret_cache[key] = self._ret_cache[key] | self._compute_return(f)
        return self._ret_cache[key] or {UNK}

    def _compute_param(self, f: Fn, name: str) -> set[str]:
        prog = self.prog
        out: set[str] = set()
        ps = f.params()
        offset = 1 if (f.cls is not None and f.kind in ("method", "classmethod") and ps and ps[0] in ("self", "cls")) else 0
        pi = ps.index(name) - offset
        for g, n in self._call_sites(f):
            if 0 <= pi < len(n.args):
                out |= self.state(n.args[pi], g, 1)
            for kw in n.keywords:
                if kw.arg == name:
                    out |= self.state(kw.value, g, 1)
        return out

    def _call_sites(self, f: Fn) -> list:
        if f.qual not in self._sites_cache:
            prog = self.prog
            sites = []
            targets = ({f.cls.qual} | {k.qual for k in prog.subclasses(f.cls)}) if f.name == "__init__" and f.cls is not None else set()
            for g in prog.funcs.values():
                for n in prog.walk_fn(g):
                    if not isinstance(n, ast.Call):
                        continue
                    hit = f in prog.resolve_call(n, g)
                    if not hit and targets and isinstance(n.func, (ast.Name, ast.Attribute)):
                        t = prog.infer(n.func, g)
                        hit = any(a.kind == "cls" and a.name in targets for a in t.alts())
                    if hit:
                        sites.append((g, n))
            self._sites_cache[f.qual] = sites
        return self._sites_cache[f.qual]

    def param_state(self, f: Fn, name: str, depth: int) -> set[str]:
        key = (f.qual, name)
        if key in self._param_cache:
            return self._param_cache[key] or {UNK}
        if name not in f.params():
            return {UNK}
        self._param_cache[key] = set()
        self._param_fn[key] = f
        self._param_cache[key] = self._param_cache[key] | self._compute_param(f, name)
        return self._param_cache[key] or {UNK}

    def query(self, e: ast.AST, fn: Fn) -> set[str]:
        """state() at the fixed point of the summaries (what rules should call)."""
        return self._at_fixed_point(lambda: self.state(e, fn))

    def query_elems(self, it: ast.AST, fn: Fn, idx: Optional[int] = None) -> set[str]:
        return self._at_fixed_point(lambda: self.elem_state(it, fn, 0, idx))

    def _at_fixed_point(self, compute):
        r = compute()
        n_keys = len(self._ret_cache) + len(self._param_cache)
        if n_keys != getattr(self, "_solved_keys", -1):
            self.solve()
            self._solved_keys = len(self._ret_cache) + len(self._param_cache)
            r = compute()
            if len(self._ret_cache) + len(self._param_cache) != self._solved_keys:  # the second evaluation demanded further summaries
                return self._at_fixed_point(compute)
        return r

    def solve(self, max_rounds: int = 12) -> int:
        """Re-compute every summary demanded so far from the current values of the others until none grows; returns the number of rounds."""
        for rnd in range(1, max_rounds + 1):
            changed = False
            for key in list(self._ret_cache):
                new = self._ret_cache[key] | self._compute_return(self._ret_fn[key])
                if new != self._ret_cache[key]:
                    self._ret_cache[key] = new
                    changed = True
            for key in list(self._param_cache):
                new = self._param_cache[key] | self._compute_param(self._param_fn[key], key[1])
                if new != self._param_cache[key]:
                    self._param_cache[key] = new
                    changed = True
            if not changed:
                return rnd
        return max_rounds
