"""E0 - program model of /repo's sqllineage package, built from source with `ast` only.

Nothing here imports sqllineage, sqlfluff or sqlparse.  The model gives rules:
  * modules, classes (C3 MRO, direct/transitive subclasses), functions/methods (incl. nested),
  * name resolution through (absolute / relative / function-local) imports,
  * constant folding of string / list / tuple / set constants (module, class level),
  * a light, annotation-driven type inference for expressions,
  * call resolution (bound methods, super(), cls, constructors, properties, class-hierarchy
    analysis for dynamic dispatch) and a call graph (networkx DiGraph).
"""

from __future__ import annotations

import ast
import os
from dataclasses import dataclass, field
from typing import Any, Iterable, Iterator, Optional

import networkx as nx

PKG = "sqllineage"


from .normalise import is_marker as _is_marker  # noqa: E402


class AnalysisError(Exception):
    """Raised when an anchor cannot be located or a shape is not understood: exit 2, never a pass."""


# --------------------------------------------------------------------------------------
# basic entities
# --------------------------------------------------------------------------------------


@dataclass
class Mod:
    name: str
    path: str
    src: str
    tree: ast.Module
    is_pkg: bool

    def rel(self) -> str:
        return self.path

    def segment(self, node: ast.AST) -> str:
        try:
            return ast.get_source_segment(self.src, node) or ast.unparse(node)
        except Exception:
            return ast.unparse(node)


@dataclass
class Fn:
    qual: str
    name: str
    node: ast.AST  # FunctionDef | AsyncFunctionDef | Lambda
    mod: Mod
    cls: Optional["Cls"] = None
    parent: Optional["Fn"] = None  # enclosing function for nested defs
    decorators: list[str] = field(default_factory=list)
    kind: str = "function"  # function | method | staticmethod | classmethod | property | setter

    @property
    def lineno(self) -> int:
        return getattr(self.node, "lineno", 0)

    def loc(self) -> str:
        return f"{self.mod.path}:{self.lineno}"

    @property
    def owner(self) -> str:
        """Name under which findings are keyed: `Class.method` or, for module-level / nested functions, the name chain without the module
        path (moving a function to another module of the package does not change what it is)."""
        ov = getattr(self, "_owner_override", None)
        if ov:
            return ov
        if self.cls is not None:
            return f"{self.cls.name}.{self.name}"
        q = self.qual
        if q.startswith(self.mod.name + "."):
            q = q[len(self.mod.name) + 1:]
        return q

    def params(self) -> list[str]:
        a = self.node.args
        return [x.arg for x in a.posonlyargs + a.args] + ([a.vararg.arg] if a.vararg else []) + [
            x.arg for x in a.kwonlyargs
        ] + ([a.kwarg.arg] if a.kwarg else [])

    def __hash__(self):
        return hash(self.qual)

    def __eq__(self, other):
        return isinstance(other, Fn) and other.qual == self.qual

    def __repr__(self):
        return f"Fn({self.qual})"


@dataclass
class Cls:
    qual: str
    name: str
    node: ast.ClassDef
    mod: Mod
    base_exprs: list[ast.expr] = field(default_factory=list)
    bases: list[str] = field(default_factory=list)  # resolved quals ("ext:..." for foreign)
    methods: dict[str, Fn] = field(default_factory=dict)
    setters: dict[str, Fn] = field(default_factory=dict)
    consts: dict[str, ast.expr] = field(default_factory=dict)  # class-level simple assignments
    annots: dict[str, ast.expr] = field(default_factory=dict)  # class-level / self.x annotations

    def __hash__(self):
        return hash(self.qual)

    def __eq__(self, other):
        return isinstance(other, Cls) and other.qual == self.qual

    def __repr__(self):
        return f"Cls({self.qual})"

    def loc(self) -> str:
        return f"{self.mod.path}:{self.node.lineno}"


# abstract types -----------------------------------------------------------------------


@dataclass(frozen=True)
class T:
    kind: str  # inst | cls | ext | set | list | dict | tuple | str | int | bool | none | func | module | unknown
    name: str = ""  # class qual for inst/cls; ext name; function qual for func
    args: tuple = ()  # element types for containers; alternatives for union

    def __repr__(self):
        if self.kind in ("inst", "cls", "ext", "func", "module"):
            return f"{self.kind}:{self.name}"
        if self.args:
            return f"{self.kind}[{', '.join(map(repr, self.args))}]"
        return self.kind

    def alts(self) -> tuple["T", ...]:
        return self.args if self.kind == "union" else (self,)

    def is_optional(self) -> bool:
        return any(a.kind == "none" for a in self.alts()) and len(self.alts()) > 1

    def non_none(self) -> "T":
        al = tuple(a for a in self.alts() if a.kind != "none")
        return union(*al) if al else UNKNOWN

    def elem(self) -> "T":
        if self.kind in ("set", "list", "tuple", "iter", "frozenset") and self.args:
            return union(*self.args) if self.kind == "tuple" else self.args[0]
        if self.kind == "dict" and self.args:
            return self.args[0]
        return UNKNOWN


UNKNOWN = T("unknown")
NONE = T("none")
STR = T("str")
INT = T("int")
BOOL = T("bool")


def union(*ts: T) -> T:
    flat: list[T] = []
    for t in ts:
        for a in t.alts():
            if a not in flat:
                flat.append(a)
    if not flat:
        return UNKNOWN
    if len(flat) == 1:
        return flat[0]
    return T("union", args=tuple(flat))


# --------------------------------------------------------------------------------------
# program
# --------------------------------------------------------------------------------------


class Prog:
    def __init__(self, root: str):
        self.root = os.path.abspath(root)
        self.mods: dict[str, Mod] = {}
        self.classes: dict[str, Cls] = {}
        self.funcs: dict[str, Fn] = {}
        self.fn_of_node: dict[int, Fn] = {}
        self.parents: dict[int, ast.AST] = {}
        self._symtab: dict[str, dict[str, tuple]] = {}
        self._mro_cache: dict[str, list[Cls]] = {}
        self._ret_cache: dict[str, T] = {}
        self._inferring: set = set()
        self._infer_cache: dict = {}
        self.byname_sites: set = set()
        self._defs_cache: dict = {}
        self._limp_cache: dict = {}
        self._cg = None
        self._load()
        self.norm_stats: dict = {}
        if os.environ.get("SA_NO_NORMALISE") != "1":
            from . import normalise

            trees = {name: m.tree for name, m in self.mods.items()}
            n_ann = sum(normalise.plain_assignments(t) for t in trees.values())
            n_any = sum(normalise.any_to_loop(t) for t in trees.values())
            n_gl = sum(normalise.getters_to_lambdas(t) for t in trees.values())
            n_mf = sum(normalise.map_filter_to_comprehensions(t) for t in trees.values())
            n_mf += sum(normalise.fuse_identity_generators(t) for t in trees.values())
            n_ci = sum(normalise.expand_container_idioms(t) for t in trees.values())
            n_cg = sum(normalise.continue_guards_to_branches(t) for t in trees.values())
            n_nnf = sum(normalise.negation_normal_form(t) for t in trees.values())
            self.norm_stats = normalise.absorb_helpers(trees)
            self.norm_stats["annotated_assignments"] = n_ann
            self.norm_stats["any_tests_to_search_loops"] = n_any
            self.norm_stats["map_filter_to_comprehensions"] = n_mf
            self.norm_stats["getters_to_lambdas"] = n_gl
            self.norm_stats["container_idioms_expanded"] = n_ci
            self.norm_stats["continue_guards_to_branches"] = n_cg
            self.norm_stats["conditions_to_negation_normal_form"] = n_nnf
            self.norm_stats["constants_inlined"] = normalise.inline_constants(trees)
            self.norm_stats["accumulator_loops_folded"] = sum(normalise.fold_accumulator_loops(t) for t in trees.values())
            self.norm_stats["single_use_temporaries_inlined"] = sum(normalise.inline_single_use_temps(t) for t in trees.values())
            # inlining a temporary can leave a loop body that is a plain accumulation again (and vice versa): second round
            self.norm_stats["accumulator_loops_folded"] += sum(normalise.fold_accumulator_loops(t) for t in trees.values())
            self.norm_stats["single_use_temporaries_inlined"] += sum(normalise.inline_single_use_temps(t) for t in trees.values())
            self.norm_stats["literal_iterations_unrolled"] = sum(normalise.unroll_literal_iterations(t) for t in trees.values())
            self.norm_stats["single_use_temporaries_inlined"] += sum(normalise.inline_single_use_temps(t) for t in trees.values())
            self.norm_stats["tails_duplicated_into_branches"] = sum(normalise.duplicate_tail_into_branches(t) for t in trees.values())
        self._index()
        self._resolve_bases()
        self._key_owner_of_unabsorbable_helpers()

    def _key_owner_of_unabsorbable_helpers(self) -> None:
        """A private helper that the front-end would absorb but cannot (a generator, a recursive function) and that has one caller is, for the
        purpose of keying findings, part of that caller: extracting the body of a loop into `_pairs()` that yields does not move a finding."""
        rej = self.norm_stats.get("rejected", {}) if self.norm_stats else {}
        cands = [q for q, why in rej.items() if why in ("generator", "recursive") and q in self.funcs and self.funcs[q].name.startswith("_") and not self.funcs[q].name.startswith("__")]
        if not cands:
            return
        g = self.build_callgraph()
        self._cg = None  # (built before the overrides existed; rebuilt on demand)
        for q in cands:
            callers = [c for c in g.predecessors(q) if c != q and c in self.funcs] if q in g else []
            if len(callers) == 1:
                self.funcs[q]._owner_override = self.funcs[callers[0]].owner  # type: ignore[attr-defined]

    # ---- loading -------------------------------------------------------------------
    def _load(self) -> None:
        pkg_dir = os.path.join(self.root, PKG)
        if not os.path.isdir(pkg_dir):
            raise AnalysisError(f"package directory {pkg_dir} not found")
        for dirpath, dirnames, filenames in os.walk(pkg_dir):
            dirnames[:] = sorted(d for d in dirnames if d not in ("__pycache__", "build", "data", "node_modules"))
            for fn in sorted(filenames):
                if not fn.endswith(".py"):
                    continue
                path = os.path.join(dirpath, fn)
                relp = os.path.relpath(path, self.root)
                parts = relp[:-3].split(os.sep)
                is_pkg = parts[-1] == "__init__"
                if is_pkg:
                    parts = parts[:-1]
                name = ".".join(parts)
                src = open(path, encoding="utf-8").read()
                try:
                    tree = ast.parse(src, filename=path)
                except SyntaxError as e:  # the tree must compile; otherwise nothing can be decided
                    raise AnalysisError(f"syntax error in {relp}: {e}")
                self.mods[name] = Mod(name, relp, src, tree, is_pkg)
        if len(self.mods) < 10:
            raise AnalysisError(f"only {len(self.mods)} modules found under {pkg_dir}")

    def _index(self) -> None:
        for mod in self.mods.values():
            for parent in ast.walk(mod.tree):
                for child in ast.iter_child_nodes(parent):
                    self.parents[id(child)] = parent
            self._symtab[mod.name] = {}
            self._index_body(mod, mod.tree.body, mod.name, None, None, top=True)

    def _add_import_syms(self, mod: Mod, stmt: ast.stmt, table: dict[str, tuple]) -> None:
        if isinstance(stmt, ast.Import):
            for a in stmt.names:
                local = a.asname or a.name.split(".")[0]
                target = a.name if a.asname else a.name.split(".")[0]
                table[local] = ("module", target)
        elif isinstance(stmt, ast.ImportFrom):
            base = stmt.module or ""
            if stmt.level:
                parts = mod.name.split(".")
                if not mod.is_pkg:
                    parts = parts[:-1]
                up = stmt.level - 1
                if up:
                    parts = parts[:-up]
                base = ".".join(parts + ([stmt.module] if stmt.module else []))
            for a in stmt.names:
                table[a.asname or a.name] = ("from", base, a.name)

    def _index_body(self, mod, body, prefix, cls: Optional[Cls], parent_fn: Optional[Fn], top=False) -> None:
        table = self._symtab[mod.name]
        for stmt in body:
            if isinstance(stmt, (ast.Import, ast.ImportFrom)) and top:
                self._add_import_syms(mod, stmt, table)
            elif isinstance(stmt, ast.ClassDef):
                c = Cls(f"{prefix}.{stmt.name}", stmt.name, stmt, mod, base_exprs=list(stmt.bases))
                self.classes[c.qual] = c
                if top:
                    table[stmt.name] = ("class", c.qual)
                for s in stmt.body:
                    if isinstance(s, ast.Assign) and len(s.targets) == 1 and isinstance(s.targets[0], ast.Name):
                        c.consts[s.targets[0].id] = s.value
                        if hasattr(s, "_ann"):
                            c.annots[s.targets[0].id] = s._ann
                    elif isinstance(s, ast.AnnAssign) and isinstance(s.target, ast.Name):
                        c.annots[s.target.id] = s.annotation
                        if s.value is not None:
                            c.consts[s.target.id] = s.value
                self._index_body(mod, stmt.body, c.qual, c, None)
            elif isinstance(stmt, (ast.FunctionDef, ast.AsyncFunctionDef)):
                decos = [ast.unparse(d) for d in stmt.decorator_list]
                kind = "method" if cls is not None else "function"
                if "staticmethod" in decos:
                    kind = "staticmethod"
                elif "classmethod" in decos:
                    kind = "classmethod"
                elif "property" in decos or any(d.endswith("lazy_property") for d in decos):
                    kind = "property"
                elif any(d.endswith(".setter") for d in decos):
                    kind = "setter"
                qual = f"{prefix}.{stmt.name}" if kind != "setter" else f"{prefix}.{stmt.name}@setter"
                f = Fn(qual, stmt.name, stmt, mod, cls=cls, parent=parent_fn, decorators=decos, kind=kind)
                self.funcs[qual] = f
                self.fn_of_node[id(stmt)] = f
                if cls is not None and parent_fn is None:
                    if kind == "setter":
                        cls.setters[stmt.name] = f
                    else:
                        cls.methods[stmt.name] = f
                elif top:
                    table[stmt.name] = ("func", qual)
                # nested defs / self.x annotations
                self._index_nested(mod, stmt, f)
                if cls is not None and stmt.name == "__init__":
                    for n in ast.walk(stmt):
                        if (
                            isinstance(n, ast.AnnAssign)
                            and isinstance(n.target, ast.Attribute)
                            and isinstance(n.target.value, ast.Name)
                            and n.target.value.id == "self"
                        ):
                            cls.annots.setdefault(n.target.attr, n.annotation)
                        elif isinstance(n, ast.Assign) and hasattr(n, "_ann") and isinstance(n.targets[0], ast.Attribute) and isinstance(n.targets[0].value, ast.Name) and n.targets[0].value.id == "self":
                            cls.annots.setdefault(n.targets[0].attr, n._ann)
            elif top and isinstance(stmt, ast.Assign):
                for t in stmt.targets:
                    if isinstance(t, ast.Name):
                        table[t.id] = ("var", f"{mod.name}.{t.id}", stmt.value)
            elif top and isinstance(stmt, ast.AnnAssign) and isinstance(stmt.target, ast.Name):
                table[stmt.target.id] = ("var", f"{mod.name}.{stmt.target.id}", stmt.value)
            elif top and isinstance(stmt, (ast.If, ast.Try, ast.For, ast.With)):
                # module-level compound statements: index what they define
                for sub in ast.iter_child_nodes(stmt):
                    if isinstance(sub, ast.stmt):
                        self._index_body(mod, [sub], prefix, cls, parent_fn, top=True)

    def _index_nested(self, mod: Mod, fnode: ast.AST, outer: Fn) -> None:
        def visit(node):
            for child in ast.iter_child_nodes(node):
                if isinstance(child, (ast.FunctionDef, ast.AsyncFunctionDef)):
                    qual = f"{outer.qual}.<locals>.{child.name}"
                    f = Fn(qual, child.name, child, mod, cls=None, parent=outer,
                           decorators=[ast.unparse(d) for d in child.decorator_list])
                    self.funcs[qual] = f
                    self.fn_of_node[id(child)] = f
                    self._index_nested(mod, child, f)
                elif isinstance(child, ast.ClassDef):
                    continue
                else:
                    visit(child)

        visit(fnode)

    # ---- name resolution -----------------------------------------------------------
    def local_imports(self, fn: Optional[Fn]) -> dict[str, tuple]:
        if fn is None:
            return {}
        if fn.qual in self._limp_cache:
            return self._limp_cache[fn.qual]
        table: dict[str, tuple] = {}
        self._limp_cache[fn.qual] = table
        f = fn
        chain = []
        while f is not None:
            chain.append(f)
            f = f.parent
        for f in reversed(chain):
            for n in ast.walk(f.node):
                if isinstance(n, (ast.Import, ast.ImportFrom)):
                    self._add_import_syms(f.mod, n, table)
        return table

    def resolve(self, modname: str, name: str, fn: Optional[Fn] = None, _depth=0) -> tuple:
        """-> ('class', qual) | ('func', qual) | ('var', qual, value_node) | ('module', name) | ('ext', dotted) | ('none',)"""
        if _depth > 12:
            return ("none",)
        sym = self.local_imports(fn).get(name) if fn is not None else None
        if sym is None:
            sym = self._symtab.get(modname, {}).get(name)
        if sym is None:
            return ("none",)
        if sym[0] == "from":
            base, nm = sym[1], sym[2]
            if f"{base}.{nm}" in self.mods:
                return ("module", f"{base}.{nm}")
            if base in self.mods:
                r = self.resolve(base, nm, None, _depth + 1)
                if r[0] != "none":
                    return r
                return ("ext", f"{base}.{nm}")
            return ("ext", f"{base}.{nm}")
        if sym[0] == "module":
            return ("module", sym[1])
        return sym

    def resolve_expr(self, expr: ast.expr, mod: Mod, fn: Optional[Fn] = None) -> tuple:
        """Resolve a Name / dotted Attribute expression to a symbol (no type inference)."""
        if isinstance(expr, ast.Name):
            return self.resolve(mod.name, expr.id, fn)
        if isinstance(expr, ast.Attribute):
            base = self.resolve_expr(expr.value, mod, fn)
            if base[0] == "module":
                if base[1] in self.mods:
                    r = self.resolve(base[1], expr.attr)
                    if r[0] != "none":
                        return r
                    if f"{base[1]}.{expr.attr}" in self.mods:
                        return ("module", f"{base[1]}.{expr.attr}")
                return ("ext", f"{base[1]}.{expr.attr}")
            if base[0] == "ext":
                return ("ext", f"{base[1]}.{expr.attr}")
            if base[0] == "class":
                c = self.classes[base[1]]
                m = self.find_method(c, expr.attr)
                if m is not None:
                    return ("func", m.qual)
                for k in self.mro(c):
                    if expr.attr in k.consts:
                        return ("var", f"{k.qual}.{expr.attr}", k.consts[expr.attr])
        return ("none",)

    # ---- classes -------------------------------------------------------------------
    def _resolve_bases(self) -> None:
        for c in self.classes.values():
            for b in c.base_exprs:
                r = self.resolve_expr(b, c.mod)
                if r[0] == "class":
                    c.bases.append(r[1])
                elif r[0] == "ext":
                    c.bases.append("ext:" + r[1])
                else:
                    c.bases.append("ext:" + ast.unparse(b))

    def mro(self, c: Cls) -> list[Cls]:
        if c.qual in self._mro_cache:
            return self._mro_cache[c.qual]
        seqs = [self.mro(self.classes[b])[:] for b in c.bases if b in self.classes]
        seqs.append([self.classes[b] for b in c.bases if b in self.classes])
        res = [c]
        seqs = [s for s in seqs if s]
        while seqs:
            for s in seqs:
                head = s[0]
                if not any(head in t[1:] for t in seqs):
                    break
            else:
                head = seqs[0][0]  # inconsistent hierarchy: degrade gracefully
            res.append(head)
            seqs = [[x for x in s if x != head] for s in seqs]
            seqs = [s for s in seqs if s]
        self._mro_cache[c.qual] = res
        return res

    def direct_subclasses(self, c: Cls) -> list[Cls]:
        return [k for k in self.classes.values() if c.qual in k.bases]

    def subclasses(self, c: Cls) -> list[Cls]:
        out, todo = [], [c]
        while todo:
            k = todo.pop()
            for s in self.direct_subclasses(k):
                if s not in out:
                    out.append(s)
                    todo.append(s)
        return out

    def is_subclass(self, c: Cls, of: Cls) -> bool:
        return of in self.mro(c)

    def find_method(self, c: Cls, name: str, after: Optional[Cls] = None) -> Optional[Fn]:
        mro = self.mro(c)
        if after is not None and after in mro:
            mro = mro[mro.index(after) + 1:]
        for k in mro:
            if name in k.methods:
                return k.methods[name]
        return None

    def find_setter(self, c: Cls, name: str) -> Optional[Fn]:
        for k in self.mro(c):
            if name in k.setters:
                return k.setters[name]
        return None

    def cls(self, suffix: str) -> Cls:
        """Locate a class by qualified-name suffix, e.g. 'core.models.Column'."""
        hits = [c for q, c in self.classes.items() if q == suffix or q.endswith("." + suffix)]
        if len(hits) != 1:
            raise AnalysisError(f"anchor class {suffix!r}: {len(hits)} candidates")
        return hits[0]

    def fn(self, suffix: str) -> Fn:
        hits = [f for q, f in self.funcs.items() if q == suffix or q.endswith("." + suffix)]
        if len(hits) != 1:
            raise AnalysisError(f"anchor function {suffix!r}: {len(hits)} candidates")
        return hits[0]

    def try_fn(self, suffix: str) -> Optional[Fn]:
        hits = [f for q, f in self.funcs.items() if q == suffix or q.endswith("." + suffix)]
        return hits[0] if len(hits) == 1 else None

    def try_cls(self, suffix: str) -> Optional[Cls]:
        hits = [c for q, c in self.classes.items() if q == suffix or q.endswith("." + suffix)]
        return hits[0] if len(hits) == 1 else None

    def enclosing_fn(self, node: ast.AST) -> Optional[Fn]:
        n = node
        while id(n) in self.parents:
            n = self.parents[id(n)]
            if id(n) in self.fn_of_node:
                return self.fn_of_node[id(n)]
        return None

    def enclosing_stmt(self, node: ast.AST) -> Optional[ast.stmt]:
        n = node
        while n is not None and not isinstance(n, ast.stmt):
            n = self.parents.get(id(n))
        return n

    def parent(self, node: ast.AST) -> Optional[ast.AST]:
        return self.parents.get(id(node))

    def ancestors(self, node: ast.AST) -> Iterator[ast.AST]:
        n = self.parents.get(id(node))
        while n is not None:
            yield n
            n = self.parents.get(id(n))

    # ---- constant folding ----------------------------------------------------------
    def fold(self, expr: Optional[ast.expr], mod: Mod, fn: Optional[Fn] = None, cls: Optional[Cls] = None, _d=0) -> Any:
        """Fold to a python value (str/int/bool/None/list/tuple/set/dict of such) or raise KeyError if unknown."""
        if expr is None or _d > 10:
            raise KeyError("unfoldable")
        if isinstance(expr, ast.Constant):
            return expr.value
        if isinstance(expr, (ast.List, ast.Tuple, ast.Set)):
            vals = []
            for e in expr.elts:
                if isinstance(e, ast.Starred):
                    vals.extend(self.fold(e.value, mod, fn, cls, _d + 1))
                else:
                    vals.append(self.fold(e, mod, fn, cls, _d + 1))
            return {ast.List: list, ast.Tuple: tuple, ast.Set: set}[type(expr)](vals)
        if isinstance(expr, ast.UnaryOp) and isinstance(expr.op, ast.USub):
            v = self.fold(expr.operand, mod, fn, cls, _d + 1)
            if isinstance(v, (int, float)) and not isinstance(v, bool):
                return -v
            raise KeyError("unary minus")
        if isinstance(expr, ast.BinOp) and isinstance(expr.op, ast.Add):
            left, right = self.fold(expr.left, mod, fn, cls, _d + 1), self.fold(expr.right, mod, fn, cls, _d + 1)
            return left + right
        if isinstance(expr, ast.Name):
            if cls is None and fn is not None:
                cls = fn.cls
            # function-local constant assignment (single assignment only)
            if fn is not None:
                assigns = [
                    n for n in ast.walk(fn.node)
                    if isinstance(n, ast.Assign) and any(isinstance(t, ast.Name) and t.id == expr.id for t in n.targets)
                ]
                if len(assigns) == 1:
                    return self.fold(assigns[0].value, mod, fn, cls, _d + 1)
                if assigns:
                    raise KeyError("multiple assignments")
            r = self.resolve(mod.name, expr.id, fn)
            if r[0] == "var" and r[2] is not None:
                m = self.mods[r[1].rsplit(".", 1)[0]]
                return self.fold(r[2], m, None, None, _d + 1)
            raise KeyError(expr.id)
        if isinstance(expr, ast.Attribute):
            if cls is None and fn is not None:
                cls = fn.cls
            if isinstance(expr.value, ast.Name) and expr.value.id in ("self", "cls") and cls is not None:
                for k in self.mro(cls):
                    if expr.attr in k.consts:
                        return self.fold(k.consts[expr.attr], k.mod, None, k, _d + 1)
                raise KeyError(expr.attr)
            r = self.resolve_expr(expr, mod, fn)
            if r[0] == "var" and r[2] is not None:
                owner = r[1].rsplit(".", 1)[0]
                if owner in self.classes:
                    k = self.classes[owner]
                    return self.fold(r[2], k.mod, None, k, _d + 1)
                return self.fold(r[2], self.mods[owner], None, None, _d + 1)
            raise KeyError(ast.unparse(expr))
        if isinstance(expr, ast.Call) and isinstance(expr.func, ast.Name) and expr.func.id in ("list", "tuple", "set", "frozenset") and len(expr.args) == 1:
            v = self.fold(expr.args[0], mod, fn, cls, _d + 1)
            return {"list": list, "tuple": tuple, "set": set, "frozenset": frozenset}[expr.func.id](v)
        if isinstance(expr, ast.JoinedStr):
            out = ""
            for v in expr.values:
                if isinstance(v, ast.Constant):
                    out += str(v.value)
                else:
                    raise KeyError("fstring")
            return out
        raise KeyError(type(expr).__name__)

    def try_fold(self, expr, mod, fn=None, cls=None, default=None):
        try:
            return self.fold(expr, mod, fn, cls)
        except (KeyError, TypeError, RecursionError):
            return default

    # ---- type inference ------------------------------------------------------------
    def ann_type(self, ann: Optional[ast.expr], mod: Mod, fn: Optional[Fn] = None) -> T:
        if ann is None:
            return UNKNOWN
        if isinstance(ann, ast.Constant):
            if ann.value is None:
                return NONE
            if isinstance(ann.value, str):
                try:
                    return self.ann_type(ast.parse(ann.value, mode="eval").body, mod, fn)
                except SyntaxError:
                    return UNKNOWN
            return UNKNOWN
        if isinstance(ann, ast.Name):
            simple = {"str": STR, "int": INT, "bool": BOOL, "None": NONE, "set": T("set"), "list": T("list"),
                      "dict": T("dict"), "tuple": T("tuple"), "Any": UNKNOWN, "object": UNKNOWN, "float": T("float"),
                      "bytes": T("bytes")}
            if ann.id in simple:
                return simple[ann.id]
            r = self.resolve(mod.name, ann.id, fn)
            if r[0] == "class":
                return T("inst", r[1])
            if r[0] == "ext":
                return T("ext", r[1])
            if r[0] == "none" and fn is not None and fn.cls is not None and ann.id == fn.cls.name:
                return T("inst", fn.cls.qual)
            # class defined in same module but referenced before definition / same-named
            q = f"{mod.name}.{ann.id}"
            if q in self.classes:
                return T("inst", q)
            return UNKNOWN
        if isinstance(ann, ast.Attribute):
            r = self.resolve_expr(ann, mod, fn)
            if r[0] == "class":
                return T("inst", r[1])
            if r[0] == "ext":
                return T("ext", r[1])
            return UNKNOWN
        if isinstance(ann, ast.BinOp) and isinstance(ann.op, ast.BitOr):
            return union(self.ann_type(ann.left, mod, fn), self.ann_type(ann.right, mod, fn))
        if isinstance(ann, ast.Subscript):
            head = ast.unparse(ann.value).split(".")[-1]
            sl = ann.slice
            elts = list(sl.elts) if isinstance(sl, ast.Tuple) else [sl]
            if head == "Optional":
                return union(self.ann_type(elts[0], mod, fn), NONE)
            if head == "Union":
                return union(*[self.ann_type(e, mod, fn) for e in elts])
            if head in ("set", "Set", "frozenset", "list", "List", "Iterable", "Iterator", "Sequence", "Generator"):
                k = {"set": "set", "Set": "set", "frozenset": "set", "list": "list", "List": "list"}.get(head, "iter")
                return T(k, args=(self.ann_type(elts[0], mod, fn),))
            if head in ("dict", "Dict", "Mapping", "OrderedDict"):
                if len(elts) == 2:
                    return T("dict", args=(self.ann_type(elts[0], mod, fn), self.ann_type(elts[1], mod, fn)))
                return T("dict")
            if head in ("tuple", "Tuple"):
                if len(elts) == 2 and isinstance(elts[1], ast.Constant) and elts[1].value is Ellipsis:
                    return T("list", args=(self.ann_type(elts[0], mod, fn),))
                return T("tuple", args=tuple(self.ann_type(e, mod, fn) for e in elts))
            if head == "type":
                t = self.ann_type(elts[0], mod, fn)
                if t.kind == "inst":
                    return T("cls", t.name)
            return UNKNOWN
        return UNKNOWN

    def attr_type(self, c: Cls, attr: str, _mixin=True) -> T:
        """Declared / inferred type of instance attribute `attr` of class c."""
        t = self._attr_type(c, attr)
        if t.kind == "unknown" and _mixin:
            # mixin pattern: the attribute is provided by a class the mixin is combined with
            ts = [self._attr_type(s, attr) for s in self.subclasses(c)]
            ts = [x for x in ts if x.kind != "unknown"]
            if ts:
                return union(*ts)
        return t

    def _attr_type(self, c: Cls, attr: str) -> T:
        for k in self.mro(c):
            if attr in k.annots:
                return self.ann_type(k.annots[attr], k.mod)
            m = k.methods.get(attr)
            if m is not None and m.kind == "property":
                return self.return_type(m)
            akey = (k.qual, attr)
            if akey in self._inferring:
                continue
            self._inferring.add(akey)
            try:
                ts = []
                # __init__ first, then any other method storing self.<attr>
                order = sorted(k.methods.values(), key=lambda m: (m.name != "__init__", m.name))
                for meth in order:
                    for n in ast.walk(meth.node):
                        if isinstance(n, ast.Assign):
                            for t in n.targets:
                                if isinstance(t, ast.Attribute) and isinstance(t.value, ast.Name) and t.value.id == "self" and t.attr == attr:
                                    ti = self.infer(n.value, meth)
                                    if ti.kind != "unknown":
                                        ts.append(ti)
                    if ts and meth.name == "__init__" and not any(x.kind in ("list", "dict", "set") and not x.args for x in ts):
                        break
            finally:
                self._inferring.discard(akey)
            if ts:
                # an empty-literal initialisation ([], {}) is refined by the other stores
                full = [x for x in ts if not (x.kind in ("list", "dict", "set") and not x.args)]
                return union(*(full or ts))
            if attr in k.consts:
                return self.infer(k.consts[attr], None, mod=k.mod)
        return UNKNOWN

    def return_type(self, f: Fn) -> T:
        if f.qual in self._ret_cache:
            return self._ret_cache[f.qual]
        self._ret_cache[f.qual] = UNKNOWN  # recursion guard
        t = UNKNOWN
        if isinstance(f.node, (ast.FunctionDef, ast.AsyncFunctionDef)):
            if f.node.returns is not None:
                t = self.ann_type(f.node.returns, f.mod, f)
            if t.kind == "unknown":
                rets = [n for n in ast.walk(f.node) if isinstance(n, ast.Return) and n.value is not None and self.enclosing_fn(n) is f]
                ts = [self.infer(r.value, f) for r in rets]
                ts = [x for x in ts if x.kind != "unknown"]
                if ts:
                    t = union(*ts)
        self._ret_cache[f.qual] = t
        return t

    def local_defs(self, fn: Fn, name: str) -> list[tuple[str, ast.AST]]:
        """All binding sites of local `name` in fn (not nested functions): (kind, node)."""
        if fn.qual not in self._defs_cache:
            self._defs_cache[fn.qual] = self._all_local_defs(fn)
        return self._defs_cache[fn.qual].get(name, [])

    def _all_local_defs(self, fn: Fn) -> dict[str, list[tuple[str, ast.AST]]]:
        table: dict[str, list[tuple[str, ast.AST]]] = {}

        class _Out:
            def append(self, item_with_name):
                nm, item = item_with_name
                table.setdefault(nm, []).append(item)

        out = _Out()

        def targets(t, value_kind, node):
            if isinstance(t, ast.Name):
                out.append((t.id, (value_kind, node)))
            elif isinstance(t, (ast.Tuple, ast.List)):
                for i, e in enumerate(t.elts):
                    if isinstance(e, ast.Starred):
                        e = e.value
                    if isinstance(e, ast.Name):
                        out.append((e.id, (f"unpack:{i}", node)))
                    elif isinstance(e, (ast.Tuple, ast.List)):
                        targets(e, "unpack:nested", node)

        for n in self.walk_fn(fn):
            if isinstance(n, ast.Assign):
                for t in n.targets:
                    targets(t, "assign", n)
            elif isinstance(n, ast.AnnAssign):
                targets(n.target, "annassign", n)
            elif isinstance(n, ast.AugAssign):
                targets(n.target, "augassign", n)
            elif isinstance(n, ast.NamedExpr):
                targets(n.target, "walrus", n)
            elif isinstance(n, (ast.For, ast.AsyncFor)):
                targets(n.target, "for", n)
            elif isinstance(n, ast.comprehension):
                targets(n.target, "comp", n)
            elif isinstance(n, (ast.With, ast.AsyncWith)):
                for it in n.items:
                    if it.optional_vars is not None:
                        targets(it.optional_vars, "with", it)
            elif isinstance(n, ast.ExceptHandler) and n.name:
                out.append((n.name, ("except", n)))
        return table

    def value_sources(self, fn: Fn, expr: ast.AST, _depth: int = 0, _seen: Optional[set] = None) -> list[ast.AST]:
        """Expressions whose value may become the value of `expr` (flow-insensitive, intra-procedural after normalisation): follows local
        names through every definition, tuple packing / unpacking, walrus, conditional and `or` expressions.  Loop / comprehension targets
        yield the iterated expression wrapped as ('elem', iter).  Never follows calls."""
        seen = _seen if _seen is not None else set()
        if _depth > 12 or id(expr) in seen:
            return []
        seen.add(id(expr))
        if isinstance(expr, ast.NamedExpr):
            return self.value_sources(fn, expr.value, _depth + 1, seen)
        if isinstance(expr, ast.IfExp):
            return self.value_sources(fn, expr.body, _depth + 1, seen) + self.value_sources(fn, expr.orelse, _depth + 1, seen)
        if isinstance(expr, ast.BoolOp):
            out: list[ast.AST] = []
            for v in expr.values:
                out += self.value_sources(fn, v, _depth + 1, seen)
            return out
        if isinstance(expr, ast.Name):
            f: Optional[Fn] = fn
            defs = []
            while f is not None:
                defs = self.local_defs(f, expr.id)
                if defs or expr.id in f.params():
                    break
                f = f.parent
            if not defs or f is None:
                return [expr]
            out = []
            for kind, node in defs:
                if kind in ("assign", "walrus", "annassign") and getattr(node, "value", None) is not None:
                    out += self.value_sources(f, node.value, _depth + 1, seen)
                elif kind.startswith("unpack:") and isinstance(node, ast.Assign) and kind != "unpack:nested":
                    i = int(kind.split(":")[1])
                    for src in self.value_sources(f, node.value, _depth + 1, seen):
                        if isinstance(src, (ast.Tuple, ast.List)) and i < len(src.elts) and not any(isinstance(e, ast.Starred) for e in src.elts):
                            out += self.value_sources(f, src.elts[i], _depth + 1, seen)
                        else:
                            out.append(ast.Subscript(value=src, slice=ast.Constant(value=i), ctx=ast.Load()))
                else:
                    out.append(node)
            if expr.id in f.params():
                out.append(expr)
            return out
        return [expr]

    def influences(self, fn: Fn, expr: ast.AST, _seen: Optional[set] = None) -> Iterator[ast.AST]:
        """Every AST node the value of `expr` may be computed from inside `fn`: the nodes of `expr` and, transitively, of the
        definitions of the local names it mentions (flow-insensitive)."""
        seen = _seen if _seen is not None else set()
        for n in ast.walk(expr):
            if id(n) in seen:
                continue
            seen.add(id(n))
            yield n
            if isinstance(n, ast.Name) and isinstance(n.ctx, ast.Load):
                for kind, node in self.local_defs(fn, n.id):
                    src = getattr(node, "value", None) if kind in ("assign", "walrus", "annassign", "augassign") or kind.startswith("unpack") else getattr(node, "iter", None) or getattr(node, "context_expr", None)
                    if src is not None and id(src) not in seen:
                        yield from self.influences(fn, src, seen)
                for src in self.local_mutations(fn).get(n.id, []):  # x.append(e) / x.extend(e) / x[k] = e feed x as well
                    if id(src) not in seen:
                        yield from self.influences(fn, src, seen)

    MUTATORS = ("append", "extend", "insert", "add", "update", "setdefault", "appendleft", "extendleft")

    def local_mutations(self, fn: Fn) -> dict[str, list[ast.AST]]:
        """local name -> expressions stored into the container it names by in-place mutation inside fn."""
        key = ("mut", fn.qual)
        if key not in self._defs_cache:
            table: dict[str, list[ast.AST]] = {}
            for n in self.walk_fn(fn):
                if isinstance(n, ast.Call) and isinstance(n.func, ast.Attribute) and n.func.attr in self.MUTATORS and isinstance(n.func.value, ast.Name):
                    table.setdefault(n.func.value.id, []).extend(list(n.args) + [kw.value for kw in n.keywords])
                elif isinstance(n, ast.Subscript) and isinstance(n.ctx, ast.Store) and isinstance(n.value, ast.Name):
                    st = self.enclosing_stmt(n)
                    if isinstance(st, (ast.Assign, ast.AugAssign)):
                        table.setdefault(n.value.id, []).extend([st.value, n.slice])
            self._defs_cache[key] = table
        return self._defs_cache[key]

    def walk_fn(self, fn: Fn) -> Iterator[ast.AST]:
        """Walk the body of fn without descending into nested function / class definitions."""
        todo = list(ast.iter_child_nodes(fn.node))
        while todo:
            n = todo.pop()
            if _is_marker(n):  # synthetic jump of an absorbed helper (normalise.py): only its real content is visible to rules
                if isinstance(n, ast.Try):
                    todo.extend(n.body)
                continue
            yield n
            if isinstance(n, (ast.FunctionDef, ast.AsyncFunctionDef, ast.ClassDef)):
                continue
            # (a lambda is an expression of this function: what it compares, subscripts or calls is decided here - only `def`s are units of their own)
            todo.extend(ast.iter_child_nodes(n))

    def param_type(self, fn: Fn, name: str) -> Optional[T]:
        a = fn.node.args
        allp = a.posonlyargs + a.args + a.kwonlyargs
        for i, p in enumerate(allp):
            if p.arg == name:
                if i == 0 and fn.cls is not None and fn.kind in ("method", "property", "setter") and p.annotation is None:
                    return T("inst", fn.cls.qual)
                if i == 0 and fn.cls is not None and fn.kind == "classmethod" and p.annotation is None:
                    return T("cls", fn.cls.qual)
                return self.ann_type(p.annotation, fn.mod, fn)
        if a.vararg and a.vararg.arg == name:
            return T("list", args=(self.ann_type(a.vararg.annotation, fn.mod, fn),))
        if a.kwarg and a.kwarg.arg == name:
            return T("dict", args=(STR, self.ann_type(a.kwarg.annotation, fn.mod, fn)))
        return None

    def infer(self, expr: ast.expr, fn: Optional[Fn], mod: Optional[Mod] = None, _d=0) -> T:
        key = (id(expr), fn.qual if fn is not None else None)
        if key in self._infer_cache:
            return self._infer_cache[key]
        n_inflight = len(self._inferring)
        t = self._infer(expr, fn, mod, _d)
        if n_inflight == 0 and id(expr) in self.parents:
            # only cache results computed outside of a cyclic-definition cut, and only for nodes of the tree
            self._infer_cache[key] = t
        return t

    def _infer(self, expr: ast.expr, fn: Optional[Fn], mod: Optional[Mod] = None, _d=0) -> T:
        if mod is None:
            mod = fn.mod if fn is not None else None
        if expr is None or mod is None or _d > 8:
            return UNKNOWN
        if hasattr(expr, "_ann") and fn is not None:  # an expression that stands for an annotated temporary / helper result (normalise.py)
            t_ann = self.ann_type(expr._ann, fn.mod, fn)
            if t_ann.kind != "unknown":
                return t_ann
        if isinstance(expr, ast.Constant):
            v = expr.value
            return NONE if v is None else BOOL if isinstance(v, bool) else STR if isinstance(v, str) else INT if isinstance(v, int) else UNKNOWN
        if isinstance(expr, ast.JoinedStr):
            return STR
        if isinstance(expr, ast.NamedExpr):
            return self.infer(expr.value, fn, mod, _d + 1)
        if isinstance(expr, ast.Name):
            if fn is not None:
                f: Optional[Fn] = fn
                while f is not None:
                    pt = self.param_type(f, expr.id)
                    if pt is not None:
                        return pt
                    defs = self.local_defs(f, expr.id)
                    if defs and f is fn:
                        # a comprehension variable is scoped to its comprehension: only the binding of the enclosing one counts
                        for anc in self.ancestors(expr):
                            if isinstance(anc, (ast.ListComp, ast.SetComp, ast.DictComp, ast.GeneratorExp)):
                                own = [(k_, n_) for k_, n_ in defs if k_ in ("comp",) or k_.startswith("unpack")
                                       if any(n_ is g for g in anc.generators)]
                                if own:
                                    defs = own
                                    break
                            if isinstance(anc, (ast.FunctionDef, ast.AsyncFunctionDef, ast.Lambda)):
                                break
                    if defs:
                        key = (f.qual, expr.id)
                        if key in self._inferring:
                            return UNKNOWN  # cyclic definition (x = f(x)): the other definitions decide
                        self._inferring.add(key)
                        try:
                            ts = []
                            for kind, node in defs:
                                ts.append(self._def_type(kind, node, f, _d + 1))
                        finally:
                            self._inferring.discard(key)
                        ts = [t for t in ts if t.kind != "unknown"]
                        return union(*ts) if ts else UNKNOWN
                    f = f.parent
            r = self.resolve(mod.name, expr.id, fn)
            if r[0] == "class":
                return T("cls", r[1])
            if r[0] == "func":
                return T("func", r[1])
            if r[0] == "module":
                return T("module", r[1])
            if r[0] == "ext":
                return T("ext", r[1])
            if r[0] == "var":
                m = self.mods.get(r[1].rsplit(".", 1)[0])
                if m is not None and r[2] is not None:
                    return self.infer(r[2], None, m, _d + 1)
            if expr.id in ("set", "list", "dict", "tuple", "str", "int", "bool", "frozenset"):
                return T("ext", "builtins." + expr.id)
            return UNKNOWN
        if isinstance(expr, ast.Attribute):
            base = self.infer(expr.value, fn, mod, _d + 1)
            ts = []
            for b in base.alts():
                if b.kind == "inst" and b.name in self.classes:
                    ts.append(self.attr_type(self.classes[b.name], expr.attr))
                elif b.kind == "cls" and b.name in self.classes:
                    c = self.classes[b.name]
                    m = self.find_method(c, expr.attr)
                    if m is not None:
                        ts.append(T("func", m.qual))
                    else:
                        for k in self.mro(c):
                            if expr.attr in k.consts:
                                ts.append(self.infer(k.consts[expr.attr], None, k.mod, _d + 1))
                                break
                elif b.kind == "module":
                    r = self.resolve_expr(expr, mod, fn)
                    if r[0] == "class":
                        ts.append(T("cls", r[1]))
                    elif r[0] == "func":
                        ts.append(T("func", r[1]))
                    elif r[0] == "ext":
                        ts.append(T("ext", r[1]))
                elif b.kind == "ext":
                    ts.append(T("ext", f"{b.name}.{expr.attr}"))
            return union(*ts) if ts else UNKNOWN
        if isinstance(expr, ast.Call):
            return self._call_type(expr, fn, mod, _d + 1)
        if isinstance(expr, (ast.List, ast.ListComp)):
            if isinstance(expr, ast.List) and expr.elts:
                return T("list", args=(union(*[self.infer(e, fn, mod, _d + 1) for e in expr.elts[:4]]),))
            if isinstance(expr, ast.ListComp):
                return T("list", args=(self.infer(expr.elt, fn, mod, _d + 1),))
            return T("list")
        if isinstance(expr, (ast.Set, ast.SetComp)):
            if isinstance(expr, ast.SetComp):
                return T("set", args=(self.infer(expr.elt, fn, mod, _d + 1),))
            return T("set", args=(union(*[self.infer(e, fn, mod, _d + 1) for e in expr.elts[:4]]),))
        if isinstance(expr, (ast.Dict, ast.DictComp)):
            if isinstance(expr, ast.DictComp):
                return T("dict", args=(self.infer(expr.key, fn, mod, _d + 1), self.infer(expr.value, fn, mod, _d + 1)))
            return T("dict")
        if isinstance(expr, ast.Tuple):
            return T("tuple", args=tuple(self.infer(e, fn, mod, _d + 1) for e in expr.elts))
        if isinstance(expr, ast.GeneratorExp):
            return T("iter", args=(self.infer(expr.elt, fn, mod, _d + 1),))
        if isinstance(expr, ast.IfExp):
            return union(self.infer(expr.body, fn, mod, _d + 1), self.infer(expr.orelse, fn, mod, _d + 1))
        if isinstance(expr, ast.BoolOp):
            return union(*[self.infer(v, fn, mod, _d + 1) for v in expr.values])
        if isinstance(expr, ast.Compare):
            return BOOL
        if isinstance(expr, ast.UnaryOp) and isinstance(expr.op, ast.Not):
            return BOOL
        if isinstance(expr, ast.BinOp):
            lt = self.infer(expr.left, fn, mod, _d + 1)
            if isinstance(expr.op, (ast.BitOr, ast.BitAnd, ast.Sub, ast.Add)) and lt.kind in ("set", "dict", "list", "str"):
                return lt
            if lt.kind == "inst":
                c = self.classes.get(lt.name)
                opname = {ast.BitOr: "__or__", ast.Add: "__add__"}.get(type(expr.op))
                if c is not None and opname:
                    m = self.find_method(c, opname)
                    if m is not None:
                        rt = self.return_type(m)
                        return rt if rt.kind != "unknown" else lt
            return UNKNOWN
        if isinstance(expr, ast.Subscript):
            base = self.infer(expr.value, fn, mod, _d + 1)
            if isinstance(expr.slice, ast.Slice):
                return base
            if base.kind == "dict" and len(base.args) == 2:
                return base.args[1]
            if base.kind == "tuple" and base.args:
                idx = self.try_fold(expr.slice, mod, fn)
                if isinstance(idx, int) and -len(base.args) <= idx < len(base.args):
                    return base.args[idx]
                return union(*base.args)
            if base.kind in ("list", "iter") and base.args:
                return base.args[0]
            return UNKNOWN
        if isinstance(expr, ast.Starred):
            return self.infer(expr.value, fn, mod, _d + 1)
        return UNKNOWN

    def _def_type(self, kind: str, node: ast.AST, fn: Fn, _d: int) -> T:
        if kind == "annassign":
            return self.ann_type(node.annotation, fn.mod, fn)
        if kind == "assign" and hasattr(node, "_ann"):
            return self.ann_type(node._ann, fn.mod, fn)
        if kind in ("assign", "walrus"):
            return self.infer(node.value, fn, fn.mod, _d)
        if kind == "augassign":
            return self.infer(node.value, fn, fn.mod, _d)
        if kind in ("for", "comp"):
            it = self.infer(node.iter, fn, fn.mod, _d)
            # enumerate / zip / items handled in _call_type via 'iter' of tuples
            return it.elem()
        if kind.startswith("unpack:"):
            idx = kind.split(":")[1]
            src = None
            if isinstance(node, (ast.Assign,)):
                src = self.infer(node.value, fn, fn.mod, _d)
            elif isinstance(node, (ast.For, ast.comprehension)):
                src = self.infer(node.iter, fn, fn.mod, _d).elem()
            if src is not None and idx.isdigit():
                i = int(idx)
                for a in src.alts():
                    if a.kind == "tuple" and i < len(a.args):
                        return a.args[i]
                    if a.kind == "inst" and a.name in self.classes:
                        # NamedTuple unpacking: i-th annotated field
                        c = self.classes[a.name]
                        fields = [s for s in c.node.body if isinstance(s, ast.AnnAssign) and isinstance(s.target, ast.Name)]
                        if i < len(fields):
                            return self.ann_type(fields[i].annotation, c.mod)
            return UNKNOWN
        if kind == "with":
            t = self.infer(node.context_expr, fn, fn.mod, _d)
            for a in t.alts():
                if a.kind == "inst" and a.name in self.classes:
                    m = self.find_method(self.classes[a.name], "__enter__")
                    if m is not None:
                        rt = self.return_type(m)
                        if rt.kind != "unknown":
                            return rt
                        # `return self`
                        for r in ast.walk(m.node):
                            if isinstance(r, ast.Return) and isinstance(r.value, ast.Name) and r.value.id == "self":
                                return a
            return UNKNOWN
        return UNKNOWN

    def _call_type(self, call: ast.Call, fn: Optional[Fn], mod: Mod, _d: int) -> T:
        f = call.func
        if isinstance(f, ast.Name):
            nm = f.id
            if nm in ("set", "frozenset", "list", "sorted", "tuple", "reversed"):
                kind = {"set": "set", "frozenset": "set", "tuple": "list", "reversed": "iter"}.get(nm, "list")
                if call.args:
                    return T(kind, args=(self.infer(call.args[0], fn, mod, _d).elem(),))
                return T(kind)
            if nm == "dict":
                return T("dict")
            if nm in ("str", "repr"):
                return STR
            if nm in ("len", "int", "hash", "id", "sum"):
                return INT
            if nm in ("bool", "isinstance", "any", "all", "hasattr", "callable"):
                return BOOL
            if nm == "enumerate" and call.args:
                return T("iter", args=(T("tuple", args=(INT, self.infer(call.args[0], fn, mod, _d).elem())),))
            if nm == "zip":
                return T("iter", args=(T("tuple", args=tuple(self.infer(a, fn, mod, _d).elem() for a in call.args)),))
            if nm in ("iter",) and call.args:
                return T("iter", args=(self.infer(call.args[0], fn, mod, _d).elem(),))
            if nm == "next" and call.args:
                return self.infer(call.args[0], fn, mod, _d).elem()
            if nm == "getattr" and len(call.args) >= 2:
                a = self.try_fold(call.args[1], mod, fn)
                if isinstance(a, str):
                    t = self.infer(ast.Attribute(value=call.args[0], attr=a, ctx=ast.Load()), fn, mod, _d)
                    if len(call.args) == 3:
                        t = union(t, self.infer(call.args[2], fn, mod, _d))
                    return t
                return UNKNOWN
            if nm == "open":
                return T("ext", "io.TextIOWrapper")
            if nm == "super":
                return T("super", fn.cls.qual if fn is not None and fn.cls is not None else "")
        if isinstance(f, ast.Attribute) and f.attr == "__subclasses__":
            base = self.infer(f.value, fn, mod, _d)
            subs = []
            for b in base.alts():
                if b.kind == "cls" and b.name in self.classes:
                    subs += [T("cls", k.qual) for k in self.direct_subclasses(self.classes[b.name])]
            if subs:
                return T("list", args=(union(*subs),))
        ft = self.infer(f, fn, mod, _d) if isinstance(f, (ast.Name, ast.Attribute, ast.IfExp)) else UNKNOWN
        ctor = [T("inst", a.name) for a in ft.alts() if a.kind == "cls" and a.name in self.classes]
        if ctor and len(ctor) == len(ft.alts()):
            return union(*ctor)
        callees = self.resolve_call(call, fn, mod)
        ts = []
        for c in callees:
            if isinstance(c, Cls):
                ts.append(T("inst", c.qual))
            elif isinstance(c, Fn):
                if c.name == "__init__" and c.cls is not None and not (isinstance(f, ast.Attribute) and f.attr == "__init__"):
                    ts.append(T("inst", c.cls.qual))
                else:
                    rt = self.return_type(c)
                    if rt.kind != "unknown":
                        ts.append(rt)
        if ts:
            return union(*ts)
        # methods of builtin containers
        if isinstance(f, ast.Attribute):
            base = self.infer(f.value, fn, mod, _d)
            for b in base.alts():
                if b.kind == "dict":
                    if f.attr in ("get", "pop", "setdefault") and len(b.args) == 2:
                        dflt = self.infer(call.args[1], fn, mod, _d) if len(call.args) > 1 else NONE
                        return union(b.args[1], dflt)
                    if f.attr == "values" and len(b.args) == 2:
                        return T("iter", args=(b.args[1],))
                    if f.attr == "keys" and b.args:
                        return T("iter", args=(b.args[0],))
                    if f.attr == "items" and len(b.args) == 2:
                        return T("iter", args=(T("tuple", args=b.args),))
                    if f.attr == "copy":
                        return b
                if b.kind == "set" and f.attr in ("union", "intersection", "difference", "copy", "symmetric_difference"):
                    return b
                if b.kind in ("set", "list") and f.attr == "pop":
                    return b.elem()
                if b.kind == "list" and f.attr == "copy":
                    return b
                if b.kind == "str":
                    if f.attr in ("split", "rsplit", "splitlines"):
                        return T("list", args=(STR,))
                    if f.attr in ("startswith", "endswith", "isnumeric", "isdigit"):
                        return BOOL
                    return STR
        return UNKNOWN

    # ---- call resolution -----------------------------------------------------------
    def resolve_call(self, call: ast.Call, fn: Optional[Fn], mod: Optional[Mod] = None) -> list:
        """-> list of Fn (methods/functions; constructors resolve to Cls.__init__ Fn or the Cls itself) ; [] if foreign/unknown."""
        if mod is None:
            mod = fn.mod
        f = call.func
        out: list = []
        if isinstance(f, ast.IfExp):  # (A if c else B)(...): either callee
            for branch in (f.body, f.orelse):
                alt = ast.copy_location(ast.Call(func=branch, args=call.args, keywords=call.keywords), call)
                for c in self.resolve_call(alt, fn, mod):
                    if c not in out:
                        out.append(c)
            return out
        if isinstance(f, ast.Name):
            # local variable holding a class / function?
            t = self.infer(f, fn, mod)
            for a in t.alts():
                if a.kind == "cls" and a.name in self.classes:
                    c = self.classes[a.name]
                    init = self.find_method(c, "__init__")
                    out.append(init if init is not None else c)
                    # a parameter annotated type[Base] can hold any subclass
                    if fn is not None and self.param_type(fn, f.id) is not None:
                        for s in self.subclasses(c):
                            i2 = self.find_method(s, "__init__")
                            if i2 is not None and i2 not in out:
                                out.append(i2)
                elif a.kind == "func" and a.name in self.funcs:
                    out.append(self.funcs[a.name])
            if not out and fn is not None:
                # nested function defined in an enclosing function
                p: Optional[Fn] = fn
                while p is not None:
                    q = f"{p.qual}.<locals>.{f.id}"
                    if q in self.funcs:
                        out.append(self.funcs[q])
                        break
                    p = p.parent
            return out
        if isinstance(f, ast.Attribute):
            # super().m(...)
            if isinstance(f.value, ast.Call) and isinstance(f.value.func, ast.Name) and f.value.func.id == "super" and fn is not None:
                owner = fn.cls or (fn.parent.cls if fn.parent else None)
                if owner is not None:
                    m = self.find_method(owner, f.attr, after=owner)
                    # for mixins the runtime MRO may differ; also consider every subclass' MRO
                    cands = [m] if m is not None else []
                    for s in self.subclasses(owner):
                        m2 = self.find_method(s, f.attr, after=owner)
                        if m2 is not None and m2 not in cands:
                            cands.append(m2)
                    return cands
                return []
            base = self.infer(f.value, fn, mod)
            for b in base.alts():
                if b.kind in ("inst", "cls") and b.name in self.classes:
                    c = self.classes[b.name]
                    m = self.find_method(c, f.attr)
                    if m is not None:
                        if m not in out:
                            out.append(m)
                    # class hierarchy analysis: the receiver may be any subclass
                    recv_is_self = isinstance(f.value, ast.Name) and f.value.id in ("self", "cls")
                    if b.kind == "inst" or recv_is_self:
                        for s in self.subclasses(c):
                            m2 = self.find_method(s, f.attr)
                            if m2 is not None and m2 not in out:
                                out.append(m2)
                    if m is None and b.kind == "cls" and f.attr == "__subclasses__":
                        pass
                elif b.kind == "module":
                    r = self.resolve_expr(f, mod, fn)
                    if r[0] == "func":
                        out.append(self.funcs[r[1]])
                    elif r[0] == "class":
                        c = self.classes[r[1]]
                        init = self.find_method(c, "__init__")
                        out.append(init if init is not None else c)
            if not out and all(a.kind in ("unknown", "none") for a in base.alts()) and any(a.kind == "unknown" for a in base.alts()):
                # receiver of unknown type: resolve by method name over the whole package (over-approximation)
                cands = [
                    m for c in self.classes.values() for n, m in c.methods.items()
                    if n == f.attr and m.kind not in ("property", "setter")
                ]
                if cands and not f.attr.startswith("__"):
                    self.byname_sites.add(id(call))
                    out.extend(cands)
            return out
        if isinstance(f, ast.Call):
            # e.g. extractor_cls(args).extract(...) handled above through infer; f()(..) -> decorators
            t = self.infer(f, fn, mod)
            for a in t.alts():
                if a.kind == "func" and a.name in self.funcs:
                    out.append(self.funcs[a.name])
            return out
        return out

    def property_getters(self, attr: ast.Attribute, fn: Optional[Fn], mod: Optional[Mod] = None) -> list[Fn]:
        """If attribute access resolves to @property getter(s) (or __getattr__), return them."""
        if mod is None:
            mod = fn.mod
        out: list[Fn] = []
        base = self.infer(attr.value, fn, mod)
        for b in base.alts():
            if b.kind == "inst" and b.name in self.classes:
                c = self.classes[b.name]
                found = False
                for k in [c] + self.subclasses(c):
                    m = self.find_method(k, attr.attr)
                    if m is not None:
                        found = True
                        if m.kind == "property" and m not in out:
                            out.append(m)
                if not found and self.attr_type(c, attr.attr).kind == "unknown":
                    ga = self.find_method(c, "__getattr__")
                    if ga is not None and not self._has_instance_attr(c, attr.attr):
                        out.append(ga)
        return out

    def _has_instance_attr(self, c: Cls, attr: str) -> bool:
        for k in self.mro(c):
            if attr in k.annots or attr in k.consts or attr in k.methods:
                return True
            for m in k.methods.values():
                for n in ast.walk(m.node):
                    if isinstance(n, ast.Attribute) and isinstance(n.ctx, ast.Store) and isinstance(n.value, ast.Name) and n.value.id == "self" and n.attr == attr:
                        return True
        return False

    # ---- call graph ----------------------------------------------------------------
    def build_callgraph(self) -> nx.DiGraph:
        """Nodes: function quals + '<module>:<name>' for import-time code. Edge attr 'sites' = list of ast nodes."""
        if getattr(self, "_cg", None) is not None:
            return self._cg
        g = nx.DiGraph()
        stats = {"calls": 0, "resolved": 0, "foreign": 0, "unresolved": []}

        def add(src: str, callee, site):
            q = callee.qual
            if g.has_edge(src, q):
                g[src][q]["sites"].append(site)
            else:
                g.add_edge(src, q, sites=[site])

        def scan(nodes: Iterable[ast.AST], src: str, fn: Optional[Fn], mod: Mod):
            g.add_node(src)
            for n in nodes:
                if isinstance(n, ast.Call):
                    stats["calls"] += 1
                    callees = self.resolve_call(n, fn, mod)
                    if callees:
                        stats["resolved"] += 1
                        for c in callees:
                            if isinstance(c, Fn):
                                add(src, c, n)
                            elif isinstance(c, Cls):
                                pass
                    else:
                        if self._is_repo_call_candidate(n, fn, mod):
                            stats["unresolved"].append(f"{mod.path}:{n.lineno} {ast.unparse(n.func)}")
                        else:
                            stats["foreign"] += 1
                    # constructor calls also run __init__ of the class; dunder __call__ on instances
                    t = self.infer(n.func, fn, mod)
                    for a in t.alts():
                        if a.kind == "inst" and a.name in self.classes:
                            m = self.find_method(self.classes[a.name], "__call__")
                            if m is not None:
                                add(src, m, n)
                elif isinstance(n, ast.Attribute) and isinstance(n.ctx, ast.Load):
                    for m in self.property_getters(n, fn, mod):
                        add(src, m, n)
                elif isinstance(n, ast.Attribute) and isinstance(n.ctx, ast.Store):
                    base = self.infer(n.value, fn, mod)
                    for b in base.alts():
                        if b.kind == "inst" and b.name in self.classes:
                            s = self.find_setter(self.classes[b.name], n.attr)
                            if s is not None:
                                add(src, s, n)
                            sa = self.find_method(self.classes[b.name], "__setattr__")
                            if sa is not None:
                                add(src, sa, n)
                elif isinstance(n, (ast.With, ast.AsyncWith)):
                    for it in n.items:
                        t = self.infer(it.context_expr, fn, mod)
                        for a in t.alts():
                            if a.kind == "inst" and a.name in self.classes:
                                for dn in ("__enter__", "__exit__"):
                                    m = self.find_method(self.classes[a.name], dn)
                                    if m is not None:
                                        add(src, m, it.context_expr)
                elif isinstance(n, ast.BinOp) and isinstance(n.op, ast.BitOr) or isinstance(n, ast.AugAssign) and isinstance(n.op, ast.BitOr):
                    left = n.left if isinstance(n, ast.BinOp) else n.target
                    t = self.infer(left, fn, mod)
                    for a in t.alts():
                        if a.kind == "inst" and a.name in self.classes:
                            m = self.find_method(self.classes[a.name], "__or__")
                            if m is not None:
                                add(src, m, n)

        for f in self.funcs.values():
            scan(self.walk_fn(f), f.qual, f, f.mod)
            # default-argument expressions and decorators run at definition (import) time: attribute to definer
        for mod in self.mods.values():
            scan(self.import_time_nodes(mod), f"<module>:{mod.name}", None, mod)
        self._cg = g
        self.cg_stats = stats
        return g

    def _is_repo_call_candidate(self, call: ast.Call, fn: Optional[Fn], mod: Mod) -> bool:
        """A call that names a method some repo class defines but that we could not resolve."""
        f = call.func
        if isinstance(f, ast.Attribute):
            base = self.infer(f.value, fn, mod)
            if base.kind in ("ext", "str", "list", "set", "dict", "tuple", "int", "bool", "iter", "module", "none"):
                return False
            if base.kind == "union" and all(a.kind in ("ext", "str", "list", "set", "dict", "tuple", "none") for a in base.alts()):
                return False
            if base.kind == "super":
                return False
            return any(f.attr in c.methods and c.methods[f.attr].kind not in ("property", "setter") for c in self.classes.values())
        return False

    def import_time_nodes(self, mod: Mod) -> Iterator[ast.AST]:
        """All AST nodes evaluated when the module is imported: top-level statements, class bodies,
        decorator expressions and default-argument expressions (not function bodies)."""

        def visit(node):
            for child in ast.iter_child_nodes(node):
                if isinstance(child, (ast.FunctionDef, ast.AsyncFunctionDef)):
                    for d in child.decorator_list:
                        yield d
                        yield from ast.walk(d)
                    for d in list(child.args.defaults) + [x for x in child.args.kw_defaults if x is not None]:
                        yield from ast.walk(d)
                    continue
                if isinstance(child, ast.Lambda):
                    for d in list(child.args.defaults) + [x for x in child.args.kw_defaults if x is not None]:
                        yield from ast.walk(d)
                    continue
                yield child
                yield from visit(child)

        yield from visit(mod.tree)

    def reachable_from(self, srcs: Iterable[str]) -> set[str]:
        g = self.build_callgraph()
        seen: set[str] = set()
        todo = [s for s in srcs if s in g]
        while todo:
            s = todo.pop()
            if s in seen:
                continue
            seen.add(s)
            todo.extend(g.successors(s))
        return seen

    def call_path(self, src: str, dst: str) -> Optional[list[str]]:
        g = self.build_callgraph()
        if src not in g or dst not in g:
            return None
        try:
            return nx.shortest_path(g, src, dst)
        except nx.NetworkXNoPath:
            return None


def loc(mod: Mod, node: ast.AST) -> str:
    return f"{mod.path}:{getattr(node, 'lineno', 0)}"


def norm(node: ast.AST) -> str:
    """Normalised statement / expression text (independent of layout): used for human readable keys only."""
    return ast.unparse(node)
